"""Fresh-process precision probe for C20: construction order of problem and solver with double precision requested (the default).
args: order(problem_first|solver_config_first|x64_first) -> prints dtypes and values"""
import sys

order = sys.argv[1]
import jax  # noqa: E402
import numpy as np  # noqa: E402

if order in ("x64_first", "single_precision_solver_built_after", "single_precision_solver_built_before"):
    jax.config.update("jax_enable_x64", True)
from mdpax.problems.forest import Forest  # noqa: E402
from mdpax.solvers.value_iteration import ValueIteration  # noqa: E402
from mdpax.solvers.relative_value_iteration import RelativeValueIteration  # noqa: E402

if order.startswith("readme_gamma="):
    # README order (64-bit mode not enabled beforehand) with a discount factor that float32 cannot tell from 0 or 1: every gamma in [0,1] must
    # give a working solver
    from fractions import Fraction
    gq = float(Fraction(order.split("=", 1)[1]))
    out = []
    for cls, kw in ((ValueIteration, {}), (ValueIteration, {"convergence_test": "max_diff"}), (RelativeValueIteration, None)):
        if kw is None:
            continue
        try:
            s_ = cls(Forest(S=3, p=0.1), gamma=gq, epsilon=1e-3, verbose=0, **kw)
            r_ = s_.solve(3)
            out.append("ok:%d" % int(r_.info.iteration))
        except Exception as e:  # noqa: BLE001
            out.append("error:" + type(e).__name__)
    print("construct_solve=%s" % ",".join(out))
    sys.exit(0)
p = Forest(S=4, p=0.1)
if order == "single_precision_solver_built_before":
    other = ValueIteration(Forest(S=3, p=0.2), gamma=0.5, epsilon=1e-2, verbose=0, jax_double_precision=False)
s = ValueIteration(p, gamma=0.9, epsilon=1e-3, verbose=0)          # jax_double_precision defaults to True
if order == "single_precision_solver_built_after":
    # another solver, for which single precision is requested, is created in the same process before this one solves
    other = ValueIteration(Forest(S=3, p=0.2), gamma=0.5, epsilon=1e-2, verbose=0, jax_double_precision=False)
r = s.solve(60)
import jax.numpy as jnp  # noqa: E402
print("gamma_dtype=%s values_dtype=%s x64=%s values=%s" % (jnp.asarray(s.gamma).dtype, r.values.dtype, jax.config.jax_enable_x64,
                                                     ",".join(repr(float(v)) for v in np.asarray(r.values, dtype=np.float64))))
