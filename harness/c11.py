"""C11 — crash safety: the real checkpointed solve is killed (SIGKILL) immediately before its N-th filesystem operation, for sampled
(quick) or all (thorough) N, and at random wall-clock times; a fresh process then restores.  The observed operation log is mapped to the
events of Model/Crash.lean and must be accepted by the model's protocol recogniser (whose every prefix is proved safe)."""
from __future__ import annotations

import os
import random
import re
import shutil
import signal
import subprocess
import tempfile
import time
from concurrent.futures import ThreadPoolExecutor

from harness import core, session, shipped

FOREST_KW = {"S": 5, "p": 0.125, "r1": 6.0, "r2": 3.0}


def child(base, d, oplog, kill_at, asyn, kind, K, f, m, wall_kill=None, resume=False, slow=0.0, sigint=False):
    env = core.env_for_impl(1)
    if slow:
        env["MDPAXV_SLOW_COMMIT"] = str(slow)
    if sigint:
        env["MDPAXV_KILL_SIGNAL"] = "INT"
    cmd = [core.PY, str(core.VERIF / "harness" / "crash_child.py"), os.path.join(base, d), oplog, str(kill_at), str(asyn), kind, str(K), str(f), str(m)] + (["resume"] if resume else [])
    if wall_kill is None:
        p = subprocess.run(cmd, env=env, capture_output=True, text=True, timeout=600)
        return p.returncode
    p = subprocess.Popen(cmd, env=env, stdout=subprocess.DEVNULL, stderr=subprocess.DEVNULL)
    t0 = time.time()
    while time.time() - t0 < 120:            # wait for the solve loop to start, then kill after the given delay
        if os.path.exists(oplog) and "START" in open(oplog).read():
            break
        time.sleep(0.02)
    time.sleep(wall_kill)
    p.send_signal(signal.SIGINT if sigint else signal.SIGKILL)
    try:
        p.wait(timeout=120)
    except subprocess.TimeoutExpired:
        p.kill(); p.wait()
    return p.returncode


def events_of(oplog, ckdir):
    """completed (post) top-level operations -> model events"""
    evs = []
    deleting = set()
    ck = os.path.abspath(ckdir)
    if not os.path.exists(oplog):
        return evs, 0
    npre = 0
    for line in open(oplog):
        t = line.split()
        if not t or t[0] not in ("pre", "post"):
            continue
        if t[0] == "pre":
            npre += 1
            continue
        op, src = t[2], t[3]
        dst = t[4] if len(t) > 4 else ""
        rel = os.path.relpath(src, ck)
        top = rel.split(os.sep)[0]
        mt = re.fullmatch(r"(\d+)\.orbax-checkpoint-tmp.*", top)
        if op == "mkdir" and mt and rel == top:
            evs.append(f"mk:{mt.group(1)}")
        elif op in ("rename", "replace") and mt and rel == top and re.fullmatch(r"\d+", os.path.relpath(dst, ck)):
            evs.append(f"commit:{os.path.relpath(dst, ck)}")
        elif op in ("unlink", "remove", "rmdir") and re.fullmatch(r"\d+", top):
            if top not in deleting:
                deleting.add(top)
                evs.append(f"delstart:{top}")
            if op == "rmdir" and rel == top:
                evs.append(f"deldone:{top}")
    return evs, npre


def run(tier, seed):
    res = core.Result("C11")
    res.rule = ("the real checkpointed solve (VI / RVI / periodic / PI on a shipped problem, frequency 1-2, retention 1-2, sync and async) is killed "
                "with SIGKILL (and, at sampled points, interrupted with SIGINT / Ctrl-C) immediately before its N-th Python-level filesystem operation (mkdir, rename, unlink, rmdir: every stage of write, "
                "commit and retention deletion) for sampled N (quick) / every N (thorough), and at random wall-clock times; then restore() in a "
                "fresh process: either the documented clean failure, or iteration = the model's latest committed label for that prefix, values "
                "bit-identical to the uninterrupted trajectory at that iteration, and continuing reaches the uninterrupted final state. The clean "
                "run's operation log must be accepted by the model's protocol recogniser. distinct non-trivial = kill points followed by a restore")
    rng = random.Random(seed * 1103 + 11)
    # last component: seconds by which every checkpoint commit is delayed ("slow storage": with asynchronous saving the next save requests then
    # arrive while a write is still in flight)
    configs = ([("vi", 0, 1, 2, 0.0), ("vi", 1, 1, 1, 0.0), ("vi", 1, 1, 2, 0.15)] if tier == "quick" else
               [("vi", 0, 1, 2, 0.0), ("vi", 1, 1, 1, 0.0), ("vi", 1, 2, 2, 0.0), ("rvi", 1, 1, 2, 0.0), ("periodic", 0, 1, 1, 0.0), ("pi", 1, 1, 2, 0.0),
                ("vi", 1, 1, 2, 0.15), ("rvi", 1, 1, 3, 0.25), ("periodic", 1, 1, 2, 0.15)])
    K = 6
    base = tempfile.mkdtemp(prefix="mdpaxv_c11_")
    try:
        for (kind, asyn, f, m, slow) in configs:
            # reference trajectory: the same solver without checkpointing, one iteration per call
            g = "1" if kind in ("rvi", "periodic") else "1/2"
            new = {"op": "new", "solver": kind, "id": "p", "maxbs": 1024, "gamma": g, "eps": "1/10000000000000" if kind != "pi" else "1/1000", "sid": "ref", "n_hint": 5, "f": 0}
            if kind == "periodic":
                new.update(period=2, clear=0)
            if kind == "pi":
                new.update(budget=3)
            ops = [{"op": "shipped", "id": "p", "target": shipped.T["forest"], "kwargs": FOREST_KW}, new] + [{"op": "solve", "sid": "ref", "k": 1} for _ in range(K)]
            # … and the uninterrupted run itself: one solve(K) call (it may stop by convergence before K, as the killed child's call would)
            ops += [dict(new, sid="ref2"), {"op": "solve", "sid": "ref2", "k": K}]
            refall = [core.parse_resp(r["resp"]) for r in core.run_impl(ops, 1)]
            ref = refall[2:2 + K]
            traj = {int(r["iter"]): r for r in ref}
            final = refall[-1]
            final_iter = int(final["iter"])
            # clean run: conformance of the observed protocol
            tagc = f"{kind}{asyn}{f}{m}" + ("slow" if slow else "")
            oplog = os.path.join(base, f"clean_{tagc}.log")
            rc = child(base, f"clean_{tagc}", oplog, 0, asyn, kind, K, f, m, slow=slow)
            evs, total = events_of(oplog, os.path.join(base, f"clean_{tagc}"))
            # the finished, unkilled run has saved its last iteration (whatever the speed of the storage)
            rfin = core.parse_resp(core.run_impl([{"op": "basedir", "path": base}, {"op": "restore", "sid": "r", "dir": f"clean_{tagc}", "solver": kind, "id": "p"}], 1)[1]["resp"])
            res.evaluations += 1
            if rfin.get("iter") != str(final_iter) or any(rfin.get(x) != final.get(x) for x in ("values", "gain", "hidx", "hist")):
                res.disagreements.append({"channel": "C11/uninterrupted-run", "case": {"config": (kind, asyn, f, m), "commit_delay_s": slow}, "model": f"final iteration {final_iter}",
                                          "impl": str({k_: rfin.get(k_) for k_ in ("iter", "error")}), "failing_input": True,
                                          "what": f"after an uninterrupted solve({K}) and wait_until_finished the latest checkpoint restores as iteration {rfin.get('iter')}, "
                                                  f"the run ended at iteration {final_iter}", "key": "uninterrupted-final"})
            if slow:
                res.count("slow-commit-config")
                # every retained step of the finished slow run holds the state of the iteration it is labelled with
                lsr = core.parse_resp(core.run_impl([{"op": "basedir", "path": base}, {"op": "restore", "sid": "r", "dir": f"clean_{tagc}", "solver": kind, "id": "p"},
                                                     {"op": "ls", "dir": f"clean_{tagc}", "template_sid": "r"}], 1)[2]["resp"])
                res.evaluations += 1
                if lsr.get("steps") != lsr.get("stepiters"):
                    res.disagreements.append({"channel": "C11/label-content", "case": {"config": (kind, asyn, f, m), "commit_delay_s": slow}, "model": f"labels {lsr.get('steps')}",
                                              "impl": f"hold iterations {lsr.get('stepiters')}", "failing_input": True,
                                              "what": f"with slow commits the checkpoints labelled {lsr.get('steps')} hold the states of iterations {lsr.get('stepiters')}", "key": "label-content"})
            res.evaluations += 1
            acc = core.parse_resp(core.run_driver([f"accepts evs={','.join(evs) if evs else '-'}"])[0])
            res.count("clean-run-ops", total)
            if rc != 0 or acc.get("accepts") != "true" or not evs:
                res.disagreements.append({"channel": "C11/protocol-conformance", "case": {"config": (kind, asyn, f, m)}, "model": str(acc)[:300], "impl": ",".join(evs)[:400],
                                          "failing_input": False, "what": "the observed filesystem operation sequence of a clean run is not accepted by the store protocol model "
                                          "(commit by rename of a finished temporary directory; deletion only of steps older than the latest)", "key": "protocol"})
                continue
            res.sample({"config": (kind, asyn, f, m, slow), "ops": total, "events": evs[:12]})
            # kill points
            commit_ops = []
            n = 0
            for line in open(oplog):
                t = line.split()
                if t and t[0] == "pre":
                    n += 1
                    if t[2] in ("rename", "replace") and re.search(r"/\d+\.orbax-checkpoint-tmp[^/]*$", t[3]):
                        commit_ops.append(n)
            if tier == "quick":
                pts = set(rng.sample(range(1, total + 1), min(8, total)))
                for c in commit_ops[:2]:
                    pts.update([c, c + 1])
                pts.add(1); pts.add(total)
            else:
                pts = set(range(1, total + 1))
            pts = sorted(p for p in pts if 1 <= p <= total)
            walls = [rng.uniform(0.0, 1.5) for _ in range(2 if tier == "quick" else 10)]

            def trial(spec):
                mode, val = spec
                d = f"k_{tagc}_{mode}{str(val).replace('.', '_')}"
                lg = os.path.join(base, d + ".log")
                rc_ = child(base, d, lg, val if mode in ("op", "opint") else 0, asyn, kind, K, f, m, wall_kill=val if mode in ("wall", "wallint") else None, slow=slow,
                            sigint=mode in ("opint", "wallint"))
                ev_, npre_ = events_of(lg, os.path.join(base, d))
                rops = [{"op": "basedir", "path": base}, {"op": "restore", "sid": "r", "dir": d, "solver": kind, "id": "p"}]
                out = core.run_impl(rops, 1)
                rr = core.parse_resp(out[1]["resp"])
                cont = None
                if "iter" in rr:
                    rest = final_iter - int(rr["iter"])
                    if rest > 0:
                        out2 = core.run_impl([{"op": "basedir", "path": base}, {"op": "restore", "sid": "r", "dir": d, "solver": kind, "id": "p", "f": 0},
                                              {"op": "solve", "sid": "r", "k": rest}], 1)
                        cont = core.parse_resp(out2[2]["resp"])
                    else:
                        cont = rr
                has_cfg = os.path.exists(os.path.join(base, d, "config.yaml"))
                leftovers = sorted(os.listdir(os.path.join(base, d))) if os.path.isdir(os.path.join(base, d)) else []
                return spec, rc_, ev_, rr, cont, has_cfg, leftovers, out[1]["resp"]

            with ThreadPoolExecutor(max_workers=12) as ex:
                # Ctrl-C instead of a hard kill: at sampled operations and at wall-clock times inside the solve loop
                ints = [("opint", p) for p in rng.sample(pts, min(len(pts), 2 if tier == "quick" else 12))] + \
                       [("wallint", rng.uniform(0.0, 0.6)) for _ in range(2 if tier == "quick" else 10)]
                trials = list(ex.map(trial, [("op", p) for p in pts] + [("wall", w) for w in walls] + ints))
            lat_lines = core.run_driver([f"accepts evs={','.join(ev) if ev else '-'}" for (_, _, ev, *_rest) in trials])
            for (spec, rc_, ev_, rr, cont, has_cfg, leftovers, raw), ll in zip(trials, lat_lines):
                res.evaluations += 1
                res.nontrivial.add((kind, asyn, f, m, slow, spec))
                dl = core.parse_resp(ll)
                model_latest = dl["latest_after_prefix"].split(",")[-1]
                case = {"config": {"solver": kind, "async": asyn, "frequency": f, "max_checkpoints": m, "K": K, "commit_delay_s": slow}, "kill": {"mode": spec[0], "at": spec[1]},
                        "completed_events": ev_, "directory_after_kill": leftovers}
                res.count(f"kill:{spec[0]}"); res.count("restore:" + ("ok" if "iter" in rr else rr.get("error", "?")))
                if dl.get("accepts") != "true":
                    res.disagreements.append({"channel": "C11/prefix-conformance", "case": case, "model": ll[:200], "impl": "", "failing_input": False,
                                              "what": "completed operations before the kill are not a protocol-conforming sequence", "key": "protocol-prefix"})
                if "iter" not in rr:
                    # clean failure is only allowed when no checkpoint had been completed
                    if model_latest != "_":
                        res.disagreements.append({"channel": "C11/restore-fails", "case": case, "model": f"latest committed = {model_latest}", "impl": raw[:300], "failing_input": True,
                                                  "what": f"restore fails although checkpoint {model_latest} had been completed before the kill", "key": "restore-fails"})
                    elif rr.get("error") not in ("FileNotFoundError", "ValueError"):
                        res.disagreements.append({"channel": "C11/unclean-failure", "case": case, "model": "", "impl": raw[:300], "failing_input": True,
                                                  "what": "restore of a directory without a completed checkpoint does not fail with the documented error", "key": "unclean"})
                    continue
                k = int(rr["iter"])
                bad = []
                if model_latest == "_" or k < int(model_latest):
                    bad.append(f"restored iteration {k} is older than the last completed save {model_latest}")
                elif k != int(model_latest):
                    bad.append(f"the latest committed checkpoint is labelled {model_latest} but holds the state of iteration {k}")
                if k not in traj:
                    bad.append(f"restored iteration {k} never existed")
                else:
                    want = traj[k]
                    diff = [x for x in ("values", "gain", "hidx", "hist") if rr.get(x) != want.get(x)]
                    if diff:
                        bad.append(f"{diff} of the restored state are not those the solver held at iteration {k} (torn or mislabelled checkpoint)")
                if cont is not None and k in traj:
                    wantf = final
                    keys = ("iter", "values", "gain", "hidx", "hist") + (("policy",) if k < final_iter else ())   # no further solve() call => no policy extraction
                    if any(cont.get(x) != wantf.get(x) for x in keys):
                        bad.append("continuing from the restored state does not reach the uninterrupted final state")
                if bad:
                    res.disagreements.append({"channel": "C11/restored-state", "case": case, "model": f"latest committed = {model_latest}", "impl": raw[:300], "failing_input": True,
                                              "what": "; ".join(bad), "key": "restored-state"})
        # crash - restore - continue (still checkpointing into the same directory) - crash - restore
        for (kind, asyn, f, m, _slow) in (configs[:1] if tier == "quick" else configs[:6]):
            g = "1" if kind in ("rvi", "periodic") else "1/2"
            new = {"op": "new", "solver": kind, "id": "p", "maxbs": 1024, "gamma": g, "eps": "1/10000000000000" if kind != "pi" else "1/1000", "sid": "ref", "n_hint": 5, "f": 0}
            if kind == "periodic":
                new.update(period=2, clear=0)
            if kind == "pi":
                new.update(budget=3)
            K2 = 12
            ops = [{"op": "shipped", "id": "p", "target": shipped.T["forest"], "kwargs": FOREST_KW}, new] + [{"op": "solve", "sid": "ref", "k": 1} for _ in range(K2)]
            traj = {int(r["iter"]): r for r in [core.parse_resp(x["resp"]) for x in core.run_impl(ops, 1)][2:]}

            def chain(spec):
                n1, n2 = spec
                d = f"chain_{kind}{asyn}{f}{m}_{n1}_{n2}"
                lg1, lg2 = os.path.join(base, d + ".1.log"), os.path.join(base, d + ".2.log")
                child(base, d, lg1, n1, asyn, kind, 5, f, m)
                child(base, d, lg2, n2, asyn, kind, 6, f, m, resume=True)
                resumed_at = None
                if os.path.exists(lg2):
                    for line in open(lg2):
                        if line.startswith("START resumed_at="):
                            resumed_at = int(line.strip().split("=")[1])
                ev1, _ = events_of(lg1, os.path.join(base, d))
                ev2, _ = events_of(lg2, os.path.join(base, d))
                out = core.run_impl([{"op": "basedir", "path": base}, {"op": "restore", "sid": "r", "dir": d, "solver": kind, "id": "p"},
                                     {"op": "ls", "dir": d, "template_sid": "r"}], 1)
                return spec, resumed_at, ev1, ev2, core.parse_resp(out[1]["resp"]), core.parse_resp(out[2]["resp"]), out[1]["resp"]

            specs = [(rng.randint(30, 90), rng.randint(10, 80)) for _ in range(4 if tier == "quick" else 16)]
            with ThreadPoolExecutor(max_workers=8) as ex:
                chains = list(ex.map(chain, specs))
            for spec, resumed_at, ev1, ev2, rr, ls, raw in chains:
                res.evaluations += 1
                res.nontrivial.add(("chain", kind, asyn, f, m, spec))
                res.count("crash-restore-crash")
                case = {"config": {"solver": kind, "async": asyn, "frequency": f, "max_checkpoints": m}, "kills": {"first_at_op": spec[0], "second_at_op": spec[1]},
                        "resumed_at": resumed_at, "events_stage1": ev1, "events_stage2": ev2}
                bad = []
                acc = core.parse_resp(core.run_driver([f"accepts evs={','.join(ev1 + ev2) if ev1 + ev2 else '-'}"])[0])
                latest = acc["latest_after_prefix"].split(",")[-1]
                if acc.get("accepts") != "true":
                    res.disagreements.append({"channel": "C11/chain-conformance", "case": case, "model": str(acc)[:200], "impl": "", "failing_input": False,
                                              "what": "operation log across crash and resume is not protocol-conforming", "key": "protocol-chain"})
                if "iter" in rr:
                    k = int(rr["iter"])
                    if latest == "_" or k != int(latest):
                        bad.append(f"latest committed checkpoint is labelled {latest} but restores as iteration {k}")
                    if k not in traj or any(rr.get(x) != traj[k].get(x) for x in ("values", "gain", "hidx", "hist")):
                        bad.append(f"restored state is not the state of iteration {k} of the uninterrupted run")
                    if resumed_at is not None and k < resumed_at:
                        bad.append(f"restored iteration {k} is older than the checkpoint {resumed_at} the second run itself started from")
                    if ls.get("steps") != ls.get("stepiters"):
                        bad.append(f"checkpoint labels {ls.get('steps')} hold iterations {ls.get('stepiters')}")
                elif latest != "_":
                    bad.append(f"restore fails although checkpoint {latest} was completed")
                if bad:
                    res.disagreements.append({"channel": "C11/crash-restore-crash", "case": case, "model": f"latest committed = {latest}", "impl": raw[:300], "failing_input": True,
                                              "what": "; ".join(bad), "key": "chain"})
    finally:
        shutil.rmtree(base, ignore_errors=True)
    return res


def replay(rep, tier, seed):
    return run(tier, rep.get("seed", seed))
