"""C20 — configuration contract: every solver class x construction route x parameter values on and around the documented domain
boundaries; problem configuration fields; precision clause in fresh processes for both construction orders."""
from __future__ import annotations

import os
import random
import subprocess
from fractions import Fraction

from harness import core, session, shipped
from harness.core import frac

FOREST = {"target": shipped.T["forest"], "kwargs": {"S": 4, "p": 0.125, "r1": 6.0, "r2": 3.0}}
KINDS = ["vi", "pi", "rvi", "periodic", "semi"]


def margs(kind, params, problemok=1):
    a = f"kind={kind} problemok={problemok}"
    a += f" gamma={frac(params.get('gamma', {'rvi': 1.0}.get(kind, 0.99)))} eps={frac(params.get('epsilon', 1e-3))} maxbs={params.get('max_batch_size', 1024)}"
    a += f" f={params.get('checkpoint_frequency', 0)} m={params.get('max_checkpoints', 1)} verbose={params.get('verbose', 2)}"
    a += f" testok={1 if params.get('convergence_test', 'span') in ('span', 'max_diff') else 0} period={params.get('period', 1 if kind != 'periodic' else params.get('period', 1))} budget={params.get('max_eval_iter', 100)}"
    return a


def base_params(kind):
    p = {"epsilon": 1e-3, "verbose": 0}
    if kind == "rvi":
        p["gamma"] = 1.0
    elif kind == "periodic":
        p["gamma"] = 0.9; p["period"] = 2
    else:
        p["gamma"] = 0.9
    return p


def run(tier, seed):
    res = core.Result("C20")
    res.rule = ("five solver classes x three routes (problem instance + kwargs; solver config embedding the problem config; reload of the saved "
                "config.yaml through Hydra) x values on/around every documented boundary: gamma in {0, 1e-12, 1/2, 1-2^-53, 1}, eps 1e-12..1e6, "
                "thresholds around 1, 10, 100 and far above, batch size / period / evaluation budget / frequency / retention / verbosity at and "
                "beyond their limits, unknown convergence test, non-config problem; four problem configs field by field; precision clause in "
                "fresh processes for both construction orders. distinct non-trivial = distinct (solver, route, parameter set) constructions")
    rng = random.Random(seed * 2003 + 20)
    ops = []
    valid_sets = []
    for kind in KINDS:
        b = base_params(kind)
        gammas = [1.0] if kind == "rvi" else [0.0, 1e-12, 0.5, 1 - 2 ** -53, 1.0]
        for g in gammas:
            for eps in ([1e-12, 1e-3, 1.0, 100.0, 1e6] if tier == "quick" else [1e-12, 1e-6, 1e-3, 0.5, 1.0, 9.0, 10.0, 99.0, 100.0, 1e4, 1e6]):
                p = dict(b, gamma=g, epsilon=eps)
                if kind == "periodic":
                    p["period"] = 2 if g == 1.0 else rng.choice([1, 2, 3])
                valid_sets.append((kind, p))
        if kind in ("vi", "pi", "semi"):
            # both convergence tests at both ends of the gamma range (the two tests have separate threshold code)
            for g in (0.0, 1.0, 0.5):
                for tst in ("span", "max_diff"):
                    valid_sets.append((kind, dict(b, gamma=g, convergence_test=tst, epsilon=rng.choice([1e-3, 1.0]))))
        valid_sets.append((kind, dict(b, max_batch_size=1, verbose=4)))
        valid_sets.append((kind, dict(b, checkpoint_frequency=0, max_checkpoints=0, verbose=1)))
        if kind in ("vi", "pi", "semi"):
            valid_sets.append((kind, dict(b, convergence_test="max_diff", gamma=0.01, epsilon=2.0)))       # threshold 198
        if kind == "pi":
            valid_sets.append((kind, dict(b, max_eval_iter=1)))
        if kind == "pi":
            valid_sets.append((kind, dict(b, reset_values_for_each_policy_eval=True, max_eval_iter=2)))
        if kind == "periodic":
            valid_sets.append((kind, dict(b, clear_value_history_on_convergence=False, period=3)))
        if kind == "semi":
            # the seed must reach the generator by every route: shuffled sweeps over several batches, seeds other than the default
            valid_sets.append((kind, dict(b, shuffle_states=True, random_seed=7, max_batch_size=2)))
            valid_sets.append((kind, dict(b, shuffle_states=True, random_seed=0, max_batch_size=1)))
    if tier == "quick":
        rng.shuffle(valid_sets)
        keep = [v for v in valid_sets if "convergence_test" in v[1] or "shuffle_states" in v[1] or "reset_values_for_each_policy_eval" in v[1] or "clear_value_history_on_convergence" in v[1]] + [v for v in valid_sets if v[1].get("gamma") in (0.0, 1.0) or v[1].get("epsilon", 0) >= 100][:30] + valid_sets[:20]
        valid_sets = keep
    for kind, p in valid_sets:
        for route in ("kwargs", "config", "yaml"):
            ops.append({"op": "construct", "solver": kind, "route": route, "params": p, "problem": FOREST, "model_args": margs(kind, p), "_valid": True})
    # instance + configuration object naming another problem, then reload of the saved file: must behave like the plain routes on the instance
    for kind in KINDS:
        bp = base_params(kind)
        for route in ("kwargs", "config", "yaml", "yaml_inst_cfg"):
            ops.append({"op": "construct", "solver": kind, "route": route, "params": bp, "problem": dict(FOREST, other_kwargs={"S": 6, "r1": 2.0}),
                        "model_args": margs(kind, bp), "_valid": True, "_problem": "forest+stale-config"})
    # the other shipped problems through every route (sequence-valued and string-valued problem parameters travel through the
    # configuration object and the YAML file too)
    from harness.c10 import PROBS
    for j, (pk, kw) in enumerate(PROBS[1:]):
        kw = dict(kw)
        if pk == "mirjalili" and tier != "quick" and seed % 2:
            kw.update(max_useful_life=3, useful_life_at_arrival_distribution_c_0=[0.5, 0.25], useful_life_at_arrival_distribution_c_1=[-0.25, 0.125])
        for kind in (["vi", "periodic"] if tier == "quick" else KINDS):
            if kind == "rvi" and pk != "hendrix":
                continue
            bp = dict(base_params(kind), max_batch_size=64)
            for route in ("kwargs", "config", "yaml"):
                ops.append({"op": "construct", "solver": kind, "route": route, "params": bp, "problem": {"target": shipped.T[pk], "kwargs": kw},
                            "model_args": margs(kind, bp), "_valid": True, "_problem": pk})
    # invalid values: one field beyond its domain at a time
    for kind in KINDS:
        b = base_params(kind)
        bad = [{"gamma": -0.01}, {"gamma": 1.0000001}, {"epsilon": 0.0}, {"epsilon": -1.0}, {"max_batch_size": 0}, {"checkpoint_frequency": -1},
               {"max_checkpoints": -1}, {"verbose": -1}, {"verbose": 5}]
        if kind in ("vi", "pi", "semi"):
            bad += [{"convergence_test": "relative"}, {"convergence_test": "Span"}, {"convergence_test": "MAX_DIFF"}, {"convergence_test": ""}]
        if kind == "pi":
            bad.append({"max_eval_iter": 0})
        if kind == "periodic":
            bad += [{"period": 0}, {"gamma": 1.0, "period": 1}]
        if kind == "rvi":
            bad = [x for x in bad if "gamma" not in x] + [{"gamma": 0.99}, {"gamma": 0.0}]
        for x in bad:
            p = dict(b, **x)
            for route in ("kwargs", "config"):
                ops.append({"op": "construct", "solver": kind, "route": route, "params": p, "problem": FOREST, "model_args": margs(kind, p), "_valid": False})
        ops.append({"op": "construct", "solver": kind, "route": "config", "params": b, "problem": FOREST, "bad_problem": True, "model_args": margs(kind, b, problemok=0), "_valid": False})
    # problem configs
    pc = [("forest", {"S": 0}, "kind=forest S=0"), ("forest", {"S": 3, "p": 1.5}, "kind=forest S=3 p=3/2"), ("forest", {"S": 3, "p": -0.1}, "kind=forest S=3 p=-1/10"),
          ("forest", {"S": 1, "p": 0.0}, "kind=forest S=1 p=0"), ("forest", {"S": 2, "p": 1.0}, "kind=forest S=2 p=1"),
          ("demoor", {"max_demand": 0}, "kind=demoor D=0"), ("demoor", {"demand_gamma_mean": 0.0}, "kind=demoor mean=0"), ("demoor", {"demand_gamma_cov": -1.0}, "kind=demoor cov=-1"),
          ("demoor", {"max_useful_life": 0}, "kind=demoor m=0"), ("demoor", {"lead_time": 0}, "kind=demoor L=0"), ("demoor", {"max_order_quantity": 0}, "kind=demoor Q=0"),
          ("demoor", {"issue_policy": "random"}, "kind=demoor issueok=0"), ("demoor", {"max_demand": 3, "max_useful_life": 1, "lead_time": 1, "max_order_quantity": 1}, "kind=demoor D=3 m=1 L=1 Q=1"),
          ("hendrix", {"max_useful_life": 0}, "kind=hendrix m=0"), ("hendrix", {"demand_poisson_mean_a": 0.0}, "kind=hendrix meana=0"), ("hendrix", {"substitution_probability": 1.01}, "kind=hendrix rho=101/100"),
          ("hendrix", {"max_order_quantity_b": 0}, "kind=hendrix Qb=0"), ("hendrix", {"max_useful_life": 1, "max_order_quantity_a": 1, "max_order_quantity_b": 1, "substitution_probability": 1.0}, "kind=hendrix m=1 Qa=1 Qb=1 rho=1"),
          ("mirjalili", {"max_demand": 0}, "kind=mirjalili D=0"), ("mirjalili", {"weekday_demand_negbin_n": (1.0,) * 6}, "kind=mirjalili nlen=6"),
          ("mirjalili", {"weekday_demand_negbin_delta": (1.0,) * 6 + (0.0,)}, "kind=mirjalili dpos=0"), ("mirjalili", {"max_useful_life": 0}, "kind=mirjalili m=0 c0len=2 c1len=2"),
          ("mirjalili", {"max_useful_life": 3, "useful_life_at_arrival_distribution_c_0": (1.0,)}, "kind=mirjalili m=3 c0len=1"),
          ("mirjalili", {"max_order_quantity": 0}, "kind=mirjalili Q=0"),
          ("mirjalili", {"max_useful_life": 2, "useful_life_at_arrival_distribution_c_0": (1.0,), "useful_life_at_arrival_distribution_c_1": (0.0,), "max_order_quantity": 1, "max_demand": 2}, "kind=mirjalili m=2 c0len=1 c1len=1 Q=1 D=2")]
    # every documented field of every problem class at its boundary (valid) and just outside it (invalid), on small complete instances
    from fractions import Fraction as _F
    small = {"forest": {"S": 3, "p": 0.125},
             "demoor": {"max_demand": 3, "max_useful_life": 1, "lead_time": 1, "max_order_quantity": 1, "demand_gamma_mean": 1.5, "demand_gamma_cov": 0.5, "issue_policy": "fifo"},
             "hendrix": {"max_useful_life": 1, "max_order_quantity_a": 1, "max_order_quantity_b": 1, "demand_poisson_mean_a": 1.0, "demand_poisson_mean_b": 1.0, "substitution_probability": 0.5},
             "mirjalili": {"max_demand": 2, "max_useful_life": 2, "max_order_quantity": 1, "useful_life_at_arrival_distribution_c_0": (0.5,),
                           "useful_life_at_arrival_distribution_c_1": (-0.25,), "weekday_demand_negbin_n": (3.5, 11.0, 7.2, 11.1, 5.9, 5.5, 2.2),
                           "weekday_demand_negbin_delta": (5.7, 6.9, 6.5, 6.2, 5.8, 3.3, 3.4)}}
    mkey = {"forest": {"S": "S", "p": "p"},
            "demoor": {"max_demand": "D", "max_useful_life": "m", "lead_time": "L", "max_order_quantity": "Q", "demand_gamma_mean": "mean", "demand_gamma_cov": "cov"},
            "hendrix": {"max_useful_life": "m", "max_order_quantity_a": "Qa", "max_order_quantity_b": "Qb", "demand_poisson_mean_a": "meana",
                        "demand_poisson_mean_b": "meanb", "substitution_probability": "rho"},
            "mirjalili": {"max_demand": "D", "max_useful_life": "m", "max_order_quantity": "Q"}}

    def margs_problem(k, kw):
        a = [f"kind={k}"]
        for f_, key in mkey[k].items():
            a.append(f"{key}={frac(_F(kw[f_])) if isinstance(kw[f_], float) else kw[f_]}")
        if k == "demoor":
            a.append(f"issueok={1 if kw['issue_policy'] in ('fifo', 'lifo') else 0}")
        if k == "mirjalili":
            n_, d_ = kw["weekday_demand_negbin_n"], kw["weekday_demand_negbin_delta"]
            a += [f"nlen={len(n_)}", f"npos={1 if all(x > 0 for x in n_) else 0}", f"dlen={len(d_)}", f"dpos={1 if all(x > 0 for x in d_) else 0}",
                  f"c0len={len(kw['useful_life_at_arrival_distribution_c_0'])}", f"c1len={len(kw['useful_life_at_arrival_distribution_c_1'])}"]
        return " ".join(a)

    edits = {"forest": [{"S": 1}, {"S": 0}, {"S": -1}, {"p": 0.0}, {"p": 1.0}, {"p": -1e-9}, {"p": 1.000001}],
             "demoor": [{"max_demand": 1}, {"max_demand": 0}, {"max_demand": -2}, {"max_useful_life": 0}, {"max_useful_life": 2}, {"lead_time": 0}, {"lead_time": 2},
                        {"max_order_quantity": 0}, {"max_order_quantity": 2}, {"demand_gamma_mean": 0.0}, {"demand_gamma_mean": -1.0}, {"demand_gamma_cov": 0.0},
                        {"demand_gamma_cov": 1.5}, {"issue_policy": "lifo"}, {"issue_policy": "FIFO"}, {"issue_policy": ""}],
             "hendrix": [{"max_useful_life": 0}, {"max_useful_life": 2}, {"max_order_quantity_a": 0}, {"max_order_quantity_b": 0}, {"max_order_quantity_b": 2},
                         {"demand_poisson_mean_a": 0.0}, {"demand_poisson_mean_b": 0.0}, {"demand_poisson_mean_b": -0.5}, {"substitution_probability": 0.0},
                         {"substitution_probability": 1.0}, {"substitution_probability": -0.01}, {"substitution_probability": 1.01}],
             "mirjalili": [{"max_demand": 1}, {"max_demand": 0}, {"max_order_quantity": 0}, {"max_order_quantity": 2},
                           {"max_useful_life": 1, "useful_life_at_arrival_distribution_c_0": (), "useful_life_at_arrival_distribution_c_1": ()},
                           {"max_useful_life": 0, "useful_life_at_arrival_distribution_c_0": (), "useful_life_at_arrival_distribution_c_1": ()},
                           {"max_useful_life": 3}, {"useful_life_at_arrival_distribution_c_1": (0.1, 0.2)},
                           {"weekday_demand_negbin_n": (3.5, 11.0, 7.2, 11.1, 5.9, 5.5)}, {"weekday_demand_negbin_n": (3.5, 11.0, 7.2, 11.1, 5.9, 5.5, 0.0)},
                           {"weekday_demand_negbin_delta": (5.7, 6.9, 6.5, 6.2, 5.8, 3.3, 3.4, 1.0)}, {"weekday_demand_negbin_delta": (5.7, 6.9, 6.5, 6.2, 5.8, 3.3, -3.4)}]}
    for k, es in edits.items():
        for e_ in es:
            kw = dict(small[k], **e_)
            pc.append((k, kw, margs_problem(k, kw)))
    for k, kw, ma in pc:
        for via in ("config", "instance"):
            ops.append({"op": "pconstruct", "target": shipped.T[k], "kwargs": kw, "via": via, "model_args": ma})
    # verbosity: the integer -> loguru level map on and around 0..4 and on non-integers; set_verbosity by integer and by name (any case)
    vops = []
    for v in range(-3, 9):
        vops.append({"op": "verbosity", "value": v, "model_args": f"int={v}"})
    for v in (2.0, 2.5, "2", "INFO", None, [2]):
        vops.append({"op": "verbosity", "value": v, "model_args": "nonint=1"})
    vops.append({"op": "verbosity", "value": True, "model_args": "int=1"})        # bool is an int in Python: True is level 1
    for v in range(-2, 7):
        vops.append({"op": "verbosity", "set": v, "model_args": f"set=int:{v}"})
    for nm in ["ERROR", "WARNING", "INFO", "DEBUG", "TRACE", "error", "warning", "info", "debug", "trace", "Info", "dEbUg", "tRACE", "Warning",
               "", "verbose", "WARN", "2", "INFOS", "TRAC", "critical", "SUCCESS"]:
        vops.append({"op": "verbosity", "set": nm, "model_args": f"set=name:{nm}"})
    ops += vops
    W = 8
    chunks = [ops[i::W] for i in range(W)]
    outs = session.run_sessions_parallel([(c, 1) for c in chunks if c], workers=W)
    by_set = {}
    for out in outs:
        for (op, m, i, line) in out:
            res.evaluations += 1
            di = core.parse_resp(i)
            if op["op"] == "verbosity":
                res.count("verbosity:" + i.split(" ")[0].replace("error=", ""))
                res.nontrivial.add(("verbosity", str(op.get("value", "")), str(op.get("set", "")), "set" in op))
                if i != (m or ""):
                    res.disagreements.append({"channel": "C20/verbosity", "case": {k: v for k, v in op.items() if k != "model_args"}, "model": m, "impl": i, "failing_input": True,
                                              "what": "verbosity level accepted / rejected / mapped contrary to the documented 0..4 <-> ERROR..TRACE table", "key": "verbosity"})
                continue
            if op["op"] == "pconstruct":
                res.count("problem-config:" + ("ok" if i == "ok" else di.get("error", "?")))
                res.nontrivial.add(("p", op["target"], str(op["kwargs"]), op["via"]))
                if i != (m or "").split(" ")[0] and not (m.startswith("error") and i.startswith("error") and di.get("error") in ("ValueError", "TypeError")):
                    res.disagreements.append({"channel": "C20/problem-config", "case": {k: v for k, v in op.items() if k != "model_args"}, "model": m, "impl": i, "failing_input": True,
                                              "what": "problem configuration accepted/rejected contrary to the documented domain", "key": "problem-config"})
                continue
            case = {"solver": op["solver"], "route": op["route"], "params": op["params"], "bad_problem": op.get("bad_problem", False), "problem": op["problem"]}
            res.nontrivial.add((op["solver"], op["route"], str(sorted(op["params"].items())), op.get("bad_problem", False), op.get("_problem", "forest")))
            mval = (m or "").split(" ")[0]
            if not op["_valid"]:
                res.count("invalid:" + di.get("construct", "?"))
                want = mval.replace("error=", "")
                got = di.get("construct", "")
                if not got.startswith("error:") or got.split(":", 1)[1] not in ("ValueError", "TypeError"):
                    res.disagreements.append({"channel": "C20/invalid-accepted", "case": case, "model": m, "impl": i[:300], "failing_input": True,
                                              "what": "a value outside the documented domain is not rejected at construction with ValueError/TypeError", "key": f"invalid:{op['solver']}"})
                elif mval == "ok":
                    res.disagreements.append({"channel": "C20/model", "case": case, "model": m, "impl": i[:300], "failing_input": False, "what": "model accepts what the code rejects", "key": "model"})
                continue
            # valid parameter set: must construct and solve by every route
            res.count(f"valid:{op['route']}:" + ("ok" if di.get("solve") == "ok" else (di.get("construct", "") + "/" + di.get("solve", ""))))
            if mval != "ok":
                res.disagreements.append({"channel": "C20/model", "case": case, "model": m, "impl": i[:300], "failing_input": False, "what": "model rejects a parameter set the harness considers valid", "key": "model"})
            if di.get("construct") != "ok" or di.get("solve") != "ok":
                p = op["params"]
                g, e = p.get("gamma", 0.99), p.get("epsilon", 1e-3)
                thr = e if g in (0.0, 1.0) or op["solver"] in ("rvi", "periodic") else e * (1 - g) / g
                if op["route"] == "config" and "NameError" in i:
                    key = "config-only-route:NameError"
                elif g == 0.0 and "OverflowError" in i:
                    key = "gamma=0:OverflowError"
                elif "Format_specifier" in i and thr >= 100:
                    key = "threshold>=100:format"
                else:
                    key = f"valid-fails:{op['solver']}"
                res.disagreements.append({"channel": "C20/valid-does-not-work", "case": case, "model": m, "impl": i[:300], "failing_input": True,
                                          "what": f"a parameter set accepted by the validators does not construct/solve by route '{op['route']}': {di.get('construct')} {di.get('solve', '')} {di.get('msg', '')}",
                                          "key": key})
                continue
            by_set.setdefault((op["solver"], str(sorted(op["params"].items())), op.get("_problem", "forest")), {})[op["route"]] = (di, i)
            res.count("valid-route-problem:" + op.get("_problem", "forest"))
            dm = core.parse_resp(m)
            if "thr" in dm and "thr" in di:
                a, b_ = Fraction(dm["thr"]), Fraction(di["thr"])
                if abs(a - b_) > abs(a) * Fraction(1, 2 ** 40):
                    res.disagreements.append({"channel": "C20/threshold", "case": case, "model": dm["thr"], "impl": di["thr"], "failing_input": False, "what": "threshold differs from the documented formula", "key": "threshold"})
            if di.get("values_dtype") != "float64" or di.get("gamma_dtype") != "float64":
                res.disagreements.append({"channel": "C20/dtype", "case": case, "model": "float64", "impl": i[:200], "failing_input": True, "what": "values / gamma not float64 with double precision requested", "key": "dtype"})
    # the progress format (a defect source: thresholds >= 100 used to give a negative precision): the implementation's precision against the
    # model's `decimalPlaces` at floor(log10 threshold), the floor taken exactly
    fl, fm = [], []
    for out in outs:
        for (op, m, i, line) in out:
            di = core.parse_resp(i)
            if op["op"] == "construct" and di.get("construct") == "ok" and di.get("fmt", "_") not in ("_", None) and "thr" in di:
                thr = Fraction(di["thr"])
                if thr <= 0:
                    continue
                e = 0
                while Fraction(10) ** (e + 1) <= thr:
                    e += 1
                while Fraction(10) ** e > thr:
                    e -= 1
                near_power = any(abs(thr / Fraction(10) ** k - 1) < Fraction(1, 10 ** 12) for k in (e, e + 1))
                fl.append(f"fmt e={e} m=10"); fm.append((op, di["fmt"], thr, near_power))
    seen_fmt = set()
    for mline, (op, fmt, thr, near_power) in zip(core.run_driver(fl) if fl else [], fm):
        want = core.parse_resp(mline)["decimals"]
        res.count("format-compared")
        seen_fmt.add(fmt)
        if fmt != f".{want}f":
            if near_power:
                res.ambiguous += 1      # log10 of a float within rounding of a power of ten
                continue
            res.disagreements.append({"channel": "C20/format", "case": {"solver": op["solver"], "params": op["params"]}, "model": f".{want}f", "impl": fmt, "failing_input": True,
                                      "what": f"progress format for threshold {float(thr):.6g} is {fmt}, documented max(0, min(1 - floor(log10 thr), 10)) gives .{want}f", "key": "format"})
    res.count("distinct-formats", len(seen_fmt))
    # the routes behave identically
    for key, routes in by_set.items():
        vals = {r: (d["iter"], d["values"], d["policy"], d["thr"], d.get("attrs")) for r, (d, _) in routes.items()}
        if len(set(vals.values())) > 1:
            res.disagreements.append({"channel": "C20/routes-differ", "case": {"solver": key[0], "params": key[1], "problem": key[2]}, "model": "", "impl": str(vals)[:500], "failing_input": True,
                                      "what": "the construction routes give different results", "key": "routes-differ"})
        else:
            res.count("routes-identical")
    # precision clause: fresh processes, both construction orders, x64 not pre-enabled
    env = dict(os.environ, PYTHONPATH=f"{core.REPO / 'src'}", JAX_PLATFORMS="cpu")
    env.pop("JAX_ENABLE_X64", None)
    outs_ = {}
    for order in ("problem_first", "x64_first", "single_precision_solver_built_after", "single_precision_solver_built_before"):
        p = subprocess.run([core.PY, str(core.VERIF / "harness" / "c20_child.py"), order], env=env, capture_output=True, text=True, timeout=600)
        outs_[order] = core.parse_resp(p.stdout.strip().splitlines()[-1]) if p.returncode == 0 and p.stdout.strip() else {"error": p.stderr[-300:]}
        res.evaluations += 1
    # README order with discount factors that float32 cannot distinguish from 1 or from 0: construction and solve() must still work
    for gq in ("1073741823/1073741824", "1/1427247692705959881058285969449495136382746624", "0", "1"):
        p = subprocess.run([core.PY, str(core.VERIF / "harness" / "c20_child.py"), "readme_gamma=" + gq], env=env, capture_output=True, text=True, timeout=600)
        line_ = p.stdout.strip().splitlines()[-1] if p.returncode == 0 and p.stdout.strip() else "construct_solve=error:" + p.stderr[-200:].replace(" ", "_")
        res.evaluations += 1
        got_ = core.parse_resp(line_).get("construct_solve", "?")
        if "error" in got_ or got_ == "?":
            res.disagreements.append({"channel": "C20/readme-order-gamma", "case": {"gamma": gq, "order": "problem and solver created without enabling 64-bit mode first"}, "model": "ok",
                                      "impl": line_[:300], "failing_input": True, "what": f"a valid discount factor ({gq}) does not give a working solver in the README construction order: {got_}",
                                      "key": "readme-gamma"})
        else:
            res.count("readme-order-gamma:ok")
    a, b_ = outs_["problem_first"], outs_["x64_first"]
    res.sample({"precision": outs_})
    # a solver for which double precision is requested computes in float64 whatever other solvers (single precision requested) exist in the process
    for order in ("single_precision_solver_built_after", "single_precision_solver_built_before"):
        c_ = outs_[order]
        if c_.get("values_dtype") != "float64" or c_.get("gamma_dtype") != "float64" or c_.get("values") != b_.get("values"):
            res.disagreements.append({"channel": "C20/precision-other-solver", "case": {"order": order}, "model": str(b_)[:300], "impl": str(c_)[:300], "failing_input": True,
                                      "what": f"double precision requested, 64-bit mode enabled first, but with a single-precision solver in the same process ({order}) "
                                              f"solve() returns {c_.get('values_dtype')} values / other values than alone", "key": "precision-other-solver"})
        else:
            res.count("precision-with-other-solver:float64")
    if a.get("values_dtype") != "float64" or a.get("gamma_dtype") != "float64":
        res.disagreements.append({"channel": "C20/precision-order", "case": {"order": "problem created before the solver, 64-bit mode not enabled beforehand (README order)"}, "model": str(b_)[:200], "impl": str(a)[:300],
                                  "failing_input": True, "what": f"with double precision requested the solver's gamma is {a.get('gamma_dtype')} and solve() returns {a.get('values_dtype')} values", "key": "precision-order"})
    elif "values" in a and "values" in b_:
        va, vb = [float(x) for x in a["values"].split(",")], [float(x) for x in b_["values"].split(",")]
        if max(abs(x - y) / max(1.0, abs(y)) for x, y in zip(va, vb)) > 1e-5:
            res.disagreements.append({"channel": "C20/precision-order", "case": {"order": "problem_first"}, "model": str(vb), "impl": str(va), "failing_input": True,
                                      "what": "values differ between construction orders beyond float32 rounding of the problem parameters", "key": "precision-order-values"})
        else:
            res.count("precision-order:float64")
    return res


def replay(rep, tier, seed):
    return run(tier, rep.get("seed", seed))
