"""C01 — near-optimality on reported convergence: real solvers run to convergence on generated MDPs; exact optimal values W and
exact value U of the returned policy are proposed by Python (Fractions) and *verified by the Lean driver* with the model's own
operators; the property's bounds are then exact rational inequalities."""
from __future__ import annotations

import random
from fractions import Fraction

from harness import core, gen, oracle, session
from harness.core import frac, flist
from harness.c08 import spec_size, compare_state


def bound_for(solver, test, g, eps):
    """(policy bound, values bound vs W or None, values bound vs U or None) per the property statement"""
    if solver == "vi":
        return (eps, None, None) if test == "span" else (2 * eps, eps, None)
    if solver == "pi":
        return (eps / g, None, None) if test == "span" else (2 * eps / g, None, eps / g)
    if solver == "semi":
        return (None, None, None) if test == "span" else (2 * g * eps / (1 - g), eps, None)
    raise ValueError(solver)


# stress cases that every run contains (the rest is random): families on which a wrong stopping measure stops far too early
FORCED = [("vi", "span", "twosink"), ("pi", "span", "twosink"), ("vi", "span", "cost"), ("vi", "max_diff", "twosink"), ("semi", "max_diff", "twosink"),
          ("pi", "max_diff", "cost"), ("vi", "span", "twosink"), ("semi", "max_diff", "cost"),
          # near-ties: a slightly worse copy of an action at a lower index; a tolerance-based arg-max keeps it and the policy looks stable
          ("pi", "span", "random", True), ("pi", "max_diff", "unichain", True), ("vi", "span", "random", True), ("semi", "max_diff", "random", True),
          # integer-typed initial estimates (`initial_value` returning an int): every solver must still compute in floating point
          ("semi", "max_diff", "random", False, "intinit"), ("semi", "max_diff", "unichain", False, "intinit"), ("vi", "max_diff", "random", False, "intinit"),
          ("pi", "max_diff", "random", False, "intinit"),
          # values of the order 1e12 with a decision settled only by the late part of the return (gamma = 0.99, eps = 1e-3): the solver must really
          # iterate until its documented measure is below the documented threshold
          ("vi", "span", "latepay"), ("vi", "max_diff", "latepay")]


def gen_case(rng, i, tier):
    solver = rng.choice(["vi", "vi", "pi", "pi", "semi"])
    kind = rng.choice(["random", "random", "unichain", "periodic", "twosink", "twosink", "cost"])
    forced = FORCED[i] if i < len(FORCED) else None
    if forced:
        solver, kind = forced[0], forced[2]
    near = bool(forced and len(forced) > 3 and forced[3])
    intinit = bool(forced and len(forced) > 4)
    spec = gen.gen_spec(rng, smax=10 if tier == "quick" else 30, kind=kind, S=(rng.randint(3, 10) if forced else None),
                        A=(rng.choice([2, 3, 4]) if near else None), near_tie=(True if near else None),
                        denom=rng.choice([4, 8]), R=(10 ** 10 if kind == "latepay" else rng.choice([10, 1000] if forced else [1, 10, 1000, 10 ** 6])),
                        init=(True if intinit else None), tiny=(False if intinit else None))
    if intinit:
        spec["init_dtype"] = "int32"
        spec["_tags"] = [t for t in spec["_tags"] if not t.startswith("init-")] + ["init-int32"]
    S = spec_size(spec)
    g = rng.choice(["1/2", "3/4", "7/8", "9/10", "99/100", "15/16"])
    eps = rng.choice(["1/1000000", "1/1000", "1/100", "1/2", "1", "10", "99"])
    if forced:
        g = rng.choice(["3/4", "7/8", "9/10", "15/16"])
        eps = rng.choice(["1/1000", "1/100", "1/2"])
    if kind == "latepay":
        g, eps = "99/100", "1/1000"
    if near:
        eps = rng.choice(["1/1000000", "1/100000"])       # far below the loss of preferring the worse copy: (R/2^18)/(1-gamma)
    op = {"op": "new", "solver": solver, "id": f"p{i}", "maxbs": rng.choice(gen.layouts_for(S)), "gamma": g, "eps": eps,
          "test": forced[1] if forced else rng.choice(["span", "max_diff"]), "n_hint": S}
    if solver == "pi":
        op["budget"] = rng.choice([1, 2, 5, 100, 100, 10000])
        op["reset"] = rng.randint(0, 1)
    if solver == "semi":
        op["shuffle"] = 1 if intinit else rng.randint(0, 1)
        op["random_seed"] = rng.randint(0, 100)
        op["test"] = forced[1] if forced else rng.choice(["max_diff", "max_diff", "span"])
    return spec, op


def threshold_ge_100(op):
    g, e = Fraction(op["gamma"]), Fraction(op["eps"])
    return e * (1 - g) / g >= 100


def run(tier, seed):
    res = core.Result("C01")
    res.rule = ("VI / PI / semi-async (fixed + shuffled) run to reported convergence on generated MDPs (rewards up to 1e6, ties, duplicated actions, "
                "absorbing/unreachable states, 1-3 dim vectors, initial value / initial policy overrides, all layouts, 1-3 devices) x gamma in "
                "{1/2..0.99} x eps in {1e-6..99} x both tests x evaluation budgets; exact W,U certificates verified by the Lean driver; checks "
                "0 <= W-U < bound (and |V-W|, |V-U| clauses) exactly. distinct non-trivial = converged runs with verified certificates")
    rng = random.Random(seed * 1009 + 1)
    ncase = 40 if tier == "quick" else 300
    W = 8
    devs = [1, 1, 1, 1, 1, 1, 2, 3]
    jobs = [([], devs[w]) for w in range(W)]
    for i in range(ncase):
        spec, new = gen_case(rng, i, tier)
        if threshold_ge_100(new):
            new["eps"] = "1/2"          # thresholds >= 100 crash logging (C20 finding), keep C01 about C01
        ops = jobs[i % W][0]
        ops.append({"op": "problem", "id": f"p{i}", "spec": {k: v for k, v in spec.items() if not k.startswith("_")}, "_tags": spec["_tags"]})
        ops.append(dict(new, sid=f"s{i}"))
        ops.append({"op": "solve", "sid": f"s{i}", "k": (8000 if "latepay" in spec["_tags"] else 3000) if new["solver"] != "pi" else 200, "_new": new})
    impls = core.run_impl_parallel(jobs, workers=W)
    # model side: only problems + cert lines (the loop itself is tied by C08/C03); plus the model loop for dyadic gamma
    lines, meta = [], []
    for (ops, d), impl in zip(jobs, impls):
        tabs = {}
        cur = None
        for op, r in zip(ops, impl):
            i = r["resp"]
            if op["op"] == "problem":
                if not i.startswith("problem "):
                    raise core.HarnessError("tabulation failed: " + i + r.get("trace", ""))
                tabs[op["id"]] = (oracle.Tab.from_line(i), i)
                for tg in op.get("_tags", []):
                    res.count("tag:" + tg)
            elif op["op"] == "new":
                cur = (op, i)
            elif op["op"] == "solve":
                new, newresp = cur
                t, pline = tabs[new["id"]]
                res.evaluations += 1
                di = core.parse_resp(i)
                res.count("solver:" + new["solver"] + "/" + new["test"])
                case = {"new": {k: v for k, v in new.items() if not k.startswith("_")}, "devices": d, "problem_line": pline}
                if "values" not in di:
                    res.disagreements.append({"channel": "C01/solve-raises", "case": case, "model": "", "impl": i[:300], "failing_input": True,
                                              "what": f"solve raised {di.get('error')}", "key": f"raises:{new['solver']}"})
                    continue
                if di["conv"] != "true":
                    res.count("not-converged")
                    continue
                g, eps = Fraction(new["gamma"]), Fraction(new["eps"])
                pol = [int(x) for x in di["policy"].split(",")]
                Wopt, _ = oracle.optimal(t, g)
                U = oracle.policy_value(t, g, pol)
                if Wopt is None or U is None:
                    res.count("certificate-not-found")
                    continue
                lines.append(pline)
                meta.append(None)
                lines.append(f"cert id={new['id']} gamma={new['gamma']} W={flist(Wopt, frac)} U={flist(U, frac)} pol={flist(pol)} V={di['values']}")
                case["_wmax"] = max([abs(w) for w in Wopt] + [1])
                meta.append((case, new, di, g, eps, d))
    model = core.run_driver(lines)
    recheck = []
    for m, mt in zip(model, meta):
        if mt is None:
            continue
        case, new, di, g, eps, d = mt
        dm = core.parse_resp(m)
        if dm.get("wfix") != "true" or dm.get("ufix") != "true":
            res.count("certificate-rejected-by-model")
            res.notes.append(f"certificate rejected: {case['new']}")
            continue
        pb, vwb, vub = bound_for(new["solver"], new["test"], g, eps)
        if pb is None:
            res.count("no-bound-stated(semi/span)")
            continue
        res.nontrivial.add((new["id"], new["solver"], new["test"], new["gamma"], new["eps"]))
        gmin, gmax = Fraction(dm["gapmin"]), Fraction(dm["gapmax"])
        res.count("converged+certified")
        budget_note = ""
        viol = []
        if gmin < 0:
            viol.append(f"policy value exceeds optimal value?! gapmin={float(gmin)}")
        # a quantity that sits on its bound to within 2^-40 relative is a floating-point tie of the solver's own `measure < threshold`
        # comparison (e.g. measure = 1 exactly against eps(1-gamma)/gamma = 1 computed as 1.0000000000000009): not decidable, counted as ambiguous
        tie = Fraction(1, 2 ** 40)
        ties = 0
        if not gmax < pb:
            if gmax <= pb * (1 + tie):
                ties += 1
            else:
                viol.append(f"optimality gap {float(gmax):.6g} >= bound {float(pb):.6g}")
        # the returned values are float64: a distance to V* / V_pi that exceeds its bound by less than the resolution of float64 at the magnitude
        # of the values (2^-44 relative, a few dozen ulps accumulated over the sweeps) is not decidable either
        fres = case.pop("_wmax", 1) * Fraction(1, 2 ** 44)
        if vwb is not None and not Fraction(dm["vwmax"]) < vwb:
            if Fraction(dm["vwmax"]) <= vwb * (1 + tie) or Fraction(dm["vwmax"]) <= vwb + fres:
                ties += 1
            else:
                viol.append(f"|V - V*| = {float(Fraction(dm['vwmax'])):.6g} >= {float(vwb):.6g}")
        if vub is not None and not Fraction(dm["vumax"]) < vub:
            if Fraction(dm["vumax"]) <= vub * (1 + tie) or Fraction(dm["vumax"]) <= vub + fres:
                ties += 1
            else:
                viol.append(f"|V - V_pi| = {float(Fraction(dm['vumax'])):.6g} >= {float(vub):.6g}")
        if ties:
            res.ambiguous += 1
            res.count("bound-attained-exactly(float tie)")
        if gmax > 0:
            res.count("gap>0")
        if viol:
            key = f"{new['solver']}/{new['test']}:bound"
            if new["solver"] == "pi":
                # was the hypothesis of theorem pi_near_optimal ("the last evaluation met its test") true of the returned values?
                t = oracle.Tab.from_line(case["problem_line"])
                V = core.plist(di["values"])
                pol = [int(x) for x in di["policy"].split(",")]
                TV = [oracle.q(t, g, V, s_, pol[s_]) for s_ in range(t.S)]
                meas = oracle.span(TV, V) if new["test"] == "span" else oracle.maxdiff(TV, V)
                if not meas < eps * (1 - g) / g and di.get("lastevaln") == str(new.get("budget", 100)):
                    # the known finding is *a stable policy whose last evaluation ran out of budget*; stability is re-checked on the real code
                    # (a fresh solver run for iter-1 steps must already hold the returned policy) before the violation is attributed to it
                    key = "pi:reports-convergence-with-exhausted-evaluation-budget"
                    viol.append(f"last evaluation stopped at max_eval_iter={new.get('budget')} with measure {float(meas):.6g} >= threshold")
                    recheck.append((len(res.disagreements), case, new, di, d))
            res.disagreements.append({"channel": f"C01/bound/{new['solver']}", "case": case, "model": m, "impl": str({k: di[k] for k in ('iter', 'policy')})[:300],
                                      "failing_input": True, "what": "; ".join(viol) + f" (gamma={new['gamma']}, eps={new['eps']}, test={new['test']}, budget={new.get('budget')})",
                                      "key": key})
        elif len(res.samples) < 5:
            res.sample({"new": case["new"], "iter": di["iter"], "gapmax": float(gmax), "bound": float(pb), "cert": m})
    # attribution of exhausted-budget violations: was the policy really stable?
    if recheck:
        specs = {}
        for (ops, d) in jobs:
            for op in ops:
                if op["op"] == "problem":
                    specs[op["id"]] = op
        rjobs = []
        for (_, case, new, di, d) in recheck:
            n = int(di["iter"])
            rjobs.append(([specs[new["id"]], dict(new, sid="r"), {"op": "solve", "sid": "r", "k": max(0, n - 1)}], d))
        routs = core.run_impl_parallel(rjobs, workers=8)
        for (idx, case, new, di, d), rout in zip(recheck, routs):
            dr = core.parse_resp(rout[-1]["resp"] if int(di["iter"]) > 1 else rout[1]["resp"])   # 0 steps: the first policy, reported by `new`
            if dr.get("policy") in (None, "_"):
                raise core.HarnessError("stability re-check: no policy reported: " + str(rout[-1])[:300])
            res.count("pi-exhausted-budget-rechecked")
            if dr.get("policy") != di["policy"]:
                dis = res.disagreements[idx]
                dis["key"] = "pi:reports-convergence-while-policy-still-changing"
                dis["what"] = (f"policy iteration reported convergence at iteration {di['iter']} although the improvement step changed the policy "
                               f"(policy after {int(di['iter']) - 1} iterations: {dr.get('policy')}, returned: {di['policy']}); " + dis["what"])
    return res


def replay(rep, tier, seed):
    return run(tier, rep.get("seed", seed))
