"""C13 — event probabilities of the shipped problems form a distribution: complete probability tables of the real problems on a
parameter grid, checked directly (finite, >= 0, |sum - 1| <= 1e-4) and against the structural model (censoring, product form,
multinomial split) fed with the primitive tables the implementation used."""
from __future__ import annotations

import itertools
import math
import random
from fractions import Fraction

import numpy as np

from harness import core, shipped
from harness.core import frac, flist


def grid(tier, seed):
    rng = random.Random(seed * 1300 + 13)
    g = []
    for p in (0.0, 0.1, 0.5, 1.0):
        g.append(("forest", {"S": 3, "p": p}))
    for mean, cov, D in itertools.product((0.5, 4.0, 20.0), (0.1, 0.5, 2.0), (1, 5, 30, 100)):
        if tier == "quick" and rng.random() < 0.5:
            continue
        g.append(("demoor", {"max_demand": D, "demand_gamma_mean": mean, "demand_gamma_cov": cov, "max_useful_life": 1, "lead_time": 1, "max_order_quantity": 1}))
    n_m = 8 if tier == "quick" else 40
    for _ in range(n_m):
        m = rng.randint(1, 5)
        q = rng.randint(1, 3 if m < 5 else 2)
        kw = {"max_demand": rng.choice([1, 5, 20]), "max_useful_life": m, "max_order_quantity": q,
              "useful_life_at_arrival_distribution_c_0": tuple(round(rng.uniform(-3, 3), 2) for _ in range(m - 1)),
              "useful_life_at_arrival_distribution_c_1": tuple(round(rng.uniform(-1, 1), 2) for _ in range(m - 1)),
              "weekday_demand_negbin_n": tuple(round(rng.uniform(0.3, 12), 1) for _ in range(7)),
              "weekday_demand_negbin_delta": tuple(round(rng.uniform(0.3, 8), 1) for _ in range(7))}
        if shipped.n_triples("mirjalili", kw) <= 150000:
            g.append(("mirjalili", kw))
    n_h = 8 if tier == "quick" else 40
    for _ in range(n_h):
        m = rng.randint(1, 3)
        qa, qb = rng.randint(1, 4 if m < 3 else 2), rng.randint(1, 4 if m < 3 else 2)
        kw = {"max_useful_life": m, "max_order_quantity_a": qa, "max_order_quantity_b": qb,
              "demand_poisson_mean_a": rng.choice([0.5, 2.0, 5.0, 6.0]), "demand_poisson_mean_b": rng.choice([0.5, 2.0, 5.0, 6.0]),
              "substitution_probability": rng.choice([0.0, 0.5, 1.0, 0.3])}
        if shipped.n_triples("hendrix", kw) <= 300000:
            g.append(("hendrix", kw))
    return g


def hendrix_mass(kw, sa, sb):
    """total mass of the implementation's event probabilities for stock totals (sa, sb): P(d_B < sb) + sum_{a+u<=D} pa(a) pu[u, sb]"""
    from scipy.stats import poisson, binom
    m = kw["max_useful_life"]
    D = m * (max(kw["max_order_quantity_a"], kw["max_order_quantity_b"]) + 2)
    ma, mb, rho = kw.get("demand_poisson_mean_a", 5.0), kw.get("demand_poisson_mean_b", 5.0), kw.get("substitution_probability", 0.5)
    pa = poisson.pmf(np.arange(D + 1), ma)
    pu = np.zeros(D + 1)
    for u in range(0, max(D - sb, 0)):
        x = np.arange(u, D - sb)
        pu[u] = poisson.pmf(x + sb, mb).dot(binom.pmf(u, x, rho))
    tot = poisson.cdf(sb - 1, mb) if sb > 0 else 0.0
    for a in range(D + 1):
        for u in range(D + 1 - a):
            tot += pa[a] * pu[u]
    return float(tot)


def run(tier, seed):
    res = core.Result("C13")
    res.rule = ("complete (state, action, event) probability tables of the four real problems on a grid of valid parameterisations (useful life 1..5, "
                "limits 1..4, gamma / negative-binomial / Poisson parameters, substitution in {0,.3,.5,1}, logit coefficients of either sign, "
                "fire probability in {0,.1,.5,1}); direct check finite, >= 0, |row sum - 1| <= 1e-4; structural model fed with the implementation's "
                "primitive tables (De Moor cdf table, Mirjalili negative-binomial table + softmax categories) compared entrywise. "
                "distinct non-trivial = (parameterisation) tables with more than one event")
    g = grid(tier, seed)
    W = 8
    jobs = [[] for _ in range(W)]
    load = [0] * W
    for i in sorted(range(len(g)), key=lambda i: -shipped.n_triples(g[i][0], {**{"max_demand": 1, "max_useful_life": 1, "lead_time": 1, "max_order_quantity": 1, "S": 3}, **g[i][1]})):
        w = load.index(min(load))
        load[w] += shipped.n_triples(g[i][0], {**{"max_demand": 1, "max_useful_life": 1, "lead_time": 1, "max_order_quantity": 1, "S": 3}, **g[i][1]})
        jobs[w].append({"op": "probtab", "target": shipped.T[g[i][0]], "kwargs": g[i][1], "full": g[i][0] in ("demoor", "mirjalili", "forest"), "_kind": g[i][0]})
    jobs = [j for j in jobs if j]
    outs = core.run_impl_parallel([(j, 1) for j in jobs], workers=W)
    lines, meta = [], []
    for ops, out in zip(jobs, outs):
        for op, r in zip(ops, out):
            kind, kw = op["_kind"], op["kwargs"]
            case = {"kind": kind, "kwargs": kw}
            d = core.parse_resp(r["resp"])
            if "rowsum_min" not in d:
                res.disagreements.append({"channel": "C13/table", "case": case, "model": "", "impl": (r["resp"] + r.get("trace", ""))[:400], "failing_input": True,
                                          "what": "valid parameterisation could not be constructed / tabulated", "key": f"{kind}:construct"})
                continue
            data = r["data"]
            n = int(d["S"]) * int(d["A"]) * int(d["E"])
            res.evaluations += n
            res.count(f"{kind}:params"); res.count(f"{kind}:entries", n)
            if int(d["E"]) > 1:
                res.nontrivial.add((kind, str(sorted(kw.items()))))
            lo, hi, pmin = float(d["rowsum_min"]), float(d["rowsum_max"]), float(d["pmin"])
            bad = []
            if d["finite"] != "True":
                bad.append("non-finite probability")
            if pmin < 0:
                bad.append(f"negative probability {pmin}")
            if abs(lo - 1) > 1e-4 or abs(hi - 1) > 1e-4:
                bad.append(f"row sums in [{lo:.6g}, {hi:.6g}]")
            if bad:
                key = f"{kind}:not-a-distribution"
                what = "; ".join(bad) + f" (worst state row {d['worst_state']}, action {d['worst_action']})"
                if kind == "hendrix" and d["finite"] == "True" and pmin >= 0:
                    # is every row sum exactly the truncation formula? then it is the recorded finding, nothing else
                    S = np.array(data["states"]); m = kw["max_useful_life"]
                    rs = np.array(data["rowsums"])
                    worst = 0.0
                    cache = {}
                    sampled = list(range(0, len(S), max(1, len(S) // 40)))
                    stocks = sorted({(int(S[si][:m].sum()), int(S[si][m:].sum())) for si in sampled})
                    # the mass of each sampled row according to the Lean model (theorem C13.hendrix_row_sum), cross-checked with the closed formula
                    from scipy.stats import poisson as _po
                    qa_, qb_ = kw["max_order_quantity_a"], kw["max_order_quantity_b"]
                    D_ = m * (max(qa_, qb_) + 2)
                    mua_, mub_ = kw.get("demand_poisson_mean_a", 5.0), kw.get("demand_poisson_mean_b", 5.0)
                    pa_ = [Fraction(float(v)) for v in _po.pmf(np.arange(D_ + 1), mua_)]
                    pb_ = [Fraction(float(v)) for v in _po.pmf(np.arange(D_ + 1), mub_)]
                    tl_ = [Fraction(float(1 - _po.cdf(x_ - 1, mua_))) for x_ in range(qa_ * m + 1)]
                    hl = [f"hendrixprobs D={D_} maxA={qa_ * m} maxB={qb_ * m} pa={flist(pa_, frac)} pb={flist(pb_, frac)} tail={flist(tl_, frac)} "
                          f"rho={frac(Fraction(kw.get('substitution_probability', 0.5)))} x={sa} y={sb}" for (sa, sb) in stocks]
                    for (sa, sb), mline in zip(stocks, core.run_driver(hl)):
                        cache[(sa, sb)] = float(Fraction(core.parse_resp(mline)["sum"]))
                        res.count("hendrix:mass-by-model")
                        if abs(cache[(sa, sb)] - hendrix_mass(kw, sa, sb)) > 1e-9:
                            raise core.HarnessError(f"Lean model mass {cache[(sa, sb)]} != closed formula {hendrix_mass(kw, sa, sb)} at {(sa, sb)} {kw}")
                    for si in sampled:
                        sa, sb = int(S[si][:m].sum()), int(S[si][m:].sum())
                        worst = max(worst, abs(cache[(sa, sb)] - rs[si][0]))
                    if worst < 1e-9:
                        key = "hendrix:mass-lost-beyond-max_demand"
                        what += "; every sampled row sum equals P(d_B < y) + sum_{a+u<=D} pA(a) pu(u,y) (demand support truncated at max_demand = m*(max(Qa,Qb)+2))"
                res.disagreements.append({"channel": f"C13/{kind}", "case": case, "model": "", "impl": r["resp"][:300], "failing_input": True, "what": what, "key": key})
            # structural model fed with primitive tables
            if kind == "demoor" and data["probs"] is not None:
                import jax
                jax.config.update("jax_enable_x64", True)
                import jax.numpy as jnp
                import numpyro.distributions
                cov, mean, D = kw["demand_gamma_cov"], kw["demand_gamma_mean"], kw["max_demand"]
                alpha, beta = 1 / cov ** 2, 1 / (mean * cov ** 2)
                cdf = np.asarray(numpyro.distributions.Gamma(alpha, beta).cdf(jnp.hstack([0, jnp.arange(0.5, D + 1.5)])), dtype=np.float64)
                lines.append("demoorprobs cdf=" + flist([Fraction(float(x)) for x in cdf], frac))
                meta.append((case, [float(x) for x in np.array(data["probs"])[0][0]], "demoor censoring of the cdf table", cdf))
            if kind == "mirjalili" and data["probs"] is not None:
                import jax
                jax.config.update("jax_enable_x64", True)
                import jax.numpy as jnp
                import numpyro
                m, Q, D = kw["max_useful_life"], kw["max_order_quantity"], kw["max_demand"]
                T = np.array(data["probs"])
                Ssp = np.array(data["states"])
                for w_ in (0, 3, 6):
                    nn, dl = kw["weekday_demand_negbin_n"][w_], kw["weekday_demand_negbin_delta"][w_]
                    pp = nn / (dl + nn)
                    nb = np.exp(np.asarray(numpyro.distributions.NegativeBinomialProbs(total_count=nn, probs=1 - pp).log_prob(jnp.arange(0, D + 1)), dtype=np.float64))
                    si = int(np.where(Ssp[:, 0] == w_)[0][0])
                    for a_ in range(Q + 1):
                        c0, c1 = kw["useful_life_at_arrival_distribution_c_0"], kw["useful_life_at_arrival_distribution_c_1"]
                        logits = np.array(([0.0] + [c0[j] + c1[j] * a_ for j in range(m - 1)])[::-1])
                        ex = np.exp(logits - logits.max()); cat = ex / ex.sum()
                        lines.append(f"mirjprobs nb={flist([Fraction(float(x)) for x in nb], frac)} cat={flist([Fraction(float(x)) for x in cat], frac)} order={a_} D={D} m={m} Q={Q}")
                        meta.append((dict(case, weekday=w_, order=a_), [float(x) for x in T[si][a_]], "mirjalili product structure / multinomial split", None))
    model = core.run_driver(lines)
    for l, m_, (case, impl_row, what, _) in zip(lines, model, meta):
        dm = core.parse_resp(m_)
        mp = [float(x) for x in core.plist(dm["probs"])]
        res.count("structure-rows-compared")
        if len(mp) != len(impl_row) or max(abs(a - b) for a, b in zip(mp, impl_row)) > 1e-9:
            k = max(range(min(len(mp), len(impl_row))), key=lambda j: abs(mp[j] - impl_row[j])) if mp else 0
            res.disagreements.append({"channel": "C13/structure", "case": case, "model": str(mp[:12])[:300], "impl": str(impl_row[:12])[:300], "failing_input": True,
                                      "what": f"{what}: entry {k} differs ({mp[k] if mp else None} vs {impl_row[k] if impl_row else None})", "key": "structure:" + case["kind"]})
        elif len(res.samples) < 4:
            res.sample({"request": l[:200], "model_sum": dm.get("sum", ""), "n": len(mp)})
    return res


def replay(rep, tier, seed):
    return run(tier, rep.get("seed", seed))
