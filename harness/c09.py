"""C09 — interrupt and resume in fresh processes: k iterations with checkpointing in one interpreter, restore()/load_checkpoint() in a
fresh interpreter, continue; compared bit for bit with one uninterrupted run without checkpointing (and with the model)."""
from __future__ import annotations

import random
import shutil
import tempfile
from concurrent.futures import ThreadPoolExecutor
from fractions import Fraction

from harness import core, gen, oracle, session
from harness.c08 import spec_size, compare_state

FOREST = "mdpax.problems.forest.Forest"
DEMOOR = "mdpax.problems.perishable_inventory.de_moor_single_product.DeMoorSingleProductPerishable"


def gen_chain(rng, i, tier):
    kind = ["vi", "rvi", "periodic", "semi", "pi", "pi", "semi"][i % 7]
    route = "restore" if rng.random() < 0.7 else "load"
    if kind == "pi" and (i // 7) % 2 == 0:
        route = "restore"
    if route == "restore":
        if rng.random() < 0.6 and kind != "periodic":      # (Forest's period-span vanishes after a few sweeps: too easy for the periodic stopping rule)
            prob = {"op": "shipped", "id": f"p{i}", "target": FOREST, "kwargs": {"S": rng.choice([3, 5, 7]), "p": 0.125, "r1": 6.0, "r2": 3.0}}
            S = prob["kwargs"]["S"]
        else:
            kw = {"max_demand": 4, "max_useful_life": 2, "lead_time": 1, "max_order_quantity": 2, "demand_gamma_mean": 1.5}
            S = 9
            if kind == "periodic":
                # an instance whose period-span decays gradually (about 10 sweeps to 1e-6), so that the stopping iteration is informative
                kw = {"max_demand": 6, "max_useful_life": 3, "lead_time": 1, "max_order_quantity": 4, "demand_gamma_mean": 2.0}
                S = 125
            prob = {"op": "shipped", "id": f"p{i}", "target": DEMOOR, "kwargs": kw}
        cfg = 1
    else:
        spec = gen.gen_spec(rng, smax=6, kind="unichain", denom=4, R=5)
        prob = {"op": "problem", "id": f"p{i}", "spec": {k: v for k, v in spec.items() if not k.startswith("_")}}
        S = spec_size(spec)
        cfg = 0
    new = {"op": "new", "solver": kind, "id": f"p{i}", "maxbs": rng.choice([2, 64]), "n_hint": S, "gamma": "1/2", "eps": "1/1099511627776", "test": rng.choice(["span", "max_diff"])}
    if kind == "rvi":
        new["gamma"] = "1"
    if kind == "periodic":
        # discounted runs too: their measure depends on the absolute iteration number, which a resumed process must carry over
        new.update(gamma=rng.choice(["3/4", "9/10"]) if (i // 7) % 2 == 0 else "1", period=rng.randint(2, 3) if i % 2 else rng.choice([3, 4]), clear=0)
    if kind == "pi":
        new.update(budget=rng.choice([2, 5]), reset=rng.randint(0, 1), eps="1/64")
    if kind == "semi":
        new.update(shuffle=0)
    nint = rng.choice([1, 1, 2, 3]) if tier == "quick" else rng.choice([1, 2, 3])
    ks = [rng.randint(1, 6) for _ in range(nint)] + [rng.randint(2, 8)]
    if kind == "periodic":
        ks[0] = new["period"]        # interrupt where the ring-buffer index is at its last slot (iteration = period mod period+1)
    conv_mode = (i % 2 == 0 and kind != "pi")
    if conv_mode:
        # the last leg runs to (reported) convergence: the stopping iteration itself must survive the interruptions; the interruption
        # points are placed below the convergence iteration of a preliminary uninterrupted run (see run_chain)
        new["eps"] = rng.choice(["1/1024", "1/1048576"])
        ks[-1] = 80
    ck = {"f": rng.choice([1, 2, 3]), "m": rng.choice([1, 2]), "async": rng.randint(0, 1)}
    if kind == "pi" and (i // 7) % 2 == 0:
        # interruption exactly at an in-loop (periodic) save, before convergence: the final save of that call then targets a step that
        # already exists, so the restored state is what the in-loop save captured
        ck["f"] = rng.choice([1, 2])
        ks[0] = ck["f"]
        new.update(budget=5, reset=0, gamma=rng.choice(["9/10", "99/100"]))
        if i % 7 == 5:
            # evaluations restart from the problem's initial values and are cut off by the budget: their result depends on the restart point
            new.update(budget=20, reset=1, gamma="99/100")
        if route == "restore":
            # Forest with 8 states needs 7 policy-iteration steps at these discount factors, so the interruption falls before convergence
            prob = {"op": "shipped", "id": f"p{i}", "target": FOREST, "kwargs": {"S": 8, "p": 0.125, "r1": 6.0, "r2": 3.0}}
            new["n_hint"] = 8
    return {"i": i, "kind": kind, "route": route, "prob": prob, "new": new, "ks": ks, "ck": ck, "cfg": cfg, "conv_mode": conv_mode, "rseed": rng.randrange(10 ** 6)}


def run_chain(ch, base):
    """returns list of (ops, responses) per process, in order"""
    i, new, ks = ch["i"], ch["new"], ch["ks"]
    if ch.get("conv_mode"):
        pre = [r["resp"] for r in core.run_impl([{"op": "basedir", "path": base}, dict(ch["prob"]), dict(new, sid="P", f=0), {"op": "solve", "sid": "P", "k": 80}], 1)]
        dp = core.parse_resp(pre[-1])
        if dp.get("conv") == "true" and int(dp["iter"]) >= 2:
            r2 = random.Random(ch["rseed"])
            nstar = int(dp["iter"])
            cuts = set(r2.randint(1, nstar - 1) for _ in range(len(ks) - 1))
            if ch["kind"] == "periodic" and new["period"] < nstar:
                cuts.add(new["period"])
            # … and shortly before the iteration at which the uninterrupted run reports convergence: the resumed process must apply the
            # stopping test from its very first sweep on (periodic: with the ring buffer wrapped, at every residue of k mod (period+1))
            for back in ((1, 2, 3) if ch["kind"] == "periodic" else (1,)):
                if nstar - back >= 1:
                    cuts.add(nstar - back)
            cuts = sorted(cuts)
            ks = [b - a for a, b in zip([0] + cuts, cuts)] + [80]
            ch["ks"] = ks
            ch["nstar"] = nstar
    procs = []
    # A: uninterrupted, no checkpointing, same split of calls so that intermediate states are comparable too
    opsA = [{"op": "basedir", "path": base}, dict(ch["prob"]), dict(new, sid=f"A{i}", f=0)]
    for k in ks:
        opsA.append({"op": "solve", "sid": f"A{i}", "k": k, "_role": "A"})
    procs.append(opsA)
    # B0: first leg with checkpointing
    d = f"d{i}"
    ops = [{"op": "basedir", "path": base}, dict(ch["prob"]), dict(new, sid=f"B{i}_0", f=ch["ck"]["f"], m=ch["ck"]["m"], dir=d, cfg=ch["cfg"], **{"async": ch["ck"]["async"]}),
           {"op": "solve", "sid": f"B{i}_0", "k": ks[0], "_role": "B", "_leg": 0}]
    procs.append(ops)
    for j, k in enumerate(ks[1:], start=1):
        sid = f"B{i}_{j}"
        if ch["route"] == "restore":
            ops = [{"op": "basedir", "path": base}, {"op": "restore", "sid": sid, "dir": d, "solver": ch["kind"], "id": f"p{i}"}]
        else:
            ops = [{"op": "basedir", "path": base}, dict(ch["prob"]),
                   dict(new, sid=sid, f=ch["ck"]["f"], m=ch["ck"]["m"], dir=d, cfg=ch["cfg"], **{"async": ch["ck"]["async"]}),
                   {"op": "load", "sid": sid, "dir": d}]
        ops.append({"op": "solve", "sid": sid, "k": k, "_role": "B", "_leg": j})
        procs.append(ops)
    out = []
    for ops in procs:
        out.append((ops, [r["resp"] for r in core.run_impl(ops, 1)]))     # one fresh interpreter per leg
    return out


def run(tier, seed):
    res = core.Result("C09")
    res.rule = ("chains of interruptions on VI, RVI, periodic, semi-async (fixed order) and PI: each leg in a fresh interpreter; first leg with "
                "checkpointing (frequency 1-3, retention 1-2, sync/async), later legs rebuilt by restore() (shipped problems) or by construction + "
                "load_checkpoint() (config-less problems); final and intermediate states compared bit for bit with one process that never "
                "checkpoints, and with the model. distinct non-trivial = resumed legs")
    rng = random.Random(seed * 907 + 9)
    n = 10 if tier == "quick" else 70
    chains = [gen_chain(rng, i, tier) for i in range(n)]
    base = tempfile.mkdtemp(prefix="mdpaxv_c09_")
    try:
        with ThreadPoolExecutor(max_workers=6) as ex:
            results = list(ex.map(lambda ch: run_chain(ch, f"{base}/c{ch['i']}"), chains))
    finally:
        shutil.rmtree(base, ignore_errors=True)
    for ch, procs in zip(chains, results):
        ops_all = [op for ops, _ in procs for op in ops]
        resp_all = [r for _, rs in procs for r in rs]
        paired = session.pair_with_model(ops_all, resp_all)
        A_states, B_states, tab = [], [], None
        tot = 0
        for (op, m, i, line) in paired:
            if op["op"] in ("problem", "shipped") and i.startswith("problem "):
                tab = oracle.Tab.from_line(i)
            if op["op"] in ("restore", "load"):
                res.evaluations += 1
                dm, di = core.parse_resp(m or ""), core.parse_resp(i)
                if "error" in di or "error" in dm:
                    res.disagreements.append({"channel": "C09/" + op["op"], "case": {"chain": {k: v for k, v in ch.items() if k != "prob"}, "op": op}, "model": (m or "")[:200], "impl": i[:300],
                                              "failing_input": "error" in di, "what": "rebuilding the solver from the checkpoint directory failed", "key": op["op"] + ":error"})
                continue
            if op["op"] != "solve":
                continue
            res.evaluations += 1
            di = core.parse_resp(i)
            case = {"chain": {k: v for k, v in ch.items() if k != "prob"}, "problem": ch["prob"].get("target", "tabular"), "op": {k: v for k, v in op.items()}, "driver_line": line}
            (A_states if op["_role"] == "A" else B_states).append((di, i, m, line, op))
            if "values" not in di:
                res.disagreements.append({"channel": "C09/solve", "case": case, "model": (m or "")[:200], "impl": i[:300], "failing_input": True, "what": "solve raised", "key": "solve:error"})
                continue
            noisy = ch["kind"] == "periodic" and ch["new"]["gamma"] != "1" and int(di["iter"]) > 22    # measure amplifies rounding by gamma^-(n-1)
            if m is not None and tab is not None and not noisy:
                new = dict(ch["new"], solver=ch["kind"])
                for key, fail in compare_state(res, op, new, tab, m, i, line, 1, int(di["iter"])):
                    if key == "policy" and op["_role"] == "B":
                        pass
                    res.disagreements.append({"channel": f"C09/model/{key}", "case": case, "model": m[:400], "impl": i[:400], "failing_input": fail,
                                              "what": f"{key} of leg differs from the model's interrupt/resume run", "key": f"model:{key}"})
        # bitwise: interrupted chain vs uninterrupted run, leg by leg
        for j, (a, b) in enumerate(zip(A_states, B_states)):
            da, db = a[0], b[0]
            if "values" not in da or "values" not in db:
                continue
            if j > 0:
                res.nontrivial.add((ch["i"], j, ch["kind"], ch["route"]))
                res.count(f"resumed:{ch['kind']}:{ch['route']}")
                if da.get("conv") == "true" and int(da.get("sweeps", 0)) > 0:
                    res.count(f"converged-in-a-resumed-leg:{ch['kind']}" + (":discounted" if ch["new"]["gamma"] != "1" else ""))
            keys = ("iter", "conv", "values", "policy", "gain", "hidx", "hist", "lastmeasure")     # lastmeasure: the logged convergence measure of the leg's last sweep
            diff = [k for k in keys if da.get(k) != db.get(k)]
            if diff:
                res.disagreements.append({"channel": "C09/resume-vs-uninterrupted", "case": {"chain": {k: v for k, v in ch.items() if k != "prob"}, "leg": j},
                                          "model": a[1][:400], "impl": b[1][:400], "failing_input": True,
                                          "what": f"after leg {j} ({'checkpointing on' if j == 0 else 'resumed in a fresh process'}) {diff} differ from the uninterrupted run without checkpointing",
                                          "key": f"resume:{ch['kind']}:{'+'.join(diff)}"})
            elif len(res.samples) < 4 and j > 0:
                res.sample({"chain": {k: v for k, v in ch.items() if k not in ("prob", "new")}, "leg": j, "state": b[1][:160]})
    # state shuffling: the resumed run (its permutation stream restarts from the seed) still converges within the C01 bound
    base = tempfile.mkdtemp(prefix="mdpaxv_c09s_")
    try:
        for j in range(2 if tier == "quick" else 8):
            S = rng.choice([5, 7])
            prob = {"op": "shipped", "id": "q", "target": FOREST, "kwargs": {"S": S, "p": 0.125, "r1": 6.0, "r2": 3.0}}
            new = {"op": "new", "solver": "semi", "id": "q", "maxbs": 2, "gamma": "3/4", "eps": "1/1024", "test": "max_diff", "shuffle": 1, "random_seed": j, "n_hint": S}
            o1 = [{"op": "basedir", "path": f"{base}/s{j}"}, prob, dict(new, sid="x", f=2, m=1, dir="d", cfg=1, **{"async": 0}), {"op": "solve", "sid": "x", "k": 3 + j}]
            o2 = [{"op": "basedir", "path": f"{base}/s{j}"}, {"op": "restore", "sid": "y", "dir": "d", "solver": "semi", "id": "q"}, {"op": "solve", "sid": "y", "k": 3000}]
            r1 = [r["resp"] for r in core.run_impl(o1, 1)]
            r2 = [r["resp"] for r in core.run_impl(o2, 1)]
            di = core.parse_resp(r2[-1])
            res.evaluations += 1
            if di.get("conv") != "true":
                res.disagreements.append({"channel": "C09/shuffle-resume", "case": {"new": new}, "model": "", "impl": r2[-1][:300], "failing_input": True,
                                          "what": "resumed shuffled run did not converge", "key": "shuffle:noconv"})
                continue
            t = oracle.Tab.from_line(r1[1])
            g, eps = Fraction(3, 4), Fraction(1, 1024)
            W, _ = oracle.optimal(t, g)
            pol = [int(x) for x in di["policy"].split(",")]
            U = oracle.policy_value(t, g, pol)
            cert = core.run_driver([r1[1], f"cert id=q gamma=3/4 W={core.flist(W, core.frac)} U={core.flist(U, core.frac)} pol={core.flist(pol)} V={di['values']}"])[1]
            dc = core.parse_resp(cert)
            res.count("shuffle-resume-certified")
            res.nontrivial.add(("shuffle", j))
            if dc.get("wfix") == "true" and dc.get("ufix") == "true":
                if not (Fraction(dc["vwmax"]) < eps and 0 <= Fraction(dc["gapmin"]) and Fraction(dc["gapmax"]) < 2 * g * eps / (1 - g)):
                    res.disagreements.append({"channel": "C09/shuffle-resume", "case": {"new": new}, "model": cert, "impl": r2[-1][:300], "failing_input": True,
                                              "what": "resumed shuffled run converged outside the semi-async error bound", "key": "shuffle:bound"})
    finally:
        shutil.rmtree(base, ignore_errors=True)
    return res


def replay(rep, tier, seed):
    return run(tier, rep.get("seed", seed))
