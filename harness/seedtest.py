"""Evaluate a seeded change:  python3 harness/seedtest.py <seed-id> <dir with patch.diff, demo.py, notes.md> <property> [more properties…]
Applies the patch to /repo, runs the demonstration (must fail) and the quick checks of the given properties, reverts, runs the
demonstration again (must pass).  Copies the material to /verif/seeded/<seed-id>/ with a meta.json."""
import json
import os
import shutil
import subprocess
import sys
import time
from pathlib import Path

V = Path(__file__).resolve().parent.parent


def sh(cmd, **kw):
    return subprocess.run(cmd, shell=True, capture_output=True, text=True, **kw)


def main():
    sid, src, props = sys.argv[1], Path(sys.argv[2]), sys.argv[3:]
    out = V / "seeded" / sid
    out.mkdir(parents=True, exist_ok=True)
    for f in ("patch.diff", "demo.py", "notes.md"):
        if (src / f).exists() and (src / f).resolve() != (out / f).resolve():
            shutil.copy(src / f, out / f)
    # work in a scratch worktree of /repo's HEAD so that /repo itself is never touched (MDPAX_REPO redirects the harness)
    repo = os.environ.get("SEED_REPO", "/repo")
    if repo != "/repo":
        sh(f"git -C /repo worktree remove --force {repo}")
        r0 = sh(f"git -C /repo worktree add --detach {repo} HEAD")
        assert r0.returncode == 0, r0.stderr
    assert sh(f"git -C {repo} status --porcelain").stdout.strip() == "", "repo not clean"
    scratch = f"/tmp/seedtest_{sid}_{os.getpid()}"
    env = dict(os.environ, PYTHONPATH=f"{repo}/src", JAX_PLATFORMS="cpu", MDPAX_REPO=repo,
               VERIF_EVIDENCE_DIR=f"{scratch}/evidence", VERIF_REPLAY_DIR=f"{scratch}/replays")
    env.pop("MDPAX_VERIF", None)
    meta = {"id": sid, "breaks": props[0], "checks_run": {}, "at": time.strftime("%Y-%m-%d %H:%M:%S")}
    r = sh(f"git -C {repo} apply {out / 'patch.diff'}")
    assert r.returncode == 0, r.stderr
    try:
        d1 = sh(f"/venv/bin/python {out / 'demo.py'}", env=env, cwd="/tmp", timeout=1800)
        meta["demo_with_change"] = {"rc": d1.returncode, "tail": (d1.stdout + d1.stderr)[-600:]}
        for p in props:
            t0 = time.time()
            c = sh(f"./check {p} --tier quick", cwd=V, timeout=3600, env=env)
            lines = [l for l in c.stdout.splitlines() if l.startswith("VIOLATION") or l.startswith(p + " ")]
            rep = None
            for l in c.stdout.splitlines():
                if l.startswith("VIOLATION") and "replay=" in l:
                    rp = l.split("replay=")[1].split(" ")[0]
                    try:
                        v = json.load(open(rp))["violations"][0]
                        rep = {"channel": v.get("channel"), "what": v.get("what"), "failing_input": v.get("failing_input")}
                    except Exception:  # noqa: BLE001
                        pass
            meta["checks_run"][p] = {"rc": c.returncode, "lines": lines, "first_violation": rep, "wall_s": round(time.time() - t0, 1)}
    finally:
        sh(f"git -C {repo} checkout -- .")
    d2 = sh(f"/venv/bin/python {out / 'demo.py'}", env=env, cwd="/tmp", timeout=1800)
    meta["demo_without_change"] = {"rc": d2.returncode, "tail": (d2.stdout + d2.stderr)[-300:]}
    meta["confirmed"] = meta["demo_with_change"]["rc"] != 0 and d2.returncode == 0
    meta["caught_by"] = [p for p, r in meta["checks_run"].items() if r["rc"] == 1]
    if (out / "notes.md").exists():
        meta["needs_to_manifest"] = "see notes.md"
    (out / "meta.json").write_text(json.dumps(meta, indent=1))
    if repo != "/repo":
        sh(f"git -C /repo worktree remove --force {repo}")
    shutil.rmtree(scratch, ignore_errors=True)
    print(json.dumps({k: meta[k] for k in ("id", "confirmed", "caught_by")}), {p: r["lines"][-1:] for p, r in meta["checks_run"].items()})


if __name__ == "__main__":
    main()
