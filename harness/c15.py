"""C15 — transitions and rewards of the shipped problems: full (s,a,e) tables of the real problems vs Model/Shipped.lean and vs an
independent scalar python model of the documented dynamics (oldest/newest-first issuing, unit conservation, lead time, weekday)."""
from __future__ import annotations

from fractions import Fraction

from harness import core, session, shipped


def tables(tier, seed):
    g = shipped.grid(tier, seed)
    W = 8
    jobs = [([], 1) for _ in range(W)]
    order = sorted(range(len(g)), key=lambda i: -shipped.n_triples(g[i][0], g[i][1]))
    load = [0] * W
    for i in order:
        kind, kw, margs = g[i]
        w = load.index(min(load))
        load[w] += shipped.n_triples(kind, kw)
        jobs[w][0].append({"op": "shippedtab", "id": f"g{i}", "target": shipped.T[kind], "kwargs": kw, "model_args": margs, "_kind": kind})
    # twins: same class and structural parameters, other real-valued cost / price coefficients, built in the same process right after their base
    for (bi, kind, kw2, margs2, mut) in shipped.twins(g, seed):
        for ops, _ in jobs:
            pos = next((k for k, o in enumerate(ops) if o["id"] == f"g{bi}"), None)
            if pos is not None:
                n_tw = sum(1 for o in ops if o["id"].startswith(f"g{bi}t"))
                ops.insert(pos + 1 + n_tw, {"op": "shippedtab", "id": f"g{bi}t{n_tw}", "target": shipped.T[kind], "kwargs": kw2, "model_args": margs2, "_kind": kind, "_twin": True,
                                                 **({"config_then_mutate": mut} if mut else {})})
    jobs = [j for j in jobs if j[0]]
    return jobs, session.run_sessions_parallel(jobs, workers=W)


def parse_tab(resp):
    d = core.parse_resp(resp)
    rows = lambda s: [] if s in ("", "-") else [[int(x) for x in r.split(",")] for r in s.split(";")]
    return {"states": rows(d["states"]), "actions": rows(d["actions"]), "events": rows(d["events"]), "sidx": [int(x) for x in d["sidx"].split(",")],
            "nxtvec": rows(d["nxtvec"]), "nxt": [int(x) for x in d["nxt"].split(",")], "rew": core.plist(d["rew"])}


def run(tier, seed):
    res = core.Result("C15")
    res.rule = ("complete (state, action, event) tables of the four real problems on a parameter grid (useful life 1..5, lead time 1..4, both issuing "
                "policies, dyadic cost coefficients, zero-probability events included) vs the Lean model (successor and reward exact) and vs an "
                "independent scalar model (issuing order, conservation opening+receipts = issued+expired+closing, pipeline shift, weekday). "
                "distinct non-trivial = parameterisations with >1 age class or lead time > 1")
    jobs, outs = tables(tier, seed)
    for (ops, _), out in zip(jobs, outs):
        for (op, m, i, line) in out:
            kind, kw = op["_kind"], op["kwargs"]
            if "states=" not in i:
                res.disagreements.append({"channel": "C15/table", "case": {"kind": kind, "kwargs": kw}, "model": (m or "")[:200], "impl": i[:300], "failing_input": True,
                                          "what": "real problem could not be tabulated", "key": "tabulate"})
                continue
            ti, tm = parse_tab(i), parse_tab(m)
            ntr = len(ti["nxt"])
            res.evaluations += ntr
            res.count(f"{kind}:params"); res.count(f"{kind}:triples", ntr)
            if op.get("_twin"):
                res.count(f"{kind}:twin-" + ("config-mutated-after-construction" if op.get("config_then_mutate") else "other-coefficients"))
            if kw.get("max_useful_life", 1) > 1 or kw.get("lead_time", 1) > 1:
                res.nontrivial.add(line)
            case = {"kind": kind, "kwargs": kw, "model_args": op["model_args"]}
            S, A, E = ti["states"], ti["actions"], ti["events"]
            if (ti["states"], ti["actions"], ti["events"]) != (tm["states"], tm["actions"], tm["events"]):
                res.disagreements.append({"channel": "C15/spaces", "case": case, "model": str((len(tm["states"]), len(tm["actions"]), len(tm["events"]))),
                                          "impl": str((len(S), len(A), len(E))), "failing_input": False, "what": "spaces differ from the model (see C14)", "key": "spaces"})
                continue
            bad_model = [k for k in range(ntr) if ti["nxtvec"][k] != tm["nxtvec"][k] or ti["rew"][k] != tm["rew"][k]]
            # independent documented model
            bad_doc, bad_units = [], []
            k = 0
            for s in S:
                for a in A:
                    for e in E:
                        nxt, r, units = shipped.doc_transition(kind, kw, s, a, e)
                        defined = not (kind == "hendrix" and units is None)       # issued > stock: outcome not defined by the documentation
                        if defined and (nxt != ti["nxtvec"][k] or r != ti["rew"][k]):
                            bad_doc.append(k)
                        if units is not None and units["opening"] + units["receipts"] != units["issued"] + units["expired"] + units["closing"]:
                            bad_units.append(k)
                        k += 1
            res.count("doc-model-compared", ntr)
            for name, bad, fail in (("model", bad_model, bool(bad_doc)), ("documented-dynamics", bad_doc, True), ("unit-conservation", bad_units, True)):
                if bad:
                    k = bad[0]
                    s, a, e = S[k // (len(A) * len(E))], A[(k // len(E)) % len(A)], E[k % len(E)]
                    res.disagreements.append({"channel": f"C15/{name}", "case": dict(case, state=s, action=a, event=e, n_bad=len(bad)),
                                              "model": f"next={tm['nxtvec'][k]} reward={tm['rew'][k]}", "impl": f"next={ti['nxtvec'][k]} reward={ti['rew'][k]}",
                                              "failing_input": fail, "what": f"{len(bad)} of {ntr} (state, action, event) triples differ from the {name}", "key": f"{kind}:{name}"})
            if not bad_model and len(res.samples) < 5:
                k = ntr // 2
                res.sample({"params": op["model_args"], "triple": k, "next": ti["nxtvec"][k], "reward": str(ti["rew"][k])})
    return res


def replay(rep, tier, seed):
    return run(tier, rep.get("seed", seed))
