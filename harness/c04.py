"""C04 — relative value iteration: real RVI run to reported convergence on unichain aperiodic MDPs; exact (g*,h*) and (g_d,h_d)
proposed in Python, verified by the Lean driver with the model's operators; the three clauses checked as exact inequalities."""
from __future__ import annotations

import random
from fractions import Fraction

from harness import core, gen, oracle, session
from harness.core import frac, flist
from harness.c08 import spec_size


def run(tier, seed):
    res = core.Result("C04")
    res.rule = ("unichain aperiodic generated MDPs (random, sparse/deterministic rows, transient states, duplicated actions), eps in {1e-6..1}, "
                "initial-value overrides (incl. the targeted case initial value = exact bias + constant, which converges in the first iteration), "
                "all layouts, 1-3 devices; certificates verified by the driver; checks |gain - g*| < eps, 0 <= g* - g_d < eps, "
                "|T V - V - gain| < eps exactly. distinct non-trivial = converged runs with verified certificates")
    rng = random.Random(seed * 4001 + 4)
    ncase = 30 if tier == "quick" else 200
    W = 6
    devs = [1, 1, 1, 1, 2, 3]
    jobs = [([], devs[w]) for w in range(W)]
    for i in range(ncase):
        invest = (i % 5 == 4)
        spec = gen.gen_spec(rng, smax=9 if tier == "quick" else 24, kind="invest" if invest else "unichain", S=(rng.randint(4, 8) if invest else None),
                            denom=rng.choice([2, 4, 8]), R=rng.choice([8, 40] if invest else [1, 5, 100]), init=(i % 3 == 1), initpol=False)
        S = spec_size(spec)
        targeted = (i % 5 == 2)
        if targeted:
            # initial value := exact bias of the optimal policy + constant  (found on the tabulation of the same spec, in-process)
            spec["_targeted"] = True
        new = {"op": "new", "solver": "rvi", "id": f"p{i}", "maxbs": rng.choice(gen.layouts_for(S)), "gamma": "1",
               "eps": rng.choice(["1/1000000", "1/1000", "1/100", "1/8", "1"]), "sid": f"s{i}", "n_hint": S}
        ops = jobs[i % W][0]
        ops.append({"op": "problem", "id": f"p{i}", "spec": {k: v for k, v in spec.items() if not k.startswith("_")}, "_tags": spec["_tags"], "_spec": spec})
        ops.append(new)
        if invest or i % 4 == 1:
            # several solve() calls on one solver: what the last call returns (gain, values, policy) is what the property speaks about
            for k_ in ([1, 2] if invest else [rng.randint(1, 3)]):
                ops.append({"op": "solve", "sid": f"s{i}", "k": k_, "_partial": True})
        ops.append({"op": "solve", "sid": f"s{i}", "k": 4000})
    # targeted cases need the bias: tabulate first (cheap pure-python path: build tables from the spec directly)
    for ops, d in jobs:
        for op in ops:
            if op["op"] == "problem" and op["_spec"].get("_targeted"):
                sp = op["_spec"]
                S = spec_size(sp); A = len(sp["rew"][0]); E = len(sp["rew"][0][0])
                tab = {"S": S, "A": A, "E": E, "nxt": [sp["nxt"][s][a][e] for s in range(S) for a in range(A) for e in range(E)],
                       "rew": [sp["rew"][s][a][e] for s in range(S) for a in range(A) for e in range(E)],
                       "prob": [sp["prob"][s][a][e] for s in range(S) for a in range(A) for e in range(E)], "sidx": list(range(S)), "zidx": 0, "init": [0] * S}
                og = oracle.optimal_gain(oracle.Tab(tab))
                if og is not None:
                    g, h, _ = og
                    shift = Fraction(rng.choice([3, -7, 11]))
                    hv = [x + shift for x in h]
                    if all(oracle.bitlen(x) if hasattr(oracle, "bitlen") else core.bitlen(x) <= 40 for x in hv):
                        op["spec"]["init"] = [float(x) for x in hv]
                        op["spec"]["init_dtype"] = "float64"
                        op["_tags"] = op["_tags"] + ["targeted:init=bias+const"]
    impls = core.run_impl_parallel([(ops, d) for ops, d in jobs], workers=W)
    lines, meta = [], []
    for (ops, d), impl in zip(jobs, impls):
        cur_t = cur_line = new = None
        for op, r in zip(ops, impl):
            i = r["resp"]
            if op["op"] == "problem":
                if not i.startswith("problem "):
                    raise core.HarnessError("tabulation failed " + i + r.get("trace", ""))
                cur_t, cur_line, tags = oracle.Tab.from_line(i), i, op.get("_tags", [])
                for tg in tags:
                    res.count("tag:" + tg)
            elif op["op"] == "new":
                new = op
            elif op["op"] == "solve":
                if op.get("_partial"):
                    res.count("partial-call-before-the-converging-one")
                    continue
                res.evaluations += 1
                di = core.parse_resp(i)
                case = {"new": {k: v for k, v in new.items() if not k.startswith("_")}, "devices": d, "problem_line": cur_line, "tags": tags}
                if "values" not in di:
                    res.disagreements.append({"channel": "C04/raises", "case": case, "model": "", "impl": i[:300], "failing_input": True, "what": "solve raised", "key": "raises"})
                    continue
                if di["conv"] != "true":
                    res.count("not-converged")
                    continue
                og = oracle.optimal_gain(cur_t)
                pol = [int(x) for x in di["policy"].split(",")]
                gb = oracle.gain_bias(cur_t, pol)
                if og is None or gb is None:
                    res.count("certificate-not-found")
                    continue
                g, h, _ = og
                gd, hd = gb
                lines.append(cur_line); meta.append(None)
                lines.append(f"certavg id={new['id']} g={frac(g)} h={flist(h, frac)} gd={frac(gd)} hd={flist(hd, frac)} pol={flist(pol)} V={di['values']} gain={di['gain']}")
                meta.append((case, new, di, tags))
    model = core.run_driver(lines)
    for m, mt in zip(model, meta):
        if mt is None:
            continue
        case, new, di, tags = mt
        dm = core.parse_resp(m)
        if dm.get("optok") != "true" or dm.get("polok") != "true":
            res.count("certificate-rejected-by-model")
            continue
        eps = Fraction(new["eps"])
        res.nontrivial.add((new["id"], new["eps"], new["maxbs"]))
        res.count("converged+certified")
        res.count(f"converged-at-iter-1" if di["iter"] == "1" else "converged-later")
        viol = []
        if not Fraction(dm["gainerr"]) < eps:
            viol.append(f"|reported gain - g*| = {float(Fraction(dm['gainerr'])):.6g} >= eps {float(eps):.3g}")
        if not (0 <= Fraction(dm["polgap"]) < eps):
            viol.append(f"g* - g_policy = {float(Fraction(dm['polgap'])):.6g} not in [0, eps)")
        if not Fraction(dm["resid"]) < eps:
            viol.append(f"optimality residual {float(Fraction(dm['resid'])):.6g} >= eps")
        if viol:
            first_iter_nonzero_init = di["iter"] == "1"
            res.disagreements.append({"channel": "C04/bounds", "case": case, "model": m, "impl": str({k: di[k] for k in ('iter', 'gain')}), "failing_input": True,
                                      "what": "; ".join(viol) + f" (converged at iteration {di['iter']})",
                                      "key": "rvi:first-iteration-convergence-with-nonzero-initial-last-value" if first_iter_nonzero_init else "rvi:bounds"})
        elif len(res.samples) < 5:
            res.sample({"new": case["new"], "iter": di["iter"], "cert": m})
    return res


def replay(rep, tier, seed):
    return run(tier, rep.get("seed", seed))
