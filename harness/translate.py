"""Translator: pure integer fragments of /repo's Python source  ->  Lean 4 definitions, regenerated on every run.

Second tie (next to the correspondence harness) for the two pieces of mdpax that are plain integer arithmetic:

  * `BatchProcessor.__init__`        (utils/batch_processing.py)  ->  MdpaxV.Gen.batchInit
  * `get_convergence_format`          (utils/logging.py)           ->  MdpaxV.Gen.decimalPlaces

The generated module `lean/MdpaxV/Gen/{Batch,Config}.lean` is imported by `MdpaxV/Theory/GenTie.lean`, whose theorems state that the
*translated code* equals the hand-written model for ALL inputs in the documented domain.  A semantic change of the source changes
the generated definitions and breaks those proofs (audit failure of C18 / C20); the checks then search for a failing input with their
differential runs.  A rewrite the translator cannot read raises `Untranslatable`, which the caller reports the same way.

Supported Python: straight-line assignments to names / `self.<attr>`, `if/else` whose branches only assign, integer literals,
+ - * //, unary -, comparisons, `min`/`max` of two arguments, conditional expressions, `x is None` tests on a parameter that the
caller fixes ("given explicitly"), `int(np.floor(np.log10(x)))` as the opaque parameter `floorLog10`.  Everything else is rejected.
Python ints are Lean `Int`; `//` is translated to `Int.fdiv` (floor division, Python's rule for every sign).
"""
from __future__ import annotations

import ast
import os
import sys
from pathlib import Path

VERIF = Path(__file__).resolve().parent.parent
REPO = Path(os.environ.get("MDPAX_REPO", "/repo"))
OUTDIR = VERIF / "lean" / "MdpaxV" / "Gen"


class Untranslatable(Exception):
    pass


def lname(n: str) -> str:
    return n.replace("self.", "")


class Tr:
    """translate one function body into nested `let`s; `given` maps a parameter name to True when `<p> is None` must be read as False"""

    def __init__(self, not_none: set[str], opaque: dict[str, str] | None = None):
        self.not_none = not_none
        self.opaque = opaque or {}
        self.poison: set[str] = set()

    def expr(self, e: ast.AST) -> str:
        src = ast.unparse(e)
        if src in self.opaque:
            return self.opaque[src]
        if isinstance(e, ast.Constant) and isinstance(e.value, int) and not isinstance(e.value, bool):
            return f"({e.value} : Int)"
        if isinstance(e, ast.Name):
            if e.id in self.poison:
                raise Untranslatable(f"`{e.id}` holds a non-integer value and is read by an integer expression")
            return e.id
        if isinstance(e, ast.Attribute) and isinstance(e.value, ast.Name) and e.value.id == "self":
            if e.attr in self.poison:
                raise Untranslatable(f"`self.{e.attr}` holds a non-integer value and is read by an integer expression")
            return e.attr
        if isinstance(e, ast.UnaryOp) and isinstance(e.op, ast.USub):
            return f"(-{self.expr(e.operand)})"
        if isinstance(e, ast.BinOp):
            a, b = self.expr(e.left), self.expr(e.right)
            if isinstance(e.op, ast.Add):
                return f"({a} + {b})"
            if isinstance(e.op, ast.Sub):
                return f"({a} - {b})"
            if isinstance(e.op, ast.Mult):
                return f"({a} * {b})"
            if isinstance(e.op, ast.FloorDiv):
                return f"(Int.fdiv {a} {b})"
            raise Untranslatable(f"operator in `{src}`")
        if isinstance(e, ast.Call) and isinstance(e.func, ast.Name) and e.func.id in ("min", "max") and len(e.args) == 2 and not e.keywords:
            return f"({e.func.id} {self.expr(e.args[0])} {self.expr(e.args[1])})"
        if isinstance(e, ast.IfExp):
            t = e.test
            if (isinstance(t, ast.Compare) and len(t.ops) == 1 and isinstance(t.ops[0], ast.Is) and isinstance(t.left, ast.Name)
                    and t.left.id in self.not_none and isinstance(t.comparators[0], ast.Constant) and t.comparators[0].value is None):
                return self.expr(e.orelse)      # the parameter is given explicitly
            return f"(if {self.cond(t)} then {self.expr(e.body)} else {self.expr(e.orelse)})"
        raise Untranslatable(f"expression `{src}`")

    def cond(self, t: ast.AST) -> str:
        if isinstance(t, ast.Compare) and len(t.ops) == 1:
            op = {ast.Eq: "=", ast.NotEq: "≠", ast.Lt: "<", ast.LtE: "≤", ast.Gt: ">", ast.GtE: "≥"}.get(type(t.ops[0]))
            if op is None:
                raise Untranslatable(f"comparison `{ast.unparse(t)}`")
            return f"{self.expr(t.left)} {op} {self.expr(t.comparators[0])}"
        if isinstance(t, ast.BoolOp):
            j = " ∧ " if isinstance(t.op, ast.And) else " ∨ "
            return "(" + j.join(self.cond(v) for v in t.values) + ")"
        raise Untranslatable(f"condition `{ast.unparse(t)}`")

    def target(self, t: ast.AST) -> str:
        if isinstance(t, ast.Name):
            return t.id
        if isinstance(t, ast.Attribute) and isinstance(t.value, ast.Name) and t.value.id == "self":
            return t.attr
        raise Untranslatable(f"assignment target `{ast.unparse(t)}`")

    def branch(self, body: list[ast.stmt]) -> dict[str, str]:
        """a branch that only assigns: name -> expression (later assignments may use earlier ones of the same branch: substituted by lets)"""
        out: dict[str, str] = {}
        for st in body:
            if isinstance(st, ast.Expr) and isinstance(st.value, ast.Constant):
                continue
            if not (isinstance(st, ast.Assign) and len(st.targets) == 1):
                raise Untranslatable(f"statement in branch `{ast.unparse(st)[:60]}`")
            k = self.target(st.targets[0])
            if k in out:
                raise Untranslatable(f"double assignment of {k} in one branch")
            out[k] = self.expr(st.value)
        return out

    def body(self, stmts: list[ast.stmt], skip) -> list[tuple[str, str]]:
        lets: list[tuple[str, str]] = []
        for st in stmts:
            if skip(st):
                continue
            if isinstance(st, ast.Assign) and len(st.targets) == 1:
                k = self.target(st.targets[0])
                try:
                    lets.append((k, self.expr(st.value)))
                except Untranslatable:
                    # a non-integer attribute (a cache slot, a handle ...): harmless unless an integer expression reads it later
                    self.poison.add(k)
            elif isinstance(st, ast.If):
                a, b = self.branch(st.body), self.branch(st.orelse)
                if set(a) != set(b) or not a:
                    raise Untranslatable(f"if/else branches assign different names: {sorted(a)} vs {sorted(b)}")
                c = self.cond(st.test)
                for k in a:
                    lets.append((k, f"if {c} then {a[k]} else {b[k]}"))
            else:
                raise Untranslatable(f"statement `{ast.unparse(st)[:70]}`")
        return lets


def find_func(tree: ast.AST, cls: str | None, name: str) -> ast.FunctionDef:
    scope = tree
    if cls:
        scope = next((n for n in ast.walk(tree) if isinstance(n, ast.ClassDef) and n.name == cls), None)
        if scope is None:
            raise Untranslatable(f"class {cls} not found")
    f = next((n for n in scope.body if isinstance(n, ast.FunctionDef) and n.name == name), None)
    if f is None:
        raise Untranslatable(f"function {name} not found")
    return f


def is_doc_or_log(st: ast.stmt) -> bool:
    if isinstance(st, ast.Expr):
        if isinstance(st.value, ast.Constant):
            return True
        if isinstance(st.value, ast.Call) and ast.unparse(st.value.func).startswith("logger."):
            return True
    return False


def gen_batch_init() -> str:
    src = (REPO / "src/mdpax/utils/batch_processing.py").read_text()
    f = find_func(ast.parse(src), "BatchProcessor", "__init__")
    tr = Tr(not_none={"pmap_device_count"})
    lets = tr.body(f.body, is_doc_or_log)
    names = [k for k, _ in lets]
    for need in ("n_devices", "batch_size", "n_batches", "n_pad"):
        if need not in names:
            raise Untranslatable(f"BatchProcessor.__init__ no longer assigns {need}")
    lines = ["/-- `BatchProcessor.__init__` with `pmap_device_count` given: (n_devices, batch_size, n_batches, n_pad) -/",
             "def batchInit (n_states state_dim max_batch_size pmap_device_count : Int) : Int × Int × Int × Int :="]
    for k, v in lets:
        lines.append(f"  let {k} := {v}")
    lines.append("  (n_devices, batch_size, n_batches, n_pad)")
    return "\n".join(lines)


def gen_decimal_places() -> str:
    src = (REPO / "src/mdpax/utils/logging.py").read_text()
    f = find_func(ast.parse(src), None, "get_convergence_format")

    def skip(st):
        if is_doc_or_log(st):
            return True
        # argument checks: `if <test>: raise ...`
        if isinstance(st, ast.If) and not st.orelse and all(isinstance(x, ast.Raise) for x in st.body):
            return True
        return isinstance(st, ast.Return)
    tr = Tr(not_none=set(), opaque={"int(np.floor(np.log10(epsilon)))": "floorLog10"})
    lets = tr.body(f.body, skip)
    ret = next((st for st in f.body if isinstance(st, ast.Return)), None)
    if ret is None or ast.unparse(ret.value) != "f'.{decimal_places}f'":
        raise Untranslatable("get_convergence_format no longer returns f'.{decimal_places}f'")
    lines = ["/-- `get_convergence_format`: the precision `d` of the returned `.{d}f`, from ⌊log10 ε⌋ (opaque) and `max_decimals` -/",
             "def decimalPlaces (floorLog10 max_decimals : Int) : Int :="]
    for k, v in lets:
        lines.append(f"  let {k} := {v}")
    lines.append("  decimal_places")
    return "\n".join(lines)


# ----------------------------------------------------------------------------- solver configuration validators (`__post_init__`)

CFG_FIELDS = {"gamma": "c.gamma", "epsilon": "c.eps", "max_batch_size": "c.maxbs", "checkpoint_frequency": "c.f", "max_checkpoints": "c.m",
              "verbose": "c.verbose", "period": "c.period", "max_eval_iter": "c.budget"}
VALIDATORS = [("vi", "solvers/value_iteration.py", "ValueIterationConfig"), ("pi", "solvers/policy_iteration.py", "PolicyIterationConfig"),
              ("rvi", "solvers/relative_value_iteration.py", "RelativeValueIterationConfig"),
              ("periodic", "solvers/periodic_value_iteration.py", "PeriodicValueIterationConfig"),
              ("semi", "solvers/semi_async_value_iteration.py", "SemiAsyncValueIterationConfig")]
PROBLEM_TEST = "self.problem is not None and (not isinstance(self.problem, ProblemConfig))"


def vterm(e: ast.AST) -> str:
    if isinstance(e, ast.Attribute) and isinstance(e.value, ast.Name) and e.value.id == "self" and e.attr in CFG_FIELDS:
        return CFG_FIELDS[e.attr]
    if isinstance(e, ast.Constant) and isinstance(e.value, (int, float)) and not isinstance(e.value, bool) and float(e.value).is_integer():
        return str(int(e.value))
    raise Untranslatable(f"validator term `{ast.unparse(e)}`")


def vcond(t: ast.AST) -> str:
    src = ast.unparse(t)
    if src == PROBLEM_TEST:
        return "c.problemOk = false"
    if src in ("self.convergence_test not in ['span', 'max_diff']", 'self.convergence_test not in ["span", "max_diff"]'):
        return "c.testOk = false"
    if isinstance(t, ast.UnaryOp) and isinstance(t.op, ast.Not):
        return f"¬ ({vcond(t.operand)})"
    if isinstance(t, ast.BoolOp):
        return "(" + (" ∧ " if isinstance(t.op, ast.And) else " ∨ ").join(vcond(v) for v in t.values) + ")"
    if isinstance(t, ast.Compare):
        ops = {ast.Eq: "=", ast.NotEq: "≠", ast.Lt: "<", ast.LtE: "≤", ast.Gt: ">", ast.GtE: "≥"}
        terms = [t.left] + list(t.comparators)
        parts = []
        for a, op, b in zip(terms, t.ops, terms[1:]):
            if type(op) not in ops:
                raise Untranslatable(f"validator comparison `{src}`")
            parts.append(f"{vterm(a)} {ops[type(op)]} {vterm(b)}")
        return parts[0] if len(parts) == 1 else "(" + " ∧ ".join(parts) + ")"
    raise Untranslatable(f"validator condition `{src}`")


def gen_validators() -> str:
    out = []
    for kind, path, cls in VALIDATORS:
        f = find_func(ast.parse((REPO / "src/mdpax" / path).read_text()), cls, "__post_init__")
        lines = [f"/-- `{cls}.__post_init__`: the checks in source order -/", f"def validate_{kind} (c : SolverCfg) : Except CfgErr Unit := do"]
        n = 0
        for st in f.body:
            if is_doc_or_log(st):
                continue
            if not (isinstance(st, ast.If) and not st.orelse and len(st.body) == 1 and isinstance(st.body[0], ast.Raise)):
                raise Untranslatable(f"{cls}.__post_init__: statement `{ast.unparse(st)[:60]}` is not `if …: raise …`")
            exc = st.body[0].exc
            ename = exc.func.id if isinstance(exc, ast.Call) and isinstance(exc.func, ast.Name) else None
            if ename not in ("ValueError", "TypeError"):
                raise Untranslatable(f"{cls}.__post_init__ raises `{ast.unparse(exc)[:40]}`")
            lines.append(f"  raiseIf ({vcond(st.test)}) .{'valueError' if ename == 'ValueError' else 'typeError'}")
            n += 1
        if n == 0:
            raise Untranslatable(f"{cls}.__post_init__ has no checks")
        out.append("\n".join(lines))
    return "\n\n".join(out)


# ----------------------------------------------------------------------------- problem configuration validators

PVALIDATORS = [
    ("Forest", "problems/forest.py", "ForestConfig", "ForestCfgV", {"S": "c.S", "p": "c.p"}, {}),
    ("DeMoor", "problems/perishable_inventory/de_moor_single_product.py", "DeMoorSingleProductPerishableConfig", "DeMoorCfgV",
     {"max_demand": "c.maxDemand", "demand_gamma_mean": "c.mean", "demand_gamma_cov": "c.cov", "max_useful_life": "c.m", "lead_time": "c.L", "max_order_quantity": "c.Q"},
     {"self.issue_policy not in ['fifo', 'lifo']": "c.issueOk = false"}),
    ("Hendrix", "problems/perishable_inventory/hendrix_two_product.py", "HendrixTwoProductPerishableConfig", "HendrixCfgV",
     {"max_useful_life": "c.m", "demand_poisson_mean_a": "c.meanA", "demand_poisson_mean_b": "c.meanB", "substitution_probability": "c.rho",
      "max_order_quantity_a": "c.Qa", "max_order_quantity_b": "c.Qb"}, {}),
    ("Mirjalili", "problems/perishable_inventory/mirjalili_platelet.py", "MirjaliliPlateletPerishableConfig", "MirjaliliCfgV",
     {"max_demand": "c.maxDemand", "max_useful_life": "c.m", "max_order_quantity": "c.Q"},
     {"len(self.weekday_demand_negbin_n) != 7": "c.nLen ≠ 7",
      "any((n <= 0 for n in self.weekday_demand_negbin_n))": "c.nPos = false",
      "len(self.weekday_demand_negbin_delta) != 7": "c.dLen ≠ 7",
      "any((d <= 0 for d in self.weekday_demand_negbin_delta))": "c.dPos = false",
      "len(self.useful_life_at_arrival_distribution_c_0) != self.max_useful_life - 1": "(c.c0Len : Int) ≠ c.m - 1",
      "len(self.useful_life_at_arrival_distribution_c_1) != self.max_useful_life - 1": "(c.c1Len : Int) ≠ c.m - 1"}),
]


def gen_problem_validators() -> str:
    global CFG_FIELDS
    out = []
    saved = CFG_FIELDS
    try:
        for name, path, cls, struct, fields, atoms in PVALIDATORS:
            tree = ast.parse((REPO / "src/mdpax" / path).read_text())
            if not any(isinstance(n, ast.ClassDef) and n.name == cls for n in ast.walk(tree)):
                raise Untranslatable(f"class {cls} not found")
            f = find_func(tree, cls, "__post_init__")
            CFG_FIELDS = fields
            lines = [f"/-- `{cls}.__post_init__`: the checks in source order -/", f"def pvalidate_{name} (c : {struct}) : Except CfgErr Unit := do"]
            for st in f.body:
                if is_doc_or_log(st):
                    continue
                if not (isinstance(st, ast.If) and not st.orelse and len(st.body) == 1 and isinstance(st.body[0], ast.Raise)):
                    raise Untranslatable(f"{cls}.__post_init__: statement `{ast.unparse(st)[:60]}` is not `if …: raise …`")
                exc = st.body[0].exc
                ename = exc.func.id if isinstance(exc, ast.Call) and isinstance(exc.func, ast.Name) else None
                if ename not in ("ValueError", "TypeError"):
                    raise Untranslatable(f"{cls}.__post_init__ raises `{ast.unparse(exc)[:40]}`")
                src = ast.unparse(st.test)
                cond = atoms[src] if src in atoms else vcond(st.test)
                lines.append(f"  raiseIf ({cond}) .{'valueError' if ename == 'ValueError' else 'typeError'}")
            out.append("\n".join(lines))
    finally:
        CFG_FIELDS = saved
    return "\n\n".join(out)


# ----------------------------------------------------------------------------- verbosity_to_loguru_level

def gen_loguru() -> str:
    f = find_func(ast.parse((REPO / "src/mdpax/utils/logging.py").read_text()), None, "verbosity_to_loguru_level")
    body = [st for st in f.body if not is_doc_or_log(st)]
    if len(body) != 3:
        raise Untranslatable("verbosity_to_loguru_level: expected two guards and a return")
    g1, g2, ret = body
    if not (isinstance(g1, ast.If) and ast.unparse(g1.test) == "not isinstance(verbose, int)" and isinstance(g1.body[0], ast.Raise)
            and ast.unparse(g1.body[0].exc).startswith("TypeError(")):
        raise Untranslatable("verbosity_to_loguru_level: first guard is not the integer test raising TypeError")
    if not (isinstance(g2, ast.If) and isinstance(g2.body[0], ast.Raise) and ast.unparse(g2.body[0].exc).startswith("ValueError(")):
        raise Untranslatable("verbosity_to_loguru_level: second guard does not raise ValueError")
    saved = dict(CFG_FIELDS)
    try:
        CFG_FIELDS.clear()
        tr = Tr(not_none=set())
        cond = tr.cond(g2.test)
    finally:
        CFG_FIELDS.update(saved)
    if not (isinstance(ret, ast.Return) and isinstance(ret.value, ast.Subscript) and isinstance(ret.value.value, ast.Dict)
            and ast.unparse(ret.value.slice) == "verbose"):
        raise Untranslatable("verbosity_to_loguru_level: return is not a literal table indexed by `verbose`")
    d = ret.value.value
    chain = "[]"
    for k, v in reversed(list(zip(d.keys, d.values))):
        if not (isinstance(k, ast.Constant) and isinstance(k.value, int) and isinstance(v, ast.Constant) and isinstance(v.value, str) and v.value.isascii()):
            raise Untranslatable("verbosity_to_loguru_level: table entry is not int -> str")
        chars = "[" + ",".join("'" + c + "'" for c in v.value) + "]"
        chain = f"if verbose = ({k.value} : Int) then {chars} else {chain}"
    return ("/-- `verbosity_to_loguru_level` (`isInt` = `isinstance(verbose, int)`; a key missing from the table would be a KeyError: rendered as []) -/\n"
            "def loguruLevel (isInt : Bool) (verbose : Int) : Except CfgErr (List Char) :=\n"
            "  if !isInt then .error .typeError\n"
            f"  else if {cond} then .error .valueError\n"
            f"  else .ok ({chain})")


# ----------------------------------------------------------------------------- convergence thresholds

def rexpr(e: ast.AST, names: dict[str, str]) -> str:
    """rational expression over the given names (Python floats read as the ordered field Rat)"""
    if isinstance(e, ast.Name) and e.id in names:
        return names[e.id]
    if isinstance(e, ast.Attribute) and ast.unparse(e) in names:
        return names[ast.unparse(e)]
    if isinstance(e, ast.Constant) and isinstance(e.value, (int, float)) and not isinstance(e.value, bool) and float(e.value).is_integer():
        return f"({int(e.value)} : Rat)"
    if isinstance(e, ast.BinOp) and type(e.op) in (ast.Add, ast.Sub, ast.Mult, ast.Div):
        op = {ast.Add: "+", ast.Sub: "-", ast.Mult: "*", ast.Div: "/"}[type(e.op)]
        return f"({rexpr(e.left, names)} {op} {rexpr(e.right, names)})"
    if isinstance(e, ast.IfExp):
        return f"(if {rcond(e.test, names)} then {rexpr(e.body, names)} else {rexpr(e.orelse, names)})"
    raise Untranslatable(f"threshold expression `{ast.unparse(e)}`")


def rcond(t: ast.AST, names) -> str:
    if isinstance(t, ast.Compare):
        ops = {ast.Eq: "=", ast.NotEq: "≠", ast.Lt: "<", ast.LtE: "≤", ast.Gt: ">", ast.GtE: "≥"}
        terms = [t.left] + list(t.comparators)
        parts = []
        for a, op, b in zip(terms, t.ops, terms[1:]):
            if type(op) not in ops:
                raise Untranslatable(f"threshold comparison `{ast.unparse(t)}`")
            parts.append(f"{rexpr(a, names)} {ops[type(op)]} {rexpr(b, names)}")
        return parts[0] if len(parts) == 1 else "(" + " ∧ ".join(parts) + ")"
    if isinstance(t, ast.BoolOp):
        return "(" + (" ∧ " if isinstance(t.op, ast.And) else " ∨ ").join(rcond(v, names) for v in t.values) + ")"
    raise Untranslatable(f"threshold condition `{ast.unparse(t)}`")


def gen_thresholds() -> str:
    out = []
    vi = ast.parse((REPO / "src/mdpax/solvers/value_iteration.py").read_text())
    f = find_func(vi, "ValueIteration", "_setup_convergence_testing")
    table = next((st.value for st in f.body if isinstance(st, ast.Assign) and ast.unparse(st.targets[0]) == "convergence_tests" and isinstance(st.value, ast.Dict)), None)
    if table is None:
        raise Untranslatable("ValueIteration._setup_convergence_testing: no literal `convergence_tests` table")
    use = [st for st in f.body if isinstance(st, ast.Assign) and ast.unparse(st.targets[0]) == "self.conv_threshold"]
    if len(use) != 1 or ast.unparse(use[0].value) != "threshold_fn(self.epsilon, self.gamma)":
        raise Untranslatable("ValueIteration: conv_threshold is not threshold_fn(self.epsilon, self.gamma)")
    seen = {}
    for k, v in zip(table.keys, table.values):
        if not (isinstance(k, ast.Constant) and isinstance(v, ast.Tuple) and len(v.elts) == 3 and isinstance(v.elts[2], ast.Lambda)):
            raise Untranslatable("convergence_tests entry is not (fn, description, lambda)")
        lam = v.elts[2]
        args = [a.arg for a in lam.args.args]
        if len(args) != 2:
            raise Untranslatable("threshold lambda does not take (eps, gamma)")
        seen[k.value] = rexpr(lam.body, {args[0]: "eps", args[1]: "gamma"})
    if set(seen) != {"span", "max_diff"}:
        raise Untranslatable(f"convergence tests are {sorted(seen)}, expected span and max_diff")
    out.append("/-- `ValueIteration._setup_convergence_testing` (inherited by policy iteration and semi-asynchronous value iteration): the threshold of the span test -/\n"
               f"def thresholdSpan (eps gamma : Rat) : Rat := {seen['span']}")
    out.append("/-- … and of the max_diff test -/\n" f"def thresholdMaxDiff (eps gamma : Rat) : Rat := {seen['max_diff']}")
    for kind, path, cls in (("pi", "policy_iteration.py", "PolicyIteration"), ("semi", "semi_async_value_iteration.py", "SemiAsyncValueIteration")):
        tree = ast.parse((REPO / "src/mdpax/solvers" / path).read_text())
        c = next((n for n in ast.walk(tree) if isinstance(n, ast.ClassDef) and n.name == cls), None)
        if c is None or "ValueIteration" not in [ast.unparse(b) for b in c.bases]:
            raise Untranslatable(f"{cls} no longer derives from ValueIteration")
        if any(isinstance(n, ast.FunctionDef) and n.name == "_setup_convergence_testing" for n in c.body):
            raise Untranslatable(f"{cls} overrides _setup_convergence_testing")
    for kind, path, cls in (("rvi", "relative_value_iteration.py", "RelativeValueIteration"), ("periodic", "periodic_value_iteration.py", "PeriodicValueIteration")):
        f2 = find_func(ast.parse((REPO / "src/mdpax/solvers" / path).read_text()), cls, "_setup_convergence_testing")
        use = [st for st in f2.body if isinstance(st, ast.Assign) and ast.unparse(st.targets[0]) == "self.conv_threshold"]
        if len(use) != 1:
            raise Untranslatable(f"{cls}: conv_threshold assigned {len(use)} times")
        out.append(f"/-- `{cls}._setup_convergence_testing` -/\n"
                   f"def threshold_{kind} (eps gamma : Rat) : Rat := {rexpr(use[0].value, {'self.epsilon': 'eps', 'self.gamma': 'gamma'})}")
    return "\n\n".join(out)


HEADER_BATCH = """/- GENERATED by harness/translate.py from /repo's Python source on every run of C18 — do not edit.
   Source: src/mdpax/utils/batch_processing.py (BatchProcessor.__init__). -/
namespace MdpaxV.Gen

"""

HEADER_CONFIG = """/- GENERATED by harness/translate.py from /repo's Python source on every run of C20 — do not edit.
   Source: src/mdpax/utils/logging.py (get_convergence_format, verbosity_to_loguru_level), src/mdpax/solvers/*.py (the five solver configuration
   validators, the convergence thresholds), src/mdpax/problems/**.py (the four problem configuration validators). -/
import MdpaxV.Model.Config
namespace MdpaxV.Gen
open MdpaxV

"""

PARTS = {
    "Batch": lambda: HEADER_BATCH + gen_batch_init() + "\n\nend MdpaxV.Gen\n",
    "Config": lambda: HEADER_CONFIG + "\n\n".join([gen_decimal_places(), gen_validators(), gen_problem_validators(), gen_loguru(), gen_thresholds()]) + "\n\nend MdpaxV.Gen\n",
}


def generate(part: str) -> tuple[bool, str]:
    """(re)write MdpaxV/Gen/<part>.lean; returns (changed, text).  Raises Untranslatable."""
    text = PARTS[part]()
    out = OUTDIR / f"{part}.lean"
    old = out.read_text() if out.exists() else None
    if old != text:
        OUTDIR.mkdir(parents=True, exist_ok=True)
        out.write_text(text)
    return old != text, text


if __name__ == "__main__":
    rc = 0
    for part in PARTS:
        try:
            ch, t = generate(part)
            print(t)
            print(f"-- {part}: " + ("changed" if ch else "unchanged"), file=sys.stderr)
        except Untranslatable as e:
            print(f"UNTRANSLATABLE ({part}):", e, file=sys.stderr)
            rc = 3
    sys.exit(rc)
