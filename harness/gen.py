"""Seeded generators of tabular MDP specs (see tabular.TabProblem) — structured, mostly valid."""
from __future__ import annotations

import random
from fractions import Fraction

import numpy as np


def factor_box(rng: random.Random, total: int, maxdim: int = 3):
    """dims of a box with exactly `total` rows, 1..maxdim dimensions"""
    dims = []
    rest = total
    for _ in range(maxdim - 1):
        divs = [d for d in range(2, rest) if rest % d == 0]
        if not divs or rng.random() < 0.4:
            break
        d = rng.choice(divs)
        dims.append(d)
        rest //= d
    dims.append(rest)
    rng.shuffle(dims)
    return dims


def make_box(rng, total, maxdim, zero_in_box=None, unit_dim=0.0):
    dims = factor_box(rng, total, maxdim)
    if rng.random() < unit_dim:
        # a zero-width dimension (a component that can never change): vectors get one more component, the row count stays
        dims.insert(rng.randrange(len(dims) + 1), 1)
    if zero_in_box is None:
        zero_in_box = rng.random() < 0.5
    mins = []
    for d in dims:
        if zero_in_box:
            mins.append(rng.choice([0, 0, -(d - 1) if d > 1 else 0, -rng.randint(0, d - 1)]))
        else:
            mins.append(rng.choice([1, 2, -d - 1, 3]))
    if not zero_in_box:
        pass
    maxs = [m + d - 1 for m, d in zip(mins, dims)]
    return mins, maxs


def dyadic_row(rng, n, denom=8, p_zero=0.3, p_det=0.15):
    """n non-negative multiples of 1/denom summing to 1 (as floats, exact)"""
    if n == 1 or rng.random() < p_det:
        k = rng.randrange(n)
        return [1.0 if i == k else 0.0 for i in range(n)]
    w = [0] * n
    alive = [i for i in range(n) if rng.random() > p_zero] or [rng.randrange(n)]
    for _ in range(denom):
        w[rng.choice(alive)] += 1
    return [x / denom for x in w]


TINY = 2.0 ** -36


def gen_spec(rng: random.Random, S=None, A=None, E=None, kind="random", R=None, denom=8, smax=12, maxdim=3,
             zero_in_box=None, init=None, initpol=None, prob_as_array=None, adim=2, edim=2, near_tie=None, tiny=None):
    S = S or rng.randint(1, smax)
    A = A or rng.choice([1, 2, 2, 3, 4, 4, 4, 6])
    E = E or rng.randint(1, 4)
    R = R or rng.choice([1, 5, 10, 1000])
    smins, smaxs = make_box(rng, S, maxdim, zero_in_box)
    amins, amaxs = make_box(rng, A, adim, True if rng.random() < 0.7 else False, unit_dim=0.35)
    emins, emaxs = make_box(rng, E, edim, True if rng.random() < 0.7 else False)
    nxt = [[[rng.randrange(S) for _ in range(E)] for _ in range(A)] for _ in range(S)]
    rew = [[[float(rng.randint(-R, R)) for _ in range(E)] for _ in range(A)] for _ in range(S)]
    prob = [[dyadic_row(rng, E, denom) for _ in range(A)] for _ in range(S)]
    tags = []
    if kind == "cost":
        # all rewards <= 0 (cost problems): value estimates decrease from a zero start
        rew = [[[-abs(x) for x in row] for row in a] for a in rew]
        tags.append("cost")
    if kind == "twosink" and S >= 3:
        # a +c sink, a -c sink and transient states that trade the immediate reward against the sink they move to; deterministic, so from a
        # zero start every state's first change has the same magnitude c (mixed signs), and the myopic policy is far from optimal
        cR = float(R)
        A = max(A, 2)
        E = E
        nxt = [[[0] * E for _ in range(A)] for _ in range(S)]
        rew = [[[0.0] * E for _ in range(A)] for _ in range(S)]
        prob = [[dyadic_row(rng, E, denom) for _ in range(A)] for _ in range(S)]
        for s in range(S):
            for a in range(A):
                for e in range(E):
                    if s == 0:
                        nxt[s][a][e], rew[s][a][e] = 0, cR
                    elif s == 1:
                        nxt[s][a][e], rew[s][a][e] = 1, -cR
                    else:
                        good = (a % 2 == 1)
                        nxt[s][a][e], rew[s][a][e] = (0, -cR) if good else (1, cR)
        amins, amaxs = make_box(rng, A, adim, True, unit_dim=0.35)
        tags.append("twosink")
    if kind == "invest" and S >= 3:
        # unichain, aperiodic "investment chain": action 1 pays a cost now and moves one step up with probability 1/2 (else stays); the top
        # state pays R; every other action cashes in a small reward and falls back to state 0.  The myopic (one-sweep) policy never invests,
        # the optimal one does: a policy extracted too early is far from optimal
        A = max(A, 2)
        E = 2
        emins, emaxs = [0], [1]
        amins, amaxs = make_box(rng, A, adim, True, unit_dim=0.35)
        nxt = [[[0] * E for _ in range(A)] for _ in range(S)]
        rew = [[[0.0] * E for _ in range(A)] for _ in range(S)]
        prob = [[[0.5, 0.5] for _ in range(A)] for _ in range(S)]
        for s in range(S):
            for a in range(A):
                for e in range(E):
                    if a == 1:
                        if s == S - 1:
                            nxt[s][a][e], rew[s][a][e] = 0, float(R * S)
                        else:
                            nxt[s][a][e], rew[s][a][e] = (s + 1 if e == 0 else s), -float(max(1, R // 4))
                    else:
                        nxt[s][a][e], rew[s][a][e] = 0, float(max(1, R // 8)) - float(a)
        tags.append("invest")
    if kind == "latepay":
        # huge magnitudes and a decision that only the late, slowly accumulating part of a return settles: state 0 chooses between cashing in
        # r_A = gamma*rho/(1-gamma) - delta now (then nothing, state 2) and entering state 1, which pays rho per step for ever.  Entering is better by
        # delta = 1/10, but value iteration from zero sees that only once gamma^n * rho * gamma/(1-gamma) < delta, i.e. when the change per sweep has
        # fallen to about delta*(1-gamma)/gamma — a solver that stops any earlier returns the policy that cashes in (loss delta, far above the bound)
        S, A, E = 3, 2, 1
        rho = float(R)
        gam = 0.99
        r_a = gam * rho / (1 - gam) - 0.1
        smins, smaxs, amins, amaxs, emins, emaxs = [0], [2], [0], [1], [0], [0]
        nxt = [[[2], [1]], [[1], [1]], [[2], [2]]]
        rew = [[[r_a], [0.0]], [[rho], [rho]], [[0.0], [0.0]]]
        prob = [[[1.0], [1.0]] for _ in range(3)]
        tags.append("latepay")
        init, initpol, near_tie, tiny = False, False, False, False
    if kind == "periodic":
        # deterministic cycle structure of period p over classes s % p; every action moves to the next class
        p = rng.randint(2, min(4, max(2, S)))
        for s in range(S):
            for a in range(A):
                for e in range(E):
                    cls = (s + 1) % p
                    cands = [t for t in range(S) if t % p == cls] or [0]
                    nxt[s][a][e] = rng.choice(cands)
        tags.append(f"periodic{p}")
    elif kind == "unichain":
        # every state reaches state 0 with positive probability under every action, state 0 has a self loop
        for s in range(S):
            for a in range(A):
                row = prob[s][a]
                k = max(range(E), key=lambda i: row[i])
                nxt[s][a][k] = 0 if rng.random() < 0.7 or s == 0 else nxt[s][a][k]
                if s == 0:
                    nxt[s][a][k] = 0
        # make sure of reachability of 0: chain s -> s-1 on the most likely event of action 0.. all actions
        for s in range(1, S):
            for a in range(A):
                row = prob[s][a]
                pos = [i for i in range(E) if row[i] > 0]
                if not any(nxt[s][a][i] < s for i in pos):
                    nxt[s][a][pos[0]] = rng.randrange(s)
        tags.append("unichain")
    else:
        if S > 2 and rng.random() < 0.3:          # absorbing state
            s = rng.randrange(S)
            for a in range(A):
                for e in range(E):
                    nxt[s][a][e] = s
            tags.append("absorbing")
        if S > 2 and rng.random() < 0.3:          # unreachable state
            u = rng.randrange(S)
            for s in range(S):
                for a in range(A):
                    for e in range(E):
                        if nxt[s][a][e] == u and s != u:
                            nxt[s][a][e] = (u + 1) % S
            tags.append("unreachable")
    if A > 1 and rng.random() < 0.4:              # duplicated action (exact ties everywhere)
        a0, a1 = rng.sample(range(A), 2)
        for s in range(S):
            nxt[s][a1] = list(nxt[s][a0]); rew[s][a1] = list(rew[s][a0]); prob[s][a1] = list(prob[s][a0])
        tags.append("dup-action")
    if A > 1 and (near_tie or (near_tie is None and rng.random() < 0.15)):
        # near-tie: a copy of one action at a LOWER index whose rewards are smaller by R/2^18 (a relative gap of a few 1e-6, far above
        # rounding and far below any sensible "close enough" tolerance scaled by the values); exact arithmetic must prefer the better one
        a_hi = rng.randrange(1, A)
        a_lo = rng.randrange(a_hi)
        d = R / 2 ** 18
        for s in range(S):
            nxt[s][a_lo] = list(nxt[s][a_hi]); prob[s][a_lo] = list(prob[s][a_hi])
            rew[s][a_lo] = [x - d for x in rew[s][a_hi]]
        tags.append("near-tie")
    # tiny units: every reward (and initial estimate) multiplied by 2^-36 (exact): the same decisions as at unit scale, differences between
    # action values far below any absolute "close enough" tolerance
    if tiny or (tiny is None and rng.random() < 0.08):
        rew = [[[x * TINY for x in row] for row in a] for a in rew]
        tags.append("tiny-scale")
    # reward dtype returned by `transition`: float64 (default), or int32 / float32 when every reward is exactly representable
    rew_dtype = "float64"
    flat = [x for a in rew for row in a for x in row]
    u = rng.random()
    if u < 0.15 and all(float(x).is_integer() and abs(x) < 2 ** 31 for x in flat):
        rew_dtype = "int32"
    elif u < 0.3 and all(float(np.float32(x)) == float(x) for x in flat):
        rew_dtype = "float32"
    tags.append("rew-" + rew_dtype)
    if init is None:
        init = rng.random() < 0.3
    if initpol is None:
        initpol = rng.random() < 0.3
    if prob_as_array is None:
        prob_as_array = rng.random() < 0.4
    init_list = [float(rng.randint(-R, R)) for _ in range(S)] if init else None
    if init_list and "tiny-scale" in tags:
        init_list = [x * TINY for x in init_list]
    # dtype of the initial estimate returned by `initial_value`: float64, or an integer / float32 estimate (`return 0`, an integer heuristic)
    u2 = rng.random()
    init_dtype = ("int32" if u2 < 0.35 else "float32" if u2 < 0.5 else "float64") if init else ("pyint0" if u2 < 0.3 else "float64")
    if init and "tiny-scale" in tags and init_dtype == "int32":
        init_dtype = "float64"
    tags.append("init-" + init_dtype)
    spec = dict(smins=smins, smaxs=smaxs, amins=amins, amaxs=amaxs, emins=emins, emaxs=emaxs, nxt=nxt, rew=rew, prob=prob,
                init=init_list, init_dtype=init_dtype,
                # how the problem class obtains its methods: defined in its own body, inherited from a parent class, or through a mixin
                via=rng.choice(["own", "own", "variant", "mixin"]),
                initpol=[rng.randrange(A) for _ in range(S)] if initpol else None,
                prob_as_array=prob_as_array, rew_dtype=rew_dtype)
    spec["_tags"] = tags + [f"S{S}", f"A{A}", f"E{E}", f"sdim{len(smins)}", f"adim{len(amins)}", f"edim{len(emins)}",
                            "zero-in-box" if all(a <= 0 <= b for a, b in zip(smins, smaxs)) else "zero-outside-box",
                            "init" if init else "noinit", "initpol" if initpol else "noinitpol", f"R{R}",
                            "parr" if prob_as_array else "pscalar", "class-" + spec["via"]]
    return spec


def flat_initial_policy(spec, rng, fee):
    """Give the problem an initial policy (one action everywhere) whose expected immediate reward is the same constant `fee` in every state
    (fee = 0 for the max_diff test) and zero initial values: its first evaluation sweep passes the convergence test at once and hands back the
    initial values unchanged, although the policy is not greedy for them (the other actions keep their generated rewards)."""
    S, A = len(spec["nxt"]), len(spec["nxt"][0])
    a0 = rng.randrange(A)
    for s in range(S):
        spec["rew"][s][a0] = [float(fee)] * len(spec["rew"][s][a0])
        for a in range(A):
            if a != a0 and max(spec["rew"][s][a]) <= fee:      # some other action is strictly better now in this state
                spec["rew"][s][a] = [float(fee) + 1.0 + (s % 3)] * len(spec["rew"][s][a])
    spec["initpol"] = [a0] * S
    spec["init"] = None
    spec["rew_dtype"] = "float64"
    spec["_tags"] = [t for t in spec["_tags"] if t not in ("noinitpol", "init", "noinit", "initpol")] + ["initpol", "noinit", "flat-initial-policy"]
    return spec


def rand_values(rng, n, R=8, denom=4):
    return [Fraction(rng.randint(-R * denom, R * denom), denom) for _ in range(n)]


def layouts_for(n, rng=None, extra=()):
    ms = {1, 2, 3, max(1, n - 1), n, n + 1, 64, 1024}
    ms.update(extra)
    return sorted(ms)
