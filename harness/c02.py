"""C02 — one synchronous sweep = Bellman optimality backup, greedy policy: real solver vs Model/Backup.lean."""
from __future__ import annotations

import random
from fractions import Fraction

from harness import core, gen, oracle, session
from harness.core import frac


def build_jobs(tier, seed):
    rng = random.Random(seed * 7919 + 2)
    nprob = 10 if tier == "quick" else 60
    devs = [1, 2, 3] if tier == "quick" else [1, 2, 3, 4, 8]
    jobs = []
    specs = []
    for i in range(nprob):
        # problems 0 (all device counts) and 1 are in tiny units (rewards and the injected value vectors scaled by 2^-36)
        spec = gen.gen_spec(rng, smax=12 if tier == "quick" else 40, kind=rng.choice(["random", "random", "periodic", "unichain"]),
                            denom=rng.choice([4, 8]), tiny=True if i < 2 else None, A=rng.choice([3, 4, 6]) if i < 2 else None)
        specs.append(spec)
    for d in devs:
        # split the problems over two worker processes per device count
        for part in range(2):
            ops = []
            for i, spec in enumerate(specs):
                if i % 2 != part:
                    continue
                if d > 1 and tier == "quick" and i % 3 != 0:
                    continue
                S = 1
                for a, b in zip(spec["smins"], spec["smaxs"]):
                    S *= b - a + 1
                pid = f"p{i}"
                ops.append({"op": "problem", "id": pid, "spec": {k: v for k, v in spec.items() if not k.startswith("_")}, "_tags": spec["_tags"]})
                r2 = random.Random(seed * 31 + i)
                mbs = gen.layouts_for(S)
                mbs = r2.sample(mbs, 3 if tier == "quick" else 5)
                for mb in mbs:
                    ops.append({"op": "initvalues", "id": pid, "maxbs": mb})
                    for g in ["0", "1/2", "3/4", "1"]:
                        nV = 2 if tier == "quick" else 4
                        for _ in range(nV):
                            V = gen.rand_values(r2, S, R=r2.choice([2, 8, 64]), denom=r2.choice([1, 2, 4]))
                            if "tiny-scale" in spec["_tags"]:
                                V = [v * Fraction(1, 2 ** 36) for v in V]
                            ops.append({"op": "sweep", "id": pid, "maxbs": mb, "gamma": g, "V": [frac(v) for v in V]})
            if ops:
                jobs.append((ops, d))
    return jobs


def check_pair(res, op, m, i, line, tabs, devices):
    o = op["op"]
    if o == "problem":
        tabs[op["id"]] = oracle.Tab.from_line(i) if i.startswith("problem ") else None
        for t in op.get("_tags", []):
            res.count("tag:" + t)
        if m != "ok":
            res.disagreements.append({"channel": "C02/problem", "case": op["id"], "model": m, "impl": i[:300], "failing_input": False,
                                      "what": "problem could not be tabulated/loaded", "key": "problem"})
        return
    res.evaluations += 1
    dm, di = core.parse_resp(m or ""), core.parse_resp(i)
    t = tabs.get(op["id"])
    case = {"op": {k: v for k, v in op.items() if not k.startswith("_")}, "driver_line": line, "devices": devices}
    if m is None or "values" not in di or "values" not in dm:
        res.disagreements.append({"channel": f"C02/{o}", "case": case, "model": (m or "")[:300], "impl": i[:300], "failing_input": "exception" in i,
                                  "what": "implementation raised / gave no values" if "values" not in di else "model gave no values",
                                  "key": f"{o}:exception"})
        return
    mv, iv = core.plist(dm["values"]), core.plist(di["values"])
    npad = int(di.get("npad", 0)) if "npad" in di else None
    res.count(f"devices={devices}")
    if o == "initvalues":
        if mv != iv:
            want = t.init
            res.disagreements.append({"channel": "C02/initvalues", "case": case, "model": m[:300], "impl": i[:300],
                                      "failing_input": iv != want, "what": "initial values differ from initial_value(state) per state", "key": "initvalues"})
        return
    g = Fraction(op["gamma"])
    V = [Fraction(x) for x in op["V"]]
    M = max([abs(x) for x in t.rew] + [0]) + max([abs(x) for x in V] + [0])
    tol = session.envelope(M, t.E, 1)
    how = session.vec_compare(mv, iv, tol)
    exact_regime = session.safely_exact(mv, M, t.E)
    res.count("values:" + how + ("" if how != "enveloped" else ("(exact-regime!)" if exact_regime else "")))
    bad = how == "differ" or (how == "enveloped" and exact_regime)
    key = (op["id"], op["maxbs"], devices, op["gamma"], dm["values"])
    ties = False
    if t is not None:
        # non-trivial: V is not an iterate, some state has an exact tie or the layout pads
        ref = oracle.backup(t, g, V)
        if ref != mv:
            res.disagreements.append({"channel": "C02/model-vs-textbook", "case": case, "model": m[:300], "impl": frac(0),
                                      "failing_input": False, "what": "Lean model differs from the python textbook oracle (harness/model bug)", "key": "model-vs-oracle"})
        for s in range(t.S):
            qs = [oracle.q(t, g, V, s, a) for a in range(t.A)]
            if qs.count(max(qs)) > 1:
                ties = True
        if ties:
            res.count("has-exact-tie")
    res.nontrivial.add(key)
    if bad:
        ref = oracle.backup(t, g, V)
        fail = any(abs(a - b) > tol for a, b in zip(ref, iv)) or len(ref) != len(iv)
        res.disagreements.append({"channel": "C02/sweep-values", "case": case, "model": m[:400], "impl": i[:400], "failing_input": fail,
                                  "what": "sweep value != max_a sum_e p (r + gamma V[idx next]) at some state" if fail else "model/impl differ (within textbook tolerance)",
                                  "key": f"sweep:{op['id']}"})
    # policy: greedy for V, first maximiser
    mp, ip = dm.get("policy"), di.get("policy")
    if mp != ip:
        mpl, ipl = core.plist(mp, int), [int(x) if x != "?" else -1 for x in ip.split(",")]
        fail = False
        amb = True
        for s, (a, b) in enumerate(zip(mpl, ipl)):
            if a != b:
                if b < 0 or b >= t.A:
                    fail = True; amb = False; continue
                qb, qa = oracle.q(t, g, V, s, b), oracle.q(t, g, V, s, a)
                if qa - qb > tol:
                    fail = True; amb = False
                elif exact_regime:
                    amb = False      # exact regime: ties must go to the first maximiser
        if amb and not fail:
            res.ambiguous += 1
        else:
            res.disagreements.append({"channel": "C02/policy", "case": case, "model": m[:400], "impl": i[:400], "failing_input": fail,
                                      "what": "returned action does not attain the maximum" if fail else "tie not resolved to the first maximiser (argmax) / model differs",
                                      "key": f"policy:{op['id']}"})
    else:
        res.count("policy:equal")
    for k in ("span", "maxdiff"):
        if k in dm and k in di and dm[k] != di[k]:
            a, b = Fraction(dm[k]), Fraction(di[k])
            if abs(a - b) > 2 * tol or exact_regime:
                res.disagreements.append({"channel": f"C02/{k}", "case": case, "model": dm[k], "impl": di[k], "failing_input": abs(a - b) > 2 * tol,
                                          "what": f"{k} measure differs", "key": f"{k}:{op['id']}"})
    if len(res.samples) < 4 and o == "sweep":
        res.sample({"request": line[:300], "model": m[:200], "impl": i[:200]})


def run(tier, seed):
    res = core.Result("C02")
    res.rule = ("generated tabular MDPs (1..3-dim state/action/event boxes, zero vector inside/outside the box, duplicated actions, absorbing/"
                "unreachable states, scalar or 1-element-array probabilities) x injected dyadic value vectors (not iterates) x gamma in {0,1/2,3/4,1} "
                "x max_batch_size layouts x emulated device counts; compared bit-for-bit in the dyadic regime, rounding envelope otherwise; "
                "distinct non-trivial = distinct (problem, layout, devices, gamma, V) whose sweep ran on both sides")
    jobs = build_jobs(tier, seed)
    outs = session.run_sessions_parallel(jobs, workers=8)
    for (ops, d), out in zip(jobs, outs):
        tabs = {}
        for (op, m, i, line) in out:
            check_pair(res, op, m, i, line, tabs, d)
    return res


def replay(rep, tier, seed):
    res = core.Result("C02")
    res.rule = "replay of recorded cases"
    return run(tier, rep.get("seed", seed))
