#!/bin/bash
# re-evaluate every stored seeded change against the checks recorded in its meta.json (scratch worktree, /repo untouched)
cd "$(dirname "$0")/.."
export SEED_REPO=${SEED_REPO:-/tmp/seedrepo}
for d in seeded/*/; do
  id=$(basename "$d")
  props=$(python3 -c "import json,sys; m=json.load(open('$d/meta.json')); print(' '.join(m['checks_run'].keys()))")
  python3 harness/seedtest.py "$id" "$d" $props 2>&1 | tail -1 | cut -c1-160
done
