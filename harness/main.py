"""./check Cxx [--tier quick|thorough] [--replay path]"""
from __future__ import annotations

import argparse
import importlib
import json
import os
import sys
import time
import traceback

from harness import core


def main():
    ap = argparse.ArgumentParser()
    ap.add_argument("prop")
    ap.add_argument("--tier", default=os.environ.get("VERIF_TIER", "quick"), choices=["quick", "thorough"])
    ap.add_argument("--replay", default=None)
    a = ap.parse_args()
    seed = int(os.environ.get("VERIF_SEED", "0") or 0)
    t0 = time.time()
    try:
        mod = importlib.import_module(f"harness.{a.prop.lower()}")
        audit = core.LeanAudit(a.prop).run(thorough=(a.tier == "thorough"))
        if a.replay:
            res = mod.replay(json.loads(open(a.replay).read()), a.tier, seed)
        else:
            res = mod.run(a.tier, seed)
        rc = core.finish(a.prop, a.tier, seed, audit, res, t0)
    except core.HarnessError as e:
        print(f"HARNESS-ERROR {a.prop}: {e}", file=sys.stderr)
        sys.exit(2)
    except Exception:  # noqa: BLE001
        traceback.print_exc()
        sys.exit(2)
    print(f"{a.prop} {a.tier} seed={seed}: obligations={len(audit.obligations)} discharged={len(audit.discharged)} "
          f"evaluations={res.evaluations} nontrivial={len(res.nontrivial)} disagreements={len(res.disagreements)} "
          f"ambiguous={res.ambiguous} wall={time.time()-t0:.1f}s rc={rc}")
    sys.exit(rc)


if __name__ == "__main__":
    main()
