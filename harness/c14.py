"""C14 — closure and index consistency of the shipped problems: full (s,a,e) tables of the real problems; spaces vs Model/Shipped.lean."""
from __future__ import annotations

import itertools

from harness import core, shipped
from harness.c15 import tables, parse_tab


def documented_sizes(kind, kw):
    if kind == "forest":
        return kw["S"], 2, 2
    if kind == "demoor":
        q = kw["max_order_quantity"]
        return (q + 1) ** (kw["max_useful_life"] + kw["lead_time"] - 1), q + 1, kw["max_demand"] + 1
    if kind == "hendrix":
        m, qa, qb = kw["max_useful_life"], kw["max_order_quantity_a"], kw["max_order_quantity_b"]
        return (qa + 1) ** m * (qb + 1) ** m, (qa + 1) * (qb + 1), (qa * m + 1) * (qb * m + 1)
    m, q, d = kw["max_useful_life"], kw["max_order_quantity"], kw["max_demand"]
    combos = sum(1 for k in itertools.product(range(q + 1), repeat=m) if sum(k) <= q)
    return 7 * (q + 1) ** (m - 1), q + 1, (d + 1) * combos


def run(tier, seed):
    res = core.Result("C14")
    res.rule = ("complete tables of the four real problems on the parameter grid: state_space[state_to_index(next)] == next for every (state, action, "
                "event) (all events, a superset of the positive-probability ones), state_to_index(state_space[i]) == i, documented sizes, no duplicate "
                "rows in any space; spaces and successor indices compared with the Lean model. distinct non-trivial = parameterisations")
    jobs, outs = tables(tier, seed)
    for (ops, _), out in zip(jobs, outs):
        for (op, m, i, line) in out:
            kind, kw = op["_kind"], op["kwargs"]
            case = {"kind": kind, "kwargs": kw, "model_args": op["model_args"]}
            if "states=" not in i:
                res.disagreements.append({"channel": "C14/table", "case": case, "model": (m or "")[:200], "impl": i[:300], "failing_input": True,
                                          "what": "real problem could not be tabulated", "key": "tabulate"})
                continue
            ti, tm = parse_tab(i), parse_tab(m)
            S, A, E = ti["states"], ti["actions"], ti["events"]
            ntr = len(ti["nxt"])
            res.evaluations += ntr
            res.nontrivial.add(line)
            res.count(f"{kind}:params"); res.count(f"{kind}:triples", ntr)
            fails = []
            if ti["sidx"] != list(range(len(S))):
                k = next(j for j, v in enumerate(ti["sidx"]) if v != j)
                fails.append(f"state_to_index(state_space[{k}]={S[k]}) = {ti['sidx'][k]}")
            sizes = documented_sizes(kind, kw)
            if (len(S), len(A), len(E)) != sizes:
                fails.append(f"space sizes {(len(S), len(A), len(E))} != documented {sizes}")
            for name, sp in (("state", S), ("action", A), ("event", E)):
                if len({tuple(r) for r in sp}) != len(sp):
                    fails.append(f"duplicate rows in the {name} space")
            pos = {tuple(r): j for j, r in enumerate(S)}
            for k in range(ntr):
                v, ix = tuple(ti["nxtvec"][k]), ti["nxt"][k]
                if v not in pos or pos[v] != ix:
                    s, a, e = S[k // (len(A) * len(E))], A[(k // len(E)) % len(A)], E[k % len(E)]
                    fails.append(f"from state {s} action {a} event {e}: successor {list(v)} " + ("is not a listed state" if v not in pos else f"has index {ix} but is row {pos[v]}"))
                    break
            for f in fails:
                res.disagreements.append({"channel": "C14/closure+index", "case": case, "model": "", "impl": f, "failing_input": True, "what": f, "key": f"{kind}:closure"})
            if (ti["states"], ti["actions"], ti["events"], ti["nxt"], ti["sidx"]) != (tm["states"], tm["actions"], tm["events"], tm["nxt"], tm["sidx"]) and not fails:
                which = [n for n in ("states", "actions", "events", "nxt", "sidx") if ti[n] != tm[n]]
                res.disagreements.append({"channel": "C14/model", "case": case, "model": str(which), "impl": "", "failing_input": False,
                                          "what": f"{which} differ from the model", "key": f"{kind}:model"})
            if not fails and len(res.samples) < 5:
                res.sample({"params": op["model_args"], "sizes": [len(S), len(A), len(E)], "triples": ntr})
    return res


def replay(rep, tier, seed):
    return run(tier, rep.get("seed", seed))
