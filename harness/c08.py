"""C08 — stopping rule, iteration accounting, composability: op sequences of solve() on all five solvers vs Model/Solvers.lean."""
from __future__ import annotations

import os

import random
from fractions import Fraction

from harness import core, gen, oracle, session
from harness.core import frac


SOLVERS = ["vi", "vi", "rvi", "periodic", "semi", "semi", "pi"]


def spec_size(spec):
    S = 1
    for a, b in zip(spec["smins"], spec["smaxs"]):
        S *= b - a + 1
    return S


def gen_case(rng, i, tier):
    kind = rng.choice(SOLVERS)
    if i < 2:
        kind = "semi"
    pk = {"rvi": rng.choice(["unichain", "unichain", "invest"]), "periodic": rng.choice(["periodic", "unichain", "random"])}.get(kind, rng.choice(["random", "unichain", "cost", "twosink"]))
    spec = gen.gen_spec(rng, smax=10 if tier == "quick" else 24, kind=pk, denom=4, R=rng.choice([1, 5, 10]), S=(rng.randint(5, 10) if i < 2 else None))
    S = spec_size(spec)
    op = {"op": "new", "solver": kind, "id": f"p{i}", "maxbs": rng.choice(gen.layouts_for(S)), "n_hint": S}
    if kind == "rvi":
        op["gamma"] = "1"
        op["eps"] = rng.choice(["1/2", "1/8", "1/64", "2"])
    elif kind == "periodic":
        op["gamma"] = rng.choice(["1", "1/2", "1/2", "3/4"])
        op["period"] = rng.randint(2, 4) if op["gamma"] == "1" else rng.randint(1, 4)
        # 1000 exceeds every possible period-span here (rewards <= 10, period <= 4): the first sweep at which the measure exists, n = period,
        # is then the documented stopping point
        op["eps"] = rng.choice(["1/2", "1/16", "4", "1/1024", "1000", "1000"])
        op["clear"] = rng.randint(0, 1)
    else:
        op["gamma"] = rng.choice(["1/2", "1/2", "3/4", "1", "0"])
        op["eps"] = rng.choice(["1/2", "1/16", "4", "1/1024", "32"])
        op["test"] = rng.choice(["span", "max_diff"])
    if kind == "pi":
        op["budget"] = rng.choice([1, 2, 5, 100])
        op["reset"] = rng.randint(0, 1)
        if op["gamma"] == "1":
            op["gamma"] = "3/4"
    if kind == "semi":
        op["shuffle"] = rng.randint(0, 1)
        op["random_seed"] = rng.randint(0, 5)
    ks = [rng.choice([1, 1, 2, 3, 5, 8]) for _ in range(rng.randint(1, 4))]
    if kind in ("vi", "semi") and rng.random() < 0.5:
        ks = [1] * rng.randint(4, 9)          # single-sweep calls: the documented measure of every sweep is checked against the report
    if i < 2:
        # always present: shuffled semi-asynchronous runs with several batches, split into calls that do not converge, so that the
        # composability clause is exercised on the solver whose sweeps depend on a per-sweep random permutation
        op.update(solver="semi", shuffle=1, random_seed=i, maxbs=[2, 1][i], gamma="3/4", eps="1/1024", test="max_diff")
        op.pop("period", None); op.pop("clear", None); op.pop("budget", None); op.pop("reset", None)
        ks = [[2, 3], [1, 1, 2]][i]
    return spec, op, ks


def build_jobs(tier, seed):
    rng = random.Random(seed * 104729 + 8)
    ncase = 28 if tier == "quick" else 200
    devs = [1] if tier == "quick" else [1, 1, 2, 3]
    W = 7 if tier == "quick" else 14
    jobs = [([], devs[w % len(devs)]) for w in range(W)]
    for i in range(ncase):
        spec, new, ks = gen_case(rng, i, tier)
        ops = jobs[i % W][0]
        ops.append({"op": "problem", "id": f"p{i}", "spec": {k: v for k, v in spec.items() if not k.startswith("_")}, "_tags": spec["_tags"]})
        a = dict(new, sid=f"s{i}a")
        b = dict(new, sid=f"s{i}b")
        ops.append(a)
        for k in ks:
            ops.append({"op": "solve", "sid": a["sid"], "k": k, "_case": i, "_ks": ks, "_new": new})
        # twin: one call with the total limit
        ops.append(b)
        ops.append({"op": "solve", "sid": b["sid"], "k": sum(ks), "_case": i, "_ks": ks, "_new": new, "_twin": True})
    return [j for j in jobs if j[0]]


def compare_state(res, op, new, t, m, i, line, devices, total_sweeps):
    """returns list of (key, failing_by_tolerance) mismatches; counts ambiguous"""
    dm, di = core.parse_resp(m), core.parse_resp(i)
    if "error" in dm or "error" in di or "impl-exception" in i:
        if dm.get("error") != di.get("error"):
            return [("error", True)]
        return []
    R = max([abs(x) for x in t.rew] + [0])
    V0 = max([abs(x) for x in t.init] + [0])
    M = V0 + R * (total_sweeps + 1)
    inner = new.get("budget", 1) if new["solver"] == "pi" else 1
    tol = session.envelope(M, t.E, max(1, total_sweeps * inner))
    if new["solver"] == "periodic" and new["gamma"] not in ("1", "1/2"):
        tol *= 4
    mm = dm.get("minmargin", "_")
    margin_small = mm != "_" and Fraction(mm) <= 4 * tol * (4 ** (new.get("period", 1)) if new["solver"] == "periodic" else 1)
    out = []
    mv, iv = core.plist(dm["values"]), core.plist(di["values"])
    exact = session.safely_exact(mv, M, t.E)
    decisions_equal = (dm["iter"], dm["conv"], dm["sweeps"]) == (di["iter"], di["conv"], di["sweeps"])
    if not decisions_equal:
        if margin_small and not exact:
            res.ambiguous += 1
            res.count("ambiguous-decision")
            return []
        out.append(("iter/conv/sweeps", True))
        return out
    # the convergence measure the solver logs for the last sweep of this call against the documented measure computed by the model
    if dm.get("modelmeasure", "_") not in ("_", None) and di.get("lastmeasure") not in (None, "inf", "nan") and new["solver"] != "pi":
        try:
            dp = int(di.get("fmt", ".4f").strip(".f"))
            logged, mm_ = Fraction(di["lastmeasure"]), Fraction(dm["modelmeasure"])
            amp = 1
            if new["solver"] == "periodic" and new["gamma"] not in ("1",):
                amp = (1 / Fraction(new["gamma"])) ** max(0, int(di["iter"]) - 1)
            slack = Fraction(1, 10 ** dp) + 8 * tol * amp
            res.count("measure-compared:" + new["solver"])
            if os.environ.get("VERIF_DEBUG_MEASURE") and new.get("gamma") == "131071/131072":
                print("DEBUG measure", new["id"], "iter", di["iter"], "logged", di["lastmeasure"], "model", float(mm_), "dp", dp, "slack", float(slack), flush=True)
            if abs(logged - mm_) > slack and amp < 10 ** 6:
                out.append(("reported convergence measure", True))
        except (ValueError, ZeroDivisionError):
            pass
    how = session.vec_compare(mv, iv, tol)
    res.count("values:" + how)
    if how == "differ" or (how == "enveloped" and exact):
        out.append(("values", how == "differ"))
    if dm["policy"] != di["policy"]:
        if exact or new["solver"] == "pi":
            out.append(("policy", True))
        else:
            res.ambiguous += 1
            res.count("ambiguous-policy")
    if new["solver"] == "rvi" and dm["gain"] != di["gain"]:
        if abs(Fraction(dm["gain"]) - Fraction(di["gain"])) > tol or exact:
            out.append(("gain", True))
    if new["solver"] == "periodic":
        if dm["hidx"] != di["hidx"]:
            out.append(("history_index", True))
        if (dm["hist"] == "_") != (di["hist"] == "_"):
            out.append(("value_history cleared/kept", True))
        elif dm["hist"] != "_" and dm["hist"] != di["hist"]:
            hm = [core.plist(r) for r in dm["hist"].split(";")]
            hi = [core.plist(r) for r in di["hist"].split(";")]
            if len(hm) != len(hi) or any(session.vec_compare(a, b, tol) == "differ" for a, b in zip(hm, hi)) or exact:
                out.append(("value_history", True))
    return out


def run(tier, seed):
    res = core.Result("C08")
    res.rule = ("op sequences new;solve(k1);solve(k2);… on VI, RVI, periodic, semi-async (fixed and shuffled, permutations taken from the hook) and PI "
                "over generated problems, both convergence tests, limits before/after convergence; each sequence has a twin solver doing one "
                "solve(k1+…) (impl-vs-impl composability, only asserted when no earlier call converged); compared with the model loop exactly in the "
                "dyadic regime, by envelope + decision margin otherwise. distinct non-trivial = distinct (solver,config,problem,k-sequence) solve calls")
    jobs = build_jobs(tier, seed)
    outs = session.run_sessions_parallel(jobs, workers=8)
    for (ops, d), out in zip(jobs, outs):
        tabs, news, total, seq_conv, seq_final = {}, {}, {}, {}, {}
        prev_values = {}
        for (op, m, i, line) in out:
            o = op["op"]
            if o == "problem":
                tabs[op["id"]] = oracle.Tab.from_line(i) if i.startswith("problem ") else None
                for tg in op.get("_tags", []):
                    res.count("tag:" + tg)
                continue
            if o == "new":
                news[op["sid"]] = op
                total[op["sid"]] = 0
                dm, di = core.parse_resp(m or ""), core.parse_resp(i)
                if "values" in di:
                    prev_values[op["sid"]] = core.plist(di["values"])
                res.count("solver:" + op["solver"])
                thr_bad = False
                if "thr" in dm and "thr" in di:
                    a, b = Fraction(dm["thr"]), Fraction(di["thr"])
                    thr_bad = abs(a - b) > abs(a) * Fraction(1, 2 ** 48)
                    res.count("threshold-compared")
                if ("error" in dm) != ("error" in di) or thr_bad:
                    res.disagreements.append({"channel": "C08/new", "case": {k: v for k, v in op.items()}, "model": (m or "")[:300], "impl": i[:300],
                                              "failing_input": False, "what": "construction outcome / threshold differs", "key": "new:" + op["solver"]})
                continue
            if o != "solve":
                continue
            res.evaluations += 1
            new = news[op["sid"]]
            t = tabs[new["id"]]
            total[op["sid"]] += op["k"]
            case = {"new": {k: v for k, v in new.items() if not k.startswith("_")}, "ks": op["_ks"], "k": op["k"], "twin": bool(op.get("_twin")),
                    "devices": d, "driver_line": line}
            di = core.parse_resp(i)
            res.nontrivial.add((new["solver"], new["id"], new["maxbs"], tuple(op["_ks"]), op["k"], op["sid"][-1], total[op["sid"]]))
            if m is None:
                continue
            # the property's own direct checks on the implementation
            if "sweeps" in di:
                res.count("conv=" + di["conv"])
                if int(di["sweeps"]) > op["k"]:
                    res.disagreements.append({"channel": "C08/at-most-k", "case": case, "model": m[:200], "impl": i[:200], "failing_input": True,
                                              "what": f"solve({op['k']}) performed {di['sweeps']} sweeps", "key": f"atmost:{new['solver']}"})
            # the property's own stopping clause on single-sweep calls: convergence is reported iff the documented measure of that sweep,
            # computed here from the implementation's own consecutive value vectors, is strictly below the documented threshold
            if op["k"] == 1 and new["solver"] in ("vi", "semi") and not op.get("_twin") and "values" in di:
                prev = prev_values.get(op["sid"])
                cur = core.plist(di["values"])
                if prev is not None and di.get("sweeps") == "1":
                    g_, e_ = Fraction(new["gamma"]), Fraction(new["eps"])
                    thr_ = e_ if g_ in (0, 1) else e_ * (1 - g_) / g_     # gamma = 0: one sweep is exact, the repaired code uses epsilon
                    meas = oracle.span(cur, prev) if new.get("test", "span") == "span" else oracle.maxdiff(cur, prev)
                    slack = session.envelope(max([abs(x) for x in cur] + [1]), t.E, 1)
                    res.count("stopping-clause-checked")
                    if "lastmeasure" in di and di["lastmeasure"] not in ("inf", "nan"):
                        dp = int(di.get("fmt", ".4f").strip(".f"))
                        logged = Fraction(di["lastmeasure"])
                        if abs(logged - meas) > Fraction(1, 10 ** dp) + slack:
                            res.disagreements.append({"channel": "C08/measure", "case": case, "model": f"documented measure={float(meas)}", "impl": f"reported measure={di['lastmeasure']}",
                                                      "failing_input": True, "what": f"the convergence measure the solver reports for this sweep ({di['lastmeasure']}) is not the documented {new.get('test', 'span')} of the value change ({float(meas):.6g})",
                                                      "key": f"measure:{new['solver']}"})
                    if (di["conv"] == "true" and meas >= thr_ + slack) or (di["conv"] == "false" and meas < thr_ - slack):
                        res.disagreements.append({"channel": "C08/stopping-clause", "case": case, "model": f"measure={float(meas)} threshold={float(thr_)}", "impl": i[:300],
                                                  "failing_input": True, "what": f"convergence reported={di['conv']} but the documented {new.get('test', 'span')} measure of that sweep is {float(meas):.6g} vs threshold {float(thr_):.6g}",
                                                  "key": f"stopping:{new['solver']}"})
                prev_values[op["sid"]] = cur
            elif "values" in di:
                prev_values[op["sid"]] = core.plist(di["values"])
            mism = compare_state(res, op, new, t, m, i, line, d, total[op["sid"]])
            for key, fail in mism:
                res.disagreements.append({"channel": f"C08/{new['solver']}/{key}", "case": case, "model": m[:500], "impl": i[:500],
                                          "failing_input": fail, "what": f"{key} differs from the reference loop (sequence {op['_ks']})",
                                          "key": f"{new['solver']}:{key}"})
            # composability impl-vs-impl
            cid = op["_case"]
            if not op.get("_twin"):
                if di.get("conv") == "true" and cid not in seq_conv and total[op["sid"]] < sum(op["_ks"]):
                    seq_conv[cid] = True     # an earlier call converged: proviso of the property not met
                seq_final[cid] = di
            else:
                a = seq_final.get(cid)
                if a is not None and not seq_conv.get(cid) and "values" in di and "values" in a:
                    res.count("composability-checked")
                    same = all(a.get(k) == di.get(k) for k in ("iter", "values", "policy", "gain", "hidx"))
                    if not same:      # (shuffled semi-async included: the permutation of a sweep depends only on the seed and the sweep number)
                        res.disagreements.append({"channel": "C08/compose-impl-vs-impl", "case": case, "model": str({k: a.get(k) for k in ("iter", "values", "policy")})[:500],
                                                  "impl": i[:500], "failing_input": True,
                                                  "what": f"solve{op['_ks']} in sequence differs from one solve({op['k']})", "key": f"compose:{new['solver']}"})
            if len(res.samples) < 5:
                res.sample({"new": case["new"], "request": line, "model": m[:160], "impl": i[:160]})
    return res


def replay(rep, tier, seed):
    return run(tier, rep.get("seed", seed))
