"""C06 — semi-asynchronous sweep = block Gauss-Seidel in the documented order.  The hook records the permutation each sweep used;
the model replays it.  Also: permutation sequence reproducible from the seed; same fixed point as synchronous VI."""
from __future__ import annotations

import random
from fractions import Fraction

from harness import core, gen, oracle, session
from harness.core import frac, flist
from harness.c08 import spec_size


def gs_oracle(t, g, V, order, dev, nb, bsz):
    """independent python specification: block Gauss-Seidel over the partition (devices x batches) of `order`"""
    n = t.S
    out = [None] * n
    per_dev = nb * bsz
    for d in range(dev):
        W = list(V)
        seg = order[d * per_dev:(d + 1) * per_dev]
        for b in range(nb):
            blk = seg[b * bsz:(b + 1) * bsz]
            new = {s: max(oracle.q(t, g, W, s, a) for a in range(t.A)) for s in blk}
            for s, v in new.items():
                out[s] = v
                W[s] = v
    return out


def run(tier, seed):
    res = core.Result("C06")
    res.rule = ("single semi-async sweeps on injected dyadic value vectors: fixed order and shuffled (permutation from the hook, also recomputed from "
                "the PRNG key with one split), every layout class (padding in the same batch as the zero-vector state / different batch / different "
                "device / no padding), 1-4 devices, zero vector inside and outside the state box; model with both padding-collision resolutions; "
                "independent python block-Gauss-Seidel oracle; two solvers with the same seed; fixed point = synchronous fixed point. "
                "distinct non-trivial = distinct (problem, layout, devices, permutation, V) sweeps with >1 batch per device")
    rng = random.Random(seed * 6007 + 6)
    nprob = 8 if tier == "quick" else 40
    devs = [1, 2, 3, 4] if tier == "quick" else [1, 2, 3, 4, 8]
    specs = []
    for i in range(nprob):
        S = rng.choice([3, 4, 5, 6, 7, 8, 9, 11, 12])
        specs.append(gen.gen_spec(rng, S=S, kind=rng.choice(["random", "unichain"]), denom=4, R=rng.choice([1, 5]), zero_in_box=(i % 2 == 0)))
    jobs = []
    for d in devs:
        ops = []
        for i, spec in enumerate(specs):
            S = spec_size(spec)
            ops.append({"op": "problem", "id": f"p{i}", "spec": {k: v for k, v in spec.items() if not k.startswith("_")}, "_tags": spec["_tags"]})
            r2 = random.Random(seed * 13 + i)
            mbs = sorted(set([1, 2, 3, max(1, S // 2), S - 1, S, S + 2]))
            if tier == "quick":
                mbs = r2.sample(mbs, min(3, len(mbs)))
            for mb in mbs:
                for sh in (0, 1):
                    for rs in ([0] if sh == 0 else [r2.randint(0, 50), 7]):
                        for _ in range(2):
                            V = gen.rand_values(r2, S, R=r2.choice([2, 8]), denom=r2.choice([1, 2]))
                            for choose in ("pad", "real"):
                                ops.append({"op": "semisweep", "id": f"p{i}", "maxbs": mb, "gamma": r2.choice(["1/2", "3/4", "1"]) if choose == "pad" else ops[-1]["gamma"],
                                            "V": [frac(v) for v in V], "shuffle": sh, "random_seed": rs, "choose": choose, "_skip_impl": choose == "real"})
        jobs.append((ops, d))
    # run impl once per (choose=pad) op; the choose=real variant reuses the impl answer (same permutation) for the model only
    impl_jobs = [([op for op in ops if not op.get("_skip_impl")], d) for ops, d in jobs]
    impls = core.run_impl_parallel(impl_jobs, workers=len(devs))
    for (ops, d), (iops, _), impl in zip(jobs, impl_jobs, impls):
        resp = {id(op): r["resp"] for op, r in zip(iops, impl)}
        full = []
        last = None
        for op in ops:
            if op.get("_skip_impl"):
                full.append(last)
            else:
                last = resp[id(op)]
                full.append(last)
        paired = session.pair_with_model(ops, full)
        tabs = {}
        seen_perm = {}
        for (op, m, i, line) in paired:
            if op["op"] == "problem":
                tabs[op["id"]] = oracle.Tab.from_line(i)
                if d == 1:
                    for tg in op.get("_tags", []):
                        res.count("tag:" + tg)
                continue
            t = tabs[op["id"]]
            res.evaluations += 1
            di, dm = core.parse_resp(i), core.parse_resp(m or "")
            case = {"op": {k: v for k, v in op.items() if not k.startswith("_")}, "devices": d, "driver_line": line}
            if "values" not in di or "values" not in dm:
                res.disagreements.append({"channel": "C06/sweep", "case": case, "model": (m or "")[:300], "impl": i[:300], "failing_input": "values" not in di,
                                          "what": "no values", "key": "novalues"})
                continue
            n, dev, npad = int(di["n"]), int(di["dev"]), int(di["npad"])
            bl = core.parse_resp(core.run_driver([f"batch n={n} maxbs={op['maxbs']} dev={dev}"])[0]) if False else None
            mv, iv = core.plist(dm["values"]), core.plist(di["values"])
            res.count(f"devices={d}"); res.count("shuffle" if op["shuffle"] else "fixed"); res.count("choose=" + op["choose"])
            res.count("padding>0" if npad > 0 else "padding=0")
            if mv != iv:
                # property's own oracle: independent block Gauss-Seidel over the documented partition
                total = n + npad
                bsz = None
                for b in range(1, op["maxbs"] + 1):
                    pass
                res.disagreements.append({"channel": f"C06/sweep(choose={op['choose']})", "case": case, "model": m[:400], "impl": i[:400], "failing_input": None,
                                          "what": "semi-async sweep differs from the model", "key": "sweep", "_t": op["id"]})
            else:
                res.nontrivial.add((op["id"], op["maxbs"], d, di["perm"], tuple(op["V"]), op["gamma"]))
            # permutation reproducible from the key: one split per sweep, nothing else consumes it
            if op["shuffle"] and op["choose"] == "pad":
                if di["perm"] != di["recomputed"]:
                    res.disagreements.append({"channel": "C06/permutation-from-key", "case": case, "model": di["recomputed"], "impl": di["perm"], "failing_input": True,
                                              "what": "permutation used is not permutation(split(key)[1]) / key not advanced by exactly one split", "key": "perm-key"})
                perm = [int(x) for x in di["perm"].split(",")]
                if sorted(perm) != list(range(n)):
                    res.disagreements.append({"channel": "C06/permutation", "case": case, "model": "", "impl": di["perm"], "failing_input": True,
                                              "what": "not a permutation of all states", "key": "perm-invalid"})
                res.count("perm-recomputed")
            if len(res.samples) < 4 and op["shuffle"]:
                res.sample({"request": line[:260], "model": m[:120], "impl": i[:160]})
        # independent oracle on a subset (every 3rd sweep) — needs layout numbers from the model
        sub = [(op, m, i) for (op, m, i, line) in paired if op["op"] == "semisweep" and op["choose"] == "pad"][::3]
        lay = core.run_driver([f"batch n={core.parse_resp(i)['n']} maxbs={op['maxbs']} dev={core.parse_resp(i)['dev']}" for op, m, i in sub if "n" in core.parse_resp(i)])
        for (op, m, i), l in zip([x for x in sub if "n" in core.parse_resp(x[2])], lay):
            di, dl = core.parse_resp(i), core.parse_resp(l)
            t = tabs[op["id"]]
            n = int(di["n"])
            order = list(range(n)) if di["perm"] == "_" else [int(x) for x in di["perm"].split(",")]
            ref = gs_oracle(t, Fraction(op["gamma"]), [Fraction(x) for x in op["V"]], order, int(dl["dev"]), int(dl["nb"]), int(dl["bsz"]))
            res.count("python-gs-oracle")
            iv = core.plist(di["values"])
            if ref != iv:
                res.disagreements.append({"channel": "C06/gs-oracle", "case": {"op": {k: v for k, v in op.items() if not k.startswith('_')}, "devices": d, "perm": di["perm"]},
                                          "model": flist(ref, frac)[:400], "impl": di["values"][:400], "failing_input": True,
                                          "what": "sweep is not block Gauss-Seidel over (devices x batches) in the recorded order / not in natural state order", "key": "not-gs"})
    # disagreements with failing_input None: decide with the oracle verdict of the same run
    bad_oracle = any(d_["channel"] == "C06/gs-oracle" for d_ in res.disagreements)
    for d_ in res.disagreements:
        if d_["failing_input"] is None:
            d_["failing_input"] = bad_oracle
            d_.pop("_t", None)
    # the solver's own first sweeps from the problem's own initial estimates, which may be integer-typed (`return 0`, an integer heuristic):
    # every sweep — the first one included — must be the block Gauss-Seidel update of exact values (nothing may be truncated on the way)
    from harness.c08 import compare_state
    own_ops = []
    for j, idt in enumerate(["pyint0", "int32", "int32", "float32"]):
        spec = gen.gen_spec(rng, S=rng.choice([5, 6, 7, 9]), A=rng.choice([2, 3]), kind=rng.choice(["random", "unichain"]), denom=4, R=5, init=(idt != "pyint0"),
                            tiny=False, near_tie=False)
        spec["init_dtype"] = idt
        # non-integer rewards, so that a value truncated on the way is visible at once
        spec["rew"] = [[[x + 0.5 for x in row] for row in a] for a in spec["rew"]]
        spec["rew_dtype"] = "float64"
        S = spec_size(spec)
        own_ops.append({"op": "problem", "id": f"own{j}", "spec": {k: v for k, v in spec.items() if not k.startswith("_")}, "_tags": ["own-initial-estimates:" + idt]})
        for mb in (1, 2):
            for sh in (0, 1):
                sid = f"own{j}_{mb}_{sh}"
                own_ops.append({"op": "new", "sid": sid, "solver": "semi", "id": f"own{j}", "maxbs": mb, "gamma": "1/2", "eps": "1/1048576", "test": "max_diff",
                                "shuffle": sh, "random_seed": 3 + j, "n_hint": S, "dev_hint": 1})
                for k in (1, 1, 2):
                    own_ops.append({"op": "solve", "sid": sid, "k": k})
    tabs_own, news_own, total_own = {}, {}, {}
    for (op, m, i, line) in session.run_session(own_ops, 1):
        if op["op"] == "problem":
            tabs_own[op["id"]] = oracle.Tab.from_line(i)
            for tg in op.get("_tags", []):
                res.count("tag:" + tg)
        elif op["op"] == "new":
            news_own[op["sid"]] = op; total_own[op["sid"]] = 0
        elif op["op"] == "solve" and m is not None:
            new = news_own[op["sid"]]
            total_own[op["sid"]] += op["k"]
            res.evaluations += 1
            res.nontrivial.add(("own", op["sid"], total_own[op["sid"]]))
            for key, fail in compare_state(res, op, new, tabs_own[new["id"]], m, i, line, 1, total_own[op["sid"]]):
                res.disagreements.append({"channel": f"C06/own-initial-estimates/{key}", "case": {"new": {k: v for k, v in new.items() if not k.startswith("_")}, "k": op["k"],
                                          "sweeps_so_far": total_own[op["sid"]], "driver_line": line}, "model": m[:500], "impl": i[:500], "failing_input": fail,
                                          "what": f"{key} after the solver's own sweeps from the problem's own (possibly integer-typed) initial estimates differ from block Gauss-Seidel",
                                          "key": f"own:{key}"})
    # reproducibility: two solvers with the same seed produce the same permutation sequence and values
    spec = specs[0]
    S = spec_size(spec)
    ops = [{"op": "problem", "id": "q", "spec": {k: v for k, v in spec.items() if not k.startswith("_")}}]
    for sid in ("a", "b"):
        ops.append({"op": "new", "sid": sid, "solver": "semi", "id": "q", "maxbs": 2, "gamma": "1/2", "eps": "1/1000000", "test": "max_diff", "shuffle": 1, "random_seed": 11 + seed})
        ops.append({"op": "solve", "sid": sid, "k": 4})
        ops.append({"op": "solve", "sid": sid, "k": 3})
    out = [r["resp"] for r in core.run_impl(ops, 1)]
    a = [core.parse_resp(x) for x in (out[2], out[3])]
    b = [core.parse_resp(x) for x in (out[5], out[6])]
    res.evaluations += 1
    if [(x.get("perms"), x.get("values")) for x in a] != [(x.get("perms"), x.get("values")) for x in b] or "perms" not in a[0]:
        res.disagreements.append({"channel": "C06/reproducible", "case": {"random_seed": 11 + seed}, "model": str(a)[:300], "impl": str(b)[:300], "failing_input": True,
                                  "what": "two solvers with the same random_seed produced different permutation sequences / values", "key": "not-reproducible"})
    else:
        res.count("same-seed-twin-equal")
    return res


def replay(rep, tier, seed):
    return run(tier, rep.get("seed", seed))
