"""Regenerates MANIFEST.json from the table below (keeps it valid at all times)."""
import json
from pathlib import Path

V = Path(__file__).resolve().parent.parent
NOTE = ("Trusted: Lean 4.33 kernel + Mathlib; axioms ⊆ {propext, Classical.choice, Quot.sound} (audited by #print axioms and grep on "
        "every run, leanchecker in the thorough tier); the Lean evaluator running the model at Rat; the hand-written model "
        "MdpaxV/Model tied to /repo by the correspondence harness (differential, exact in the dyadic regime). Modelled, not "
        "verified: float64 as ordered field, XLA vmap/scan/pmap as map/fold/map, JAX gather clamp / argmax-first, Orbax/OS, "
        "Hydra/OmegaConf, special functions. ")

CHECKS = {
    "C18": dict(text="Theorems for every n, max_batch_size, device count (no bound): 1<=batch_size<=max, slots = n + padding, padding>=0, "
                     "prepared layout = states in order followed only by padding with shape dev x nb x bsz, unbatch∘map∘prepare = map "
                     "for any element type. Tie: exhaustive box of BatchProcessor attributes vs model + sampled prepare/unbatch layouts "
                     "with trailing shapes; default device count observed in subprocesses.",
                technique="Lean 4 theorems over Model/Batch.lean + exhaustive differential check of the real BatchProcessor against the model + translation of BatchProcessor.__init__ from the Python source on every run with a Lean proof that it equals the model",
                ref="§8 C18"),
}
CHECKS["C02"] = dict(
    text="Theorems for every problem table, layout, gamma and value vector (no WF needed): sweep = map backup over the states in natural "
         "order whatever the padding rows compute; backup is an attained upper bound of the textbook action values; the extracted action is "
         "the first maximiser and lies in the action space; sweep is monotone, shifts by gamma*c, and is a gamma-contraction in sup norm. "
         "Tie: real ValueIteration sweep/policy on generated tabular problems with injected (non-iterate) dyadic value vectors, gamma in "
         "{0,1/2,3/4,1}, batch layouts, 1-8 emulated devices: bit-exact in the dyadic regime, rounding envelope otherwise.",
    technique="Lean 4 theorems over Model/Backup.lean + bit-exact differential check of the real sweep against the model run at Rat",
    ref="§8 C02")
CHECKS["C08"] = dict(
    text="Theorems about the generic solve loop, instantiated for all five solvers: at most k sweeps; stops at the first sweep whose test fires "
         "(strict <) and never before; not converged => exactly k sweeps; iteration = start + sweeps; values = that many reference backups of the "
         "initial estimates; results independent of checkpoint frequency; solve(k1);solve(k2) = solve(k1+k2) when the first call did not converge "
         "(VI, RVI, periodic, semi-async for any permutation schedule, PI); documented thresholds. Tie: op sequences of solve() on all five real "
         "solvers incl. shuffled semi-async (permutations from the hook) vs the model loop, bit-exact in the dyadic regime, plus impl-vs-impl twins.",
    technique="Lean 4 induction over the generic loop combinator + differential op-sequence check of the five real solvers against the model",
    ref="§8 C08")
CHECKS["C03"] = dict(
    text="Theorems: padding slots are never observable and results have one row per state in natural order (any per-slot computation, any layout); "
         "sweep, policy extraction, evaluation sweep and initial values are equal for any two valid layouts; hence the whole solve result (every "
         "iterate, convergence iteration, gain, history+index, policy, save labels) of VI, RVI, periodic VI and PI is equal for any two layouts. "
         "Tie: all solvers under 1,2,3,4,8 (thorough 1..8) emulated devices x batch sizes, compared pairwise and with the layout-aware model; "
         "partial: that pmap executes the modelled map on each device is observed, not proved.",
    technique="Lean 4 theorems (layout independence by rewriting to map over states) + multi-device differential runs of the real solvers",
    ref="§8 C03", note="pmap execution on emulated host devices is runtime behaviour, observed only.")
CHECKS["C01"] = dict(
    text="Theorems (any linearly ordered field, any finite MDP table, any layout, any initial values): if the model's value-iteration loop reports "
         "convergence under the span test the returned (greedy-for-the-new-iterate) policy satisfies 0 <= V* - V_pi < eps at every state; under "
         "max_diff |V - V*| < eps and 0 <= V* - V_pi < 2 eps; for policy iteration stopping on n_changed = 0 the returned policy is greedy for the "
         "returned values and, IF the last evaluation met its test (explicit hypothesis; the code does not check it - known finding), the gap is "
         "< eps/gamma (span), < 2eps/gamma and |V - V_pi| < eps/gamma (max_diff). All derived from monotone+shift of the executable backup. "
         "Semi-asynchronous max_diff: for every partition, permutation and collision resolution, a sweep that changes no value by eps(1-gamma)/gamma or "
         "more is within eps of V* and its greedy policy within 2*gamma*eps/(1-gamma) (from the Gauss-Seidel contraction proved in C06). "
         "Tie: real VI/PI/semi-async run to reported convergence; exact V*, V_pi certificates proposed in Python and verified by the Lean driver "
         "with the model's operators; bounds checked as exact rational inequalities.",
    technique="Lean 4 proof of the a-priori error bounds from the stopping rule (monotone+shift operator theory over the executable backup) + certificate-checked runs of the real solvers",
    ref="§8 C01", note="Existence of V* (Banach) is not formalised: theorems quantify over every fixed point; per instance the driver verifies the fixed-point certificates exactly.")
CHECKS["C05"] = dict(
    text="Theorems: for every layout the evaluation sweep applies each state's own policy action (gathered at state_to_index with JAX clamping), padding "
         "unobservable; _evaluate_policy returns the first pre-update iterate whose next sweep meets the test, else the budget-th iterate; a "
         "max_diff-converged evaluation is within eps/gamma of the exact policy value; the loop stops before its limit iff no state's action changed; "
         "the policy held after every iteration is greedy for the held values; first policy = supplied initial policy, else argmax of immediate "
         "expected reward; reset semantics. Tie: injected random policies/values (2-dim actions) on the real evaluation sweep, _evaluate_policy, "
         "PI steps and solve sequences, bit-exact; converged evaluations checked against driver-verified exact policy values.",
    technique="Lean 4 theorems over the executable evaluation/improvement model + differential injection tests on the real PolicyIteration",
    ref="§8 C05")
CHECKS["C04"] = dict(
    text="Theorems (gamma = 1, any solution (g,h) of the optimality equation T h = h + g, any solution (g_d,h_d) of the returned policy's "
         "evaluation equation): min(TV-V) <= g <= max(TV-V) for every V; the gain invariant gain = values[last] holds at every state the loop "
         "visits (from a fresh solver too, after the fix recorded in known_findings.json); whenever solve() reports convergence "
         "|gain - g| < eps, |T V - V - gain| < eps at every state, 0 <= g - g_d < eps. Existence of (g,h) for unichain MDPs is textbook, not "
         "formalised; per instance the driver verifies exact certificates. Tie: real RVI to convergence on generated unichain aperiodic MDPs "
         "(incl. targeted initial values = bias + constant), certificates verified by the Lean driver, exact rational inequalities.",
    technique="Lean 4 proof of the gain bracket / residual bounds from monotone+shift at gamma=1 + certificate-checked runs of the real solver",
    ref="§8 C04", note="Existence of a solution of the average-reward optimality equation for unichain MDPs (Puterman 8.4) is assumed, not proved.")
CHECKS["C07"] = dict(
    text="Theorems (any period, any number of wraps of the buffer): the value component is exactly the plain VI iterate; ring invariant "
         "history_index = n mod (p+1) and slot (n-j) mod (p+1) holds V_(n-j) for j <= min(n,p); for n >= p the undiscounted measure is "
         "sp(V_n - V_(n-p)) and the discounted one the span of the documented sum of (V_j - V_(j-1))/gamma^(j-1) over the last p sweeps; while "
         "iteration < period the test cannot fire; the loop stops at the first iteration whose measure is < eps and the returned policy is greedy "
         "for the returned values; for gamma = 1 and every solution (g,h) of the optimality equation min(V_n - V_(n-p)) <= p g <= max(...) "
         "(proof uses only monotone+shift of T^p, so it covers chains periodic with period p), hence at convergence every component of "
         "(V_n - V_(n-p))/p is within eps/p of g. Tie: real PeriodicValueIteration vs model (values, policy, iteration, value_history, "
         "history_index, TypeError branch after clearing), plain-VI twins, driver-verified gain certificates.",
    technique="Lean 4 induction (ring-buffer invariant with variable modulus, measure = documented formula) + p-step gain bracket + differential runs",
    ref="§8 C07")
CHECKS["C06"] = dict(
    text="Theorems: for every partition (batch size x device count), every permutation and EVERY resolution of duplicate scatter targets the "
         "sweep equals the padding-free block Gauss-Seidel recursion over the same batches (prepared layouts are proved PadTail: a batch with "
         "padding is followed only by all-padding batches, so padding can never undo an update that is used); one batch per device => the "
         "synchronous sweep; every fixed point of the Bellman operator is a fixed point of every semi-async sweep and is returned in natural "
         "order, and conversely a vector left unchanged by any semi-async sweep is a Bellman fixed point (iff); Gauss-Seidel contraction "
         "towards the fixed point for every schedule; the k-th permutation is a function of (seed key, k) only under an abstract PRNG. "
         "Tie: hook-recorded permutations replayed by the model, both collision resolutions, independent python block-GS oracle, permutation "
         "recomputed from the key with one split, same-seed twins.",
    technique="Lean 4 proof that the scan-with-scatter model equals padding-free block Gauss-Seidel for all schedules + replay of hook-recorded permutations",
    ref="§8 C06", note="JAX PRNG abstract (only 'one split per sweep, nothing else reads the key' is model logic; the recorded permutation is recomputed from the key on every run).")
CHECKS["C19"] = dict(
    text="Theorems for every dimension count and all integer bounds: the listed rows are exactly the integer vectors of the box (membership iff "
         "in the box), no duplicates, length = product of the dimensions, and the index function maps every listed row to its own row number "
         "(row-major, non-zero/negative lower bounds and zero-width dimensions included); the index of any vector equals the index of the nearest "
         "box vector and is always a valid row. Tie: exhaustive comparison of the real create_range_space (space and index of every vector of "
         "the box enlarged by 2) with the model over dimensions 1-2 x bounds in -3..3, sampled dimensions 3-4.",
    technique="Lean 4 induction on the dimension list (row-major box, ravel/clip) + exhaustive differential check of the real create_range_space",
    ref="§8 C19")
CHECKS["C17"] = dict(
    text="Theorems: before normalisation P[a,s,s'] = sum of the probabilities of exactly the events whose successor index is s' (several events "
         "accumulate); R[s,a] = sum_e p r; a ValueError is raised iff the largest |row sum - 1| exceeds the tolerance, and it names the first "
         "maximiser in (action, state) order with its row sum; on success every deviation is <= tol and every returned row with positive mass "
         "sums to exactly 1 (raw row / row sum); if raw rows sum to 1 and successors are valid rows, R[s,a] + gamma sum_s' P[a,s,s'] V[s'] = the "
         "functional action value for every V, so both descriptions have the same Bellman operator and optimal values. Tie: real matrix builder "
         "on tabular problems (perturbed rows x tolerances, single-event, array-valued probabilities) and small shipped problems vs the model; "
         "exact independent solve of the returned matrices.",
    technique="Lean 4 theorems over Model/Matrices.lean (scatter-add as filtered sums, summation exchange) + differential check of the real builder",
    ref="§8 C17")
CHECKS["C14"] = dict(
    text="Theorems for every useful life, lead time and limit (no bound) and EVERY listed event (a superset of the positive-probability ones): "
         "the successor of a listed state under a listed action is a listed state and state_space[index(successor)] is exactly that vector, for "
         "Forest, De Moor (both issuing policies), Hendrix and Mirjalili; state spaces have the documented product sizes and no duplicate rows "
         "(from the C19 range-space theorems). Tie: complete (s,a,e) tables of the real problems on a parameter grid - closure, index round trip, "
         "documented sizes, duplicates - and equality of spaces and successor indices with the model.",
    technique="Lean 4 proofs of closure (issuing keeps every age class in [0,Q], pipeline shift, weekday mod 7) on models of the four transition functions + full-table differential check",
    ref="§8 C14")
CHECKS["C15"] = dict(
    text="Theorems for every vector length and non-negative demand/stock: the forward scan equals the closed-form newest-first rule and the "
         "reverse scan the oldest-first rule; units are conserved by issuing (opening = min(demand, stock) + remaining); a class is drawn on "
         "only after every class visited before it is empty; De Moor: successor = shifted pipeline ++ (receipt :: remaining without the expiring "
         "class) and opening + receipt = issued + expired + closing; Hendrix per-product conservation; Mirjalili weekday/fixed-cost/holding "
         "formula; Forest step. Tie: complete tables (successor and reward, exact with dyadic costs) of the real problems vs the model and vs an "
         "independent scalar python model of the documented dynamics.",
    technique="Lean 4 proofs about the issuing scans (closed form, conservation, order) + full-table differential check against model and independent scalar model",
    ref="§8 C15")
CHECKS["C13"] = dict(
    text="Theorems (special functions as abstract tables): Forest rows are non-negative and sum to 1 for p in [0,1]; the censoring step "
         "(fold 1 - sum into the last bin) makes ANY table sum to exactly 1 and keeps it non-negative when the table is non-negative with "
         "partial sum <= 1 (De Moor from the cdf differences of a non-decreasing table, Mirjalili demand); a Mirjalili row factorises as "
         "(sum_d P(d)) * (sum_k split(k)), splits off the simplex contribute 0, and the multinomial split probabilities over all splits of the "
         "order sum to (sum of category probabilities)^order = 1 (multinomial theorem proved over the list model). Hendrix: the property is "
         "false of the implementation (demand support truncated) - recorded known finding, identified by the exact mass formula. "
         "Tie: complete probability tables of the four real problems on a parameter grid: direct check finite/>=0/|sum-1|<=1e-4, and the "
         "structural model fed with the implementation's primitive tables compared entrywise.",
    technique="Lean 4 proofs of the distribution structure (censoring, factorisation, multinomial theorem) + full-table checks of the real problems",
    ref="§8 C13", note="Accuracy, non-negativity and monotonicity of numpyro/jax special functions are assumptions checked numerically on the tables used. "
                      "The identification of filtered product-space combinations with the list of splits is tied numerically, not proved.")
CHECKS["C16"] = dict(
    text="Theorems about how the code combines its primitives: gamma shape/rate conversion gives the documented mean and coefficient of "
         "variation; De Moor probabilities are successive differences of the half-integer cdf table with the last bin 1 - F(D-1/2) + F(0); the "
         "negative-binomial success probability n/(n+delta) gives mean delta; the last Mirjalili demand bin is 1 - sum_{d<D} nb(d); slot j of the "
         "received vector carries the logit of remaining life m-j (0 for life 1, c0[k-2]+c1[k-2]*a for life k); product form and zero off the "
         "simplex (C13); Hendrix initial value is the expectation sum_e P(e) revenue(e); Forest table. Partial: equality of float special "
         "functions with their mathematical definitions is numerical analysis - sampled, not proved. Tie: mpmath (50 digits, independent of "
         "jax/numpyro/scipy) reference primitives from the documented parameters, combined by the Lean model and compared entrywise with the "
         "implementation's full tables (1e-9; 2e-6 for Mirjalili because numpyro's negative-binomial log-pmf is only ~1e-6 accurate); Hendrix "
         "against a brute-force enumeration of (d_A, d_B, u) inside the truncation region; initial values against their documented definition.",
    technique="Lean 4 proofs of the combination rules (parameter conversions, discretisation, censoring, logit order) + mpmath reference pushed through the model and compared with the real tables",
    ref="§8 C16", note="Special-function accuracy is assumed and sampled; the Hendrix joint law is checked by brute force, not by a theorem.")
CHECKS["C12"] = dict(
    text="Theorems: with frequency 0 nothing is set up and the loop issues no save event; the directory exists iff f > 0 and config.yaml iff in "
         "addition solver+problem are reconstructible; every save event of a solve() call is label-consistent (label = iteration counter of the "
         "snapshot, snapshot = the iterate reached at that moment) and in-loop saves happen only at multiples of f; the call's last iteration is "
         "always saved; one save is skipped iff the step is not newer than the latest committed step, otherwise it is committed and exactly the m "
         "newest steps remain (the new one among them); after any call at most m steps are retained and each is either pre-existing or one of the "
         "call's save events. Partial: Orbax/OS are assumed to implement this store (skip rule, max_to_keep, atomic commit) - observed on every "
         "run. Tie: op sequences (f, m, sync/async, several solve calls, restore into same/new directory with overrides, failing restores) on all "
         "solvers, problems with/without configuration: sorted listings, config.yaml, iteration and values stored in every retained step vs the "
         "store model fed by the model loop's save events.",
    technique="Lean 4 proofs about the loop's save events and the store model + differential check of directory listings and per-step contents of real checkpoint directories",
    ref="§8 C12", note="Orbax CheckpointManager and the filesystem are the runtime; the model of their behaviour is validated by the listing comparison, not proved.")
CHECKS["C09"] = dict(
    text="Theorems (generic loop, instantiated for VI, RVI, periodic, semi-async with any iteration-indexed schedule, PI): run k1 iterations with "
         "checkpointing without converging, take the snapshot of the last save event (the call's last iteration is always saved, label-consistent), "
         "restore it into a fresh solver's template (which drops the stored policy for the VI family), run k2 more: state and convergence flag "
         "equal one uninterrupted solve(k1+k2) without checkpointing, for every k1, k2, frequency; checkpoint frequency never changes a result. "
         "Partial: bit-for-bit equality across processes is platform reproducibility plus Orbax fidelity - observed, not proved. "
         "Tie: chains of interruptions with every leg in a fresh interpreter (restore() and construct+load_checkpoint() routes, frequency 1-3, "
         "retention 1-2, sync/async) compared bit for bit with a process that never checkpoints and with the model; shuffled semi-async resumed "
         "to convergence and certified against the C01 bound.",
    technique="Lean 4 proof of resume = uninterrupted from loop composability + snapshot/restore agreement + fresh-process interrupt/resume runs compared bitwise",
    ref="§8 C09", note="Orbax serialisation fidelity and cross-process float reproducibility are runtime behaviour, observed only.")
CHECKS["C10"] = dict(
    text="Theorems over the store/restore model: restore succeeds iff config.yaml is present and the chosen step (explicit, else the latest "
         "committed) is committed; without configuration it fails with FileNotFoundError, with configuration but no committed step with "
         "ValueError - no solver is returned; on success exactly the committed entry of that step is loaded (latest by default; `step or "
         "latest` makes an explicit 0 mean latest); load_checkpoint loads the same entry without needing configuration; every state field is "
         "restored except that the VI family's stored policy is dropped (model of the code as it stands - known finding), PI's policy is "
         "restored; saving elsewhere or with other frequency/retention never alters what a restore of this directory loads. Partial: "
         "Hydra instantiate, the OmegaConf YAML round trip and Orbax are runtime. Tie: 5 solvers x 4 shipped problems (tuple parameters), saver "
         "state recorded per step; fresh-process restores of latest/explicit steps under override combinations: state bit for bit, stored "
         "policy, configuration field by field, overrides in effect, original directory untouched; error directories; load route.",
    technique="Lean 4 theorems over the store/restore decision model + fresh-process differential check of real restore()/load_checkpoint() against recorded saver states",
    ref="§8 C10", note="Hydra/OmegaConf/Orbax are runtime layers, observed through the correspondence only.")
CHECKS["C11"] = dict(
    text="Theorems over the filesystem-event model of a checkpoint directory (mkTmp, commit-by-rename, delStart, delDone): for every event "
         "sequence accepted by the executable protocol recogniser and EVERY prefix of it (= crash point) the directory invariant holds - what "
         "restore() would pick is a fully committed step, never a temporary directory, never a step that is being deleted - and if commit k is "
         "in the prefix the restored label is >= k (never older than the last completed save); every save event is label-consistent (C12) and "
         "resuming from a restored snapshot reaches the uninterrupted final state (C09). Partial: that Orbax/OS follow this protocol (content "
         "complete before the rename, rename atomic, deletion only of older steps) is not proved; it is CHECKED on every run: the observed "
         "operation log of the real run must be accepted by the recogniser. Tie: the real solve is SIGKILLed immediately before its N-th "
         "filesystem operation (sampled N quick, every N thorough; sync and async) and at random wall-clock times; restore in a fresh process "
         "must fail cleanly or return iteration = the model's latest label for that prefix with values bit-identical to the uninterrupted "
         "trajectory, and continuing must reach the uninterrupted final state.",
    technique="Lean 4 invariant proof over all prefixes of protocol-conforming filesystem event sequences + kill-point fault injection on the real checkpointed solve",
    ref="§8 C11", note="Kill points are Python-level filesystem operations (mkdir/rename/unlink/rmdir of Orbax) plus wall-clock kills; writes inside the temporary directory by tensorstore (C++) are covered only as 'kill before the commit rename'.")
CHECKS["C20"] = dict(
    text="Theorems: each of the five solver validators accepts exactly its documented domain (gamma in [0,1]; gamma = 1 for RVI; eps > 0; batch "
         "size >= 1; period >= 1 and >= 2 when gamma = 1; evaluation budget >= 1; frequency, retention >= 0; verbosity 0..4; known convergence "
         "test; problem a ProblemConfig or absent), a non-config problem is the only TypeError and every other rejection a ValueError; the four "
         "problem validators accept exactly their documented domains; the outcome of construction + solve is the same function of the "
         "configuration for the three routes and is ok on the whole valid domain; the threshold of a valid configuration is positive incl. "
         "gamma = 0 and 1 (model of the repaired code - three defects fixed, see known_findings.json). Partial: dtype promotion, Hydra "
         "instantiate and the OmegaConf round trip are runtime; the precision-order clause is observed in fresh processes and is a recorded "
         "known finding. Tie: 5 solver classes x 3 routes x boundary values (gamma 0, 1e-12, 1-2^-53, 1; eps 1e-12..1e6; thresholds >= 100; "
         "limits of every integer field; unknown test; non-config problem), identical results across routes, four problem configs field by field.",
    technique="Lean 4 proofs that the validators decide exactly the documented domains, re-proved on every run against a translation of the validators' Python source, + differential construction/solve runs over routes and boundary values",
    ref="§8 C20", note="Hydra/OmegaConf and JAX dtype behaviour are runtime, observed only.")
PENDING = {}


# theorems added in the second round (appended to the level texts)
ROUND2 = {
    "C01": " Whole-solve form for the semi-asynchronous solver (semiasync_solve_near_optimal): for every per-sweep permutation sequence, start state, "
           "checkpoint frequency and budget, a solve() that reports convergence under max_diff returns values within eps of V* and a policy within 2*gamma*eps/(1-gamma).",
    "C03": " semiasync_bound_every_partition: the semi-asynchronous bound holds for every valid layout (universally quantified over batch size x device count).",
    "C04": " rvi_values_bounded: after any number of iterations every relative value is within sp(V0 - h) of h(i) - h(last) + g (no growth with n).",
    "C05": " pi_solve_stops_only_when_stable: a whole solve() call reports convergence only when the last improvement step left the evaluated policy unchanged; otherwise exactly k iterations.",
    "C07": " periodic_solve_gain: a whole solve() from a fresh solver that reports convergence at gamma = 1 has run n >= period sweeps, returns the n-th VI iterate, "
           "and every component of (V_n - V_(n-period))/period is within eps/period of g.",
    "C09": " shuffled_resume_within_bound: from any restored snapshot, with any permutation sequence, a resumed semi-asynchronous solve that reports convergence meets the C01 bound.",
    "C12": " applySaves_exact: after any sequence of save events the directory holds exactly the m most recent of (previous steps ++ accepted events); "
           "final_iteration_retained: the last iteration of the most recent call is the newest step.",
    "C13": " combos_perm_splits / mirjalili_dist: the Mirjalili event space's filtered product is exactly the multinomial support, so every (weekday, order) row sums to one for all sizes; "
           "hendrix_row_sum: exact mass of every Hendrix row (the recorded truncation finding in closed form).",
    "C14": " mirjalili_events_nodup_size: the Mirjalili event space has no duplicate rows and (max_demand+1) events per received-order combination.",
    "C20": " decimalPlaces_valid / decimalPlaces_shows_threshold: the progress-format precision max(0, min(1 - floor(log10 thr), max_decimals)) is a valid precision for every "
           "positive threshold of any magnitude; the implementation's format string of every constructed solver is compared with it (floor taken exactly).",
    "C16": " hendrix_cell_is_joint_law: the four masked arrays built from the pu/pz convolution tables equal the enumeration over d_A, d_B and the binomial substitution demand "
           "inside the truncation region, for all table sizes, stocks and cells; the model row (from the primitive Poisson tables) is compared with the real table.",
}
for _k, _v in ROUND2.items():
    CHECKS[_k]["text"] += _v


# theorems added in the seventh round
ROUND7 = {
    "C01": " Existence (Theory/Existence, Theory/PolicyValue; no completeness, any ordered field): every policy with valid action indices has exactly one "
           "discounted value function (policy_value_exists_unique: the evaluation operator of the executable model is affine, its linear part is injective by the "
           "contraction argument, hence surjective in finite dimension) and the optimal value function exists, is unique, dominates every policy's value and is "
           "attained by a policy (optimal_value_exists_unique, by one Howard improvement step at a policy maximising the sum of its values). The *_closed theorems "
           "(vi_span / vi_maxdiff / pi / semiasync_solve) restate the bounds with these fixed points existentially bound instead of assumed, and vi_span_near_optimal_closed "
           "adds: no stationary deterministic policy is better than the returned one by eps or more at any state.",
    "C04": " What g is, without limits: gain_is_nstep_average / policy_gain_is_nstep_average (the n-step optimal / policy value from any terminal vector V is "
           "n*g + h(i) up to min(V-h), max(V-h), for every n), optimal_gain_dominates (no policy's gain exceeds g), optimal_gain_unique, "
           "rvi_solve_beats_every_policy (the returned policy's gain is within eps of every policy's gain). Existence of (g,h) for unichain MDPs stays textbook.",
    "C05": " evaluate_maxdiff_bound_closed: the policy's exact discounted value exists and is unique, and a converged max_diff evaluation is within eps/gamma of it.",
    "C18": " Tie by translation: harness/translate.py regenerates MdpaxV/Gen/{Batch,Config}.lean from /repo's batch_processing.py on every run; init_code_eq_model proves that "
           "BatchProcessor.__init__ as written (device count, batch size, batch count, padding; `//` as floor division) equals the model for every n, max_batch_size and "
           "device count >= 1, init_code_consistent derives the attribute clauses for the code's own arithmetic. prepare_seq: one processor, several arrays of different dtypes in turn.",
    "C11": " Round 7: slow-storage configurations (every commit delayed so that asynchronous save requests arrive while a write is in flight), interruption by SIGINT (Ctrl-C) as "
           "well as SIGKILL, label = content of every retained step, and the unkilled run's last iteration is the latest checkpoint.",
    "C12": " Round 7: one worker on slow storage (asynchronous saving, frequency 1-2, commits delayed).",
    "C20": " Tie by translation: the five solver and four problem __post_init__ validators and get_convergence_format are translated from /repo's source on every run; "
           "validators_code_eq_model / validators_code_iff / validators_code_error_class / problem_validators_code_eq_model / format_code_eq_model / format_code_valid / verbosity_code_eq_model / threshold_code_eq_model / thresholdOf_code_eq_model / threshold_code_pos (leaf module Props/C20Gen.lean; also the verbosity table and the convergence thresholds of all five classes) prove "
           "that the code as written equals the model (same checks, order and exception classes) for every configuration. Verbosity (model of utils.logging.verbosity_to_loguru_level and Solver.set_verbosity): loguruLevel_ok_iff (accepted exactly on integers 0..4; TypeError for "
           "non-integers, ValueError outside), levelName_injective, verbosity_name_roundtrip (names in any letter case denote the level they are installed for), "
           "setVerbosity_name_eq_int, setVerbosity_ok; tied to the real functions on integers -3..8, non-integers, bool, and 22 names (stored integer and installed loguru handler level).",
    "C06": " Round 7/8: the solver's own first sweeps from integer- / float32-typed initial estimates compared with the model (site of the defect repaired in /repo a2f4642).",
    "C09": " Round 8: interruptions 1-3 iterations before the uninterrupted run's convergence; closed form shuffled_resume_within_bound_closed.",
    "C10": " Round 7: every checkpoint directory has been used before by a solver of the same classes with other parameters.",
    "C13": "",
    "C14": " Round 8: twins built through a configuration object that is changed after construction.",
    "C15": " Round 7/8: twins in the same process (same structural parameters, other real-valued coefficients; configuration object changed after construction).",
    "C16": " Round 7: one-parameter twins of every class built in the same process.",
    "C17": " Round 7/8: twin problems (same class and array shapes, other index map) in one process; problems with 127..300 random events.",
    "C19": " Round 7: boxes whose extents (127..129, 255..257, 2^15, 2^16) or coordinates lie at the boundaries of the narrow integer types.",
    "C02": " Round 7: tiny-unit problems (everything scaled by 2^-36), integer-typed initial estimates, problem classes that inherit / mix in their methods.",
    "C03": " Round 7: closed form semiasync_bound_every_partition_closed.",
    "C07": " Round 7: forced period-1 discounted runs with one sweep per call.",
}
for _k, _v in ROUND7.items():
    CHECKS[_k]["text"] += _v


def main():
    props = [json.loads(l) for l in (V / "properties.jsonl").read_text().splitlines() if l.strip()]
    checks, na = [], []
    for p in props:
        i = p["id"]
        if i in CHECKS:
            c = CHECKS[i]
            checks.append({
                "property_id": i,
                "quick_cmd": f"./check {i} --tier quick",
                "thorough_cmd": f"./check {i} --tier thorough",
                "evidence_file": f"evidence/{i}.json",
                "replay_cmd_template": f"./check {i} --replay {{path}}",
                "engine": "lean4-model+correspondence",
                "level_claimed": {"category": "proof", "text": c["text"], "design_ref": c["ref"]},
                "level_note": NOTE + c.get("note", ""),
                "technique": c["technique"],
            })
        else:
            na.append({"property_id": i, "reason": PENDING.get(i, "check not built yet in this round (planned in DESIGN.md §8/§14); nothing is claimed for it")})
    m = {
        "version": 1,
        "setup_cmd": "cd lean && lake build MdpaxV",
        "hooks": {"guard": "MDPAX_VERIF", "enable": "MDPAX_VERIF=1 in the environment of the harness subprocesses (harness/core.py env_for_impl)",
                  "baseline_off_cmd": "cd /repo && env -u MDPAX_VERIF /venv/bin/python -m pytest -ra -q -p no:cacheprovider --timeout=900 --continue-on-collection-errors",
                  "source_commits": ["c1ecf40"], "add_only": True},
        "engines": [
            {"name": "lean4-model+correspondence", "path": "lean/ + harness/", "serves_properties": sorted(CHECKS),
             "kind_free_text": "Lean 4 executable model (MdpaxV/Model) with property theorems (MdpaxV/Props), run at Rat by Driver.lean and "
                               "compared with the real mdpax by harness/*.py"}],
        "checks": checks,
        "not_applicable": na,
        "notes": "See DESIGN.md. Exit codes: 0 held, 1 VIOLATION, 2 harness error/timeout (never a violation).",
    }
    (V / "MANIFEST.json").write_text(json.dumps(m, indent=1))


if __name__ == "__main__":
    main()
