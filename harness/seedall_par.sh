#!/bin/bash
# parallel regression over every stored seeded change: each against the checks recorded in its meta.json (scratch worktrees, /repo untouched)
# usage: harness/seedall_par.sh [lanes]   — prints one line per seed: id, confirmed, caught_by
cd "$(dirname "$0")/.."
LANES=${1:-4}
ls -d seeded/*/ | xargs -n1 basename | xargs -P "$LANES" -I{} bash -c '
  id={}; props=$(python3 -c "import json; m=json.load(open(\"seeded/$id/meta.json\")); print(\" \".join(m[\"checks_run\"].keys()))")
  SEED_REPO=/tmp/seedrepo_par_$id python3 harness/seedtest.py "$id" "seeded/$id" $props 2>&1 | tail -1 | cut -c1-140'
