"""C10 — restore()/load_checkpoint() completeness: a saver process records what the solver held at every step; fresh processes restore
explicit and latest steps with override combinations, from all five solvers on the four shipped problems (+ config-less problems)."""
from __future__ import annotations

import itertools
import random
import shutil
import tempfile
from concurrent.futures import ThreadPoolExecutor

from harness import core, gen, session, shipped
from harness.c08 import spec_size

PROBS = [
    ("forest", {"S": 4, "p": 0.125, "r1": 6.0, "r2": 3.0}),
    ("demoor", {"max_demand": 4, "max_useful_life": 2, "lead_time": 1, "max_order_quantity": 2, "demand_gamma_mean": 1.5, "issue_policy": "fifo"}),
    ("hendrix", {"max_useful_life": 1, "max_order_quantity_a": 2, "max_order_quantity_b": 2, "demand_poisson_mean_a": 1.0, "demand_poisson_mean_b": 1.0}),
    ("mirjalili", {"max_demand": 3, "max_useful_life": 2, "max_order_quantity": 2, "useful_life_at_arrival_distribution_c_0": (0.5,),
                   "useful_life_at_arrival_distribution_c_1": (-0.25,), "weekday_demand_negbin_n": (3.5, 11.0, 7.2, 11.1, 5.9, 5.5, 2.2)}),
]
KEYS = ("iter", "values", "gain", "hidx", "hist")


def gen_case(rng, i):
    kind = ["vi", "rvi", "periodic", "semi", "pi"][i % 5]
    pk, kw = PROBS[(i // 5 + i) % 4]
    new = {"op": "new", "solver": kind, "id": "p", "maxbs": rng.choice([8, 64]), "gamma": "1/2", "eps": "1/1099511627776", "test": "span", "n_hint": 1,
           "f": 1, "m": 9, "dir": "d", "cfg": 1, "async": rng.randint(0, 1), "sid": "s"}
    if kind == "rvi":
        new["gamma"] = "1"
    if kind == "periodic":
        new.update(gamma="1", period=2, clear=0)
    if kind == "pi":
        new.update(budget=3, eps="1/64")
    if kind == "semi":
        new.update(shuffle=0)
    ncalls = rng.randint(3, 4)
    if i % 3 == 0:
        ncalls = rng.randint(8, 9)       # step labels cross from one digit to two while several steps are retained (latest must be the numerically largest)
    steps = [None, ncalls, max(1, ncalls - 2), max(1, ncalls - 1)]
    ovs = []
    for ov in itertools.product([0, 1], repeat=4):
        ovs.append(ov)
    rng.shuffle(ovs)
    # legs that save into the original directory rewrite its config.yaml and add steps, so at most one such leg, and it runs last
    legs = [(steps[j % len(steps)], (1,) + tuple(ovs[j][1:])) for j in range(3)] + [(steps[3], (0,) + tuple(ovs[3][1:]))]
    return {"i": i, "kind": kind, "pk": pk, "kw": kw, "new": new, "ncalls": ncalls, "restores": legs}


def run_case(c, base):
    prob = {"op": "shipped", "id": "p", "target": shipped.T[c["pk"]], "kwargs": c["kw"]}
    save_ops = [{"op": "basedir", "path": base}, prob, dict(c["new"]), {"op": "configdump", "sid": "s"}]
    for _ in range(c["ncalls"]):
        save_ops.append({"op": "solve", "sid": "s", "k": 1})
    # a copy of the directory taken now; the run then continues in the original, so the copy's latest step is older than the original's
    save_ops.append({"op": "cpdir", "src": "d", "dst": "cp"})
    save_ops.append({"op": "solve", "sid": "s", "k": 1, "_after_copy": True})
    save_ops.append({"op": "solve", "sid": "s", "k": 1, "_after_copy": True})
    save_ops.append({"op": "ls", "dir": "d", "template_sid": "s"})
    # the directory has been used before: an earlier process built a solver of the same class on the same problem class with *other* parameters
    # there (that writes its config.yaml; no step is saved).  The directory must afterwards describe the run that saved into it last.
    alt_kw = dict(c["kw"])
    alt_kw.update({"forest": {"r1": 7.0, "p": 0.25}, "demoor": {"demand_gamma_mean": 2.0}, "hendrix": {"demand_poisson_mean_a": 1.5},
                   "mirjalili": {"max_demand": 4}}[c["pk"]])
    alt_new = dict(c["new"], eps="1/1024", maxbs=16, sid="prev")
    if c["kind"] not in ("rvi", "periodic"):
        alt_new["gamma"] = "3/4"
    core.run_impl([{"op": "basedir", "path": base}, dict(prob, kwargs=alt_kw), alt_new], 1)
    saver = [r["resp"] for r in core.run_impl(save_ops, 1)]
    outs = []
    for j, (step, ov) in enumerate(c["restores"]):
        r = {"op": "restore", "sid": f"r{j}", "dir": "d", "solver": c["kind"], "id": "p"}
        if step is not None:
            r["step"] = step
        if ov[0]:
            r["newdir"] = f"n{j}"
        if ov[1]:
            r["f"] = 2
        if ov[2]:
            r["m"] = 3
        if ov[3]:
            r["async"] = 1 - c["new"]["async"]
        ops = [{"op": "basedir", "path": base}, r, {"op": "configdump", "sid": f"r{j}"}, {"op": "ls", "dir": "d", "template_sid": f"r{j}"},
               {"op": "solve", "sid": f"r{j}", "k": 2}, {"op": "ls", "dir": r.get("newdir", "d"), "template_sid": f"r{j}"}]
        outs.append((ops, [x["resp"] for x in core.run_impl(ops, 1)]))
    # restore from the copied directory alone: first while the original (with newer steps) still exists, then after it is gone
    for j, (step, gone) in enumerate([(None, False), (1, False), (None, True)], start=len(c["restores"])):
        r = {"op": "restore", "sid": f"r{j}", "dir": "cp", "solver": c["kind"], "id": "p", "_from_copy": True}
        if step is not None:
            r["step"] = step
        ops = [{"op": "basedir", "path": base}] + ([{"op": "rmdir", "dir": "d"}] if gone else []) + [r, {"op": "configdump", "sid": f"r{j}"}]
        outs.append((ops, [x["resp"] for x in core.run_impl(ops, 1)]))
    return save_ops, saver, outs


def run(tier, seed):
    res = core.Result("C10")
    res.rule = ("five solvers x four shipped problems (tuple-valued Mirjalili parameters through YAML): the saver calls solve(1) repeatedly with "
                "frequency 1 and its held state is recorded after every call; fresh processes restore latest and explicit steps under override "
                "combinations (new directory, frequency, retention, async); restored values/iteration/gain/history/index/period compared bit for bit "
                "with what the saver held at that step, the stored policy with the policy held at save time, configuration field by field, the "
                "original directory listing before/after; every checkpoint directory was used before by a solver of the same classes with other parameters; error directories; load_checkpoint on config-less problems. "
                "distinct non-trivial = successful restores compared")
    rng = random.Random(seed * 1009 + 10)
    n = 5 if tier == "quick" else 20
    cases = [gen_case(rng, i + (seed % 4) * 5) for i in range(n)]
    base = tempfile.mkdtemp(prefix="mdpaxv_c10_")
    try:
        with ThreadPoolExecutor(max_workers=5) as ex:
            results = list(ex.map(lambda c: run_case(c, f"{base}/c{c['i']}"), cases))
        # error directories and the load route, one process
        spec = gen.gen_spec(rng, smax=5, kind="unichain", denom=4, R=3)
        S = spec_size(spec)
        err_ops = [{"op": "basedir", "path": f"{base}/err"},
                   {"op": "problem", "id": "t", "spec": {k: v for k, v in spec.items() if not k.startswith("_")}},
                   {"op": "new", "solver": "vi", "id": "t", "maxbs": 4, "gamma": "1/2", "eps": "1/1048576", "sid": "a", "f": 1, "m": 3, "dir": "nocfg", "cfg": 0, "async": 0, "n_hint": S},
                   {"op": "solve", "sid": "a", "k": 3},
                   {"op": "restore", "sid": "x1", "dir": "nocfg", "solver": "vi", "id": "t"},                       # no config file -> FileNotFoundError
                   {"op": "restore", "sid": "x2", "dir": "missing", "solver": "vi", "id": "t"},                     # no directory   -> FileNotFoundError
                   {"op": "new", "solver": "vi", "id": "t", "maxbs": 4, "gamma": "1/2", "eps": "1/1048576", "sid": "b", "f": 0, "n_hint": S},
                   {"op": "load", "sid": "b", "dir": "nocfg"},                                                       # load route, latest
                   {"op": "solve", "sid": "b", "k": 2},
                   {"op": "new", "solver": "vi", "id": "t", "maxbs": 4, "gamma": "1/2", "eps": "1/1048576", "sid": "c", "f": 0, "n_hint": S},
                   {"op": "load", "sid": "c", "dir": "nocfg", "step": 2},
                   {"op": "load", "sid": "c", "dir": "missing"},                                                     # nothing to load -> ValueError
                   {"op": "shipped", "id": "f", "target": shipped.T["forest"], "kwargs": {"S": 3}},
                   {"op": "new", "solver": "vi", "id": "f", "maxbs": 4, "gamma": "1/2", "eps": "1/1048576", "sid": "e", "f": 1, "m": 1, "dir": "cfgonly", "cfg": 1, "async": 0, "n_hint": 3},
                   {"op": "restore", "sid": "x3", "dir": "cfgonly", "solver": "vi", "id": "f"},                      # config, no checkpoint -> ValueError
                   {"op": "mktmp", "dir": "cfgonly", "name": "7.orbax-checkpoint-tmp-1234"},
                   {"op": "restore", "sid": "x4", "dir": "cfgonly", "solver": "vi", "id": "f"},                      # only an uncommitted tmp dir -> ValueError
                   ]
        err_out = session.run_session(err_ops, 1)
    finally:
        shutil.rmtree(base, ignore_errors=True)
    # ---- error paths and load route vs model
    for (op, m, i, line) in err_out:
        if op["op"] in ("restore", "load", "solve") and m is not None:
            res.evaluations += 1
            dm, di = core.parse_resp(m), core.parse_resp(i)
            res.count(f"{op['op']}:{di.get('error', 'ok')}")
            same = dm.get("error") == di.get("error") if ("error" in dm or "error" in di) else all(dm.get(k) == di.get(k) for k in KEYS + ("policy",))
            if dm.get("error") == "missing-step" and "error" in di:
                same = True      # an explicit step that was never completed (the run converged earlier): the property documents no particular error for it
            if not same:
                res.disagreements.append({"channel": "C10/errors+load", "case": {"op": op}, "model": m[:300], "impl": i[:300],
                                          "failing_input": ("error" in dm) != ("error" in di) or dm.get("error") != di.get("error"),
                                          "what": "documented error / loaded state differs", "key": f"{op['op']}:{op['dir'] if 'dir' in op else ''}"})
            if op["op"] == "restore" and "error" not in di and op["dir"] in ("nocfg", "missing", "cfgonly"):
                res.disagreements.append({"channel": "C10/partly-initialised", "case": {"op": op}, "model": m[:200], "impl": i[:200], "failing_input": True,
                                          "what": "restore returned a solver although the directory has no configuration / no completed checkpoint", "key": "partial-solver"})
    # ---- completeness
    for c, (save_ops, saver, outs) in zip(cases, results):
        held = {}      # step -> parsed state after that call
        cfg0 = None
        k = 0
        for op, r in zip(save_ops, saver):
            if op["op"] == "configdump":
                cfg0 = r
            if op["op"] == "solve":
                k += 1
                held[k] = core.parse_resp(r)
            if op["op"] == "ls":
                ls0 = core.parse_resp(r)
        latest = max(held)
        latest_copy = c["ncalls"]
        for ops, rs in outs:
            ridx = next(i_ for i_, o_ in enumerate(ops) if o_["op"] == "restore")
            rop, rresp = ops[ridx], rs[ridx]
            di = core.parse_resp(rresp)
            if rop.get("_from_copy"):
                res.evaluations += 1
                case = {"solver": c["kind"], "problem": c["pk"], "restore": {k_: v for k_, v in rop.items() if not k_.startswith("_")}, "copied_directory": True,
                        "original_removed": any(o_["op"] == "rmdir" for o_ in ops)}
                stepc = rop.get("step") or latest_copy
                res.nontrivial.add((c["i"], "copy", str(rop), case["original_removed"]))
                res.count("restored-from-copy")
                if "iter" not in di or any(di.get(k_) != held[stepc].get(k_) for k_ in KEYS):
                    res.disagreements.append({"channel": "C10/from-directory-alone", "case": case, "model": str({k_: held[stepc].get(k_) for k_ in ("iter", "values")})[:300], "impl": rresp[:300],
                                              "failing_input": True, "what": f"restore of a copied checkpoint directory does not rebuild the state of its own step {stepc} "
                                              "(the directory alone must determine the result)", "key": "from-directory-alone"})
                continue
            res.evaluations += 1
            case = {"solver": c["kind"], "problem": c["pk"], "restore": {k_: v for k_, v in rop.items()}, "saver_calls": c["ncalls"]}
            if "error" in di or not rresp.startswith("ok"):
                res.disagreements.append({"channel": "C10/restore-failed", "case": case, "model": "", "impl": rresp[:300], "failing_input": True,
                                          "what": "restore of a committed step failed", "key": "restore-failed"})
                continue
            step = rop.get("step") or latest
            want = held[step]
            res.nontrivial.add((c["i"], str(rop)))
            res.count(f"restored:{c['kind']}:{c['pk']}")
            diff = [k_ for k_ in KEYS if di.get(k_) != want.get(k_)]
            if diff:
                res.disagreements.append({"channel": "C10/state", "case": case, "model": str({k_: want.get(k_) for k_ in diff})[:300], "impl": str({k_: di.get(k_) for k_ in diff})[:300],
                                          "failing_input": True, "what": f"restored {diff} differ from what the solver held at step {step}", "key": f"state:{'+'.join(diff)}"})
            # stored policy: what the saver held when the checkpoint of `step` was written = the policy left by the previous call
            held_policy = held[step - 1]["policy"] if step > 1 else ("_" if c["kind"] != "pi" else None)
            if c["kind"] == "pi":
                held_policy = want["policy"]
            if held_policy is not None and di.get("policy") != held_policy:
                key = "policy"
                if c["kind"] != "pi" and di.get("policy") == "_" and held_policy != "_":
                    key = "restore:vi-family-stored-policy-dropped"
                res.disagreements.append({"channel": "C10/stored-policy", "case": case, "model": f"held at save time: {held_policy}", "impl": f"restored: {di.get('policy')}",
                                          "failing_input": True, "what": f"the checkpoint of step {step} stores the policy the solver held ({held_policy}) but the restored solver has policy {di.get('policy')}",
                                          "key": key})
            # configuration equal on every non-overridable field; overrides took effect; period restored
            if rs[ridx + 1] != cfg0:
                res.disagreements.append({"channel": "C10/config", "case": case, "model": (cfg0 or "")[:400], "impl": rs[ridx + 1][:400], "failing_input": True,
                                          "what": "restored configuration / attributes differ from the original", "key": "config"})
            exp_f = 2 if "f" in rop else c["new"]["f"]
            exp_m = 3 if "m" in rop else c["new"]["m"]
            exp_async = rop["async"] if "async" in rop else c["new"]["async"]
            exp_dir = rop.get("newdir", "d")
            got = (di.get("cfg_f"), di.get("cfg_m"), di.get("cfg_async"), di.get("cfg_dir"))
            if got != (str(exp_f), str(exp_m), str(exp_async), exp_dir):
                res.disagreements.append({"channel": "C10/overrides", "case": case, "model": str((exp_f, exp_m, exp_async, exp_dir)), "impl": str(got), "failing_input": True,
                                          "what": "overrides (directory, frequency, retention, async) did not take effect as passed", "key": "overrides"})
            # original directory untouched by a restore into a new directory (before any save of the restored solver)
            ls1 = core.parse_resp(rs[ridx + 2])
            if any(ls1.get(k_) != ls0.get(k_) for k_ in ("steps", "config", "stepvals")):
                res.disagreements.append({"channel": "C10/original-dir", "case": case, "model": str(ls0)[:300], "impl": str(ls1)[:300], "failing_input": True,
                                          "what": "restore altered the original directory", "key": "original-dir"})
            if "newdir" in rop:
                res.count("override:newdir")
            if len(res.samples) < 4:
                res.sample({"case": case, "restored": rresp[:160]})
    return res


def replay(rep, tier, seed):
    return run(tier, rep.get("seed", seed))
