"""C17 — explicit matrices: real build_transition_and_reward_matrices vs Model/Matrices.lean; independent exact solve of the matrices."""
from __future__ import annotations

import random
from fractions import Fraction

from harness import core, gen, oracle, session
from harness.core import frac
from harness.c08 import spec_size

SHIPPED = [
    ("mdpax.problems.forest.Forest", {"S": 3}), ("mdpax.problems.forest.Forest", {"S": 5, "p": 0.25, "r1": 8.0, "r2": 1.0}),
    ("mdpax.problems.perishable_inventory.de_moor_single_product.DeMoorSingleProductPerishable",
     {"max_demand": 6, "max_useful_life": 2, "lead_time": 1, "max_order_quantity": 3}),
    ("mdpax.problems.perishable_inventory.de_moor_single_product.DeMoorSingleProductPerishable",
     {"max_demand": 5, "max_useful_life": 2, "lead_time": 2, "max_order_quantity": 2, "issue_policy": "fifo"}),
]


def matrix_tab(Prows, Rrows, S, A):
    """the matrices as a tabulated MDP with one event per successor"""
    nxt, rew, prob = [], [], []
    for s in range(S):
        for a in range(A):
            for t in range(S):
                nxt.append(t); rew.append(Rrows[s][a]); prob.append(Prows[a * S + s][t])
    return oracle.Tab({"S": S, "A": A, "E": S, "nxt": nxt, "rew": rew, "prob": prob, "sidx": list(range(S)), "zidx": 0, "init": [0] * S})


def run(tier, seed):
    res = core.Result("C17")
    res.rule = ("generated tabular problems (several events per successor, single-event problems, scalar / 1-element-array probabilities), rows "
                "perturbed by more / less than the tolerance, tolerances {0,1e-4,1e-2,0.2}; small shipped problems; matrices compared entrywise "
                "with the model (exact when dyadic), error path by exception class and the (state, action) named; rows-sum-to-one and an exact "
                "independent solve of the matrices vs the functional description. distinct non-trivial = distinct (problem, tolerance) builds")
    rng = random.Random(seed * 17 + 17)
    nprob = 16 if tier == "quick" else 100
    W = 4
    jobs = [([], 1) for _ in range(W)]
    for i in range(nprob):
        E = rng.choice([1, 2, 3, 4, 4])
        spec = gen.gen_spec(rng, smax=8 if tier == "quick" else 16, E=E, kind="random", denom=rng.choice([4, 8]), R=rng.choice([1, 10]))
        S = spec_size(spec)
        pert = rng.choice([None, None, Fraction(1, 16), Fraction(1, 1024), Fraction(-1, 16), Fraction(1, 2 ** 14)])
        if pert is not None:
            s_, a_ = rng.randrange(S), rng.randrange(len(spec["prob"][0]))
            e_ = rng.randrange(E)
            spec["prob"][s_][a_][e_] = float(Fraction(spec["prob"][s_][a_][e_]) + abs(pert) if pert > 0 or Fraction(spec["prob"][s_][a_][e_]) < abs(pert) else Fraction(spec["prob"][s_][a_][e_]) + pert)
            spec["_tags"].append("perturbed-row")
        ops = jobs[i % W][0]
        ops.append({"op": "problem", "id": f"p{i}", "spec": {k: v for k, v in spec.items() if not k.startswith("_")}, "_tags": spec["_tags"]})
        for tol in ["0", "1/10000", "1/100", "1/5"]:
            ops.append({"op": "matrices", "id": f"p{i}", "tol": tol})
    # twins: a second problem instance of the same class with the same array shapes (S, A, E, state dimension) but a different state -> index
    # map, built in the same process right after the first (anything cached per class / per shape between builds must not leak)
    for i in range(3 if tier == "quick" else 12):
        E = rng.choice([2, 3])
        spec = gen.gen_spec(rng, S=rng.choice([6, 8, 12]), A=rng.choice([2, 3]), E=E, kind="random", denom=4, R=10, maxdim=2, zero_in_box=True)
        dims = [b - a + 1 for a, b in zip(spec["smins"], spec["smaxs"])]
        twin = {k: (list(v) if isinstance(v, list) else v) for k, v in spec.items()}
        if len(dims) == 2 and dims[0] != dims[1] and i % 2 == 0:
            # transposed box: same number of rows and columns of the state array, other strides
            twin["smins"] = [spec["smins"][1], spec["smins"][0]]; twin["smaxs"] = [spec["smaxs"][1], spec["smaxs"][0]]
            tag = "twin-transposed"
        else:
            off = rng.choice([1, 2, -3])
            twin["smins"] = [a + off for a in spec["smins"]]; twin["smaxs"] = [b + off for b in spec["smaxs"]]
            tag = "twin-shifted"
        ops = jobs[i % W][0]
        for nm, sp in ((f"tw{i}a", spec), (f"tw{i}b", twin)):
            ops.append({"op": "problem", "id": nm, "spec": {k: v for k, v in sp.items() if not k.startswith("_")}, "_tags": [tag]})
            ops.append({"op": "matrices", "id": nm, "tol": "1/10000"})
    # many random events (counts around and between the powers of two 128, 256: anything that processes events in blocks must handle a last,
    # partial block): small state and action spaces, every event with positive probability
    for j, E_ in enumerate([127, 128, 129, 150, 257, 300] if tier == "quick" else [63, 64, 65, 127, 128, 129, 150, 200, 255, 256, 257, 300, 513]):
        spec = gen.gen_spec(rng, S=rng.choice([2, 3]), A=2, E=E_, kind="random", denom=1024, R=10, edim=1, tiny=False, near_tie=False)
        S_ = len(spec["nxt"])
        for s_ in range(S_):
            for a_ in range(2):
                w = [1] * E_
                for _ in range(1024 - E_):
                    w[rng.randrange(E_)] += 1
                spec["prob"][s_][a_] = [x / 1024 for x in w]
        ops = jobs[j % W][0]
        ops.append({"op": "problem", "id": f"ev{j}", "spec": {k: v for k, v in spec.items() if not k.startswith("_")}, "_tags": [f"many-events"]})
        ops.append({"op": "matrices", "id": f"ev{j}", "tol": "1/10000"})
    HX = "mdpax.problems.perishable_inventory.hendrix_two_product.HendrixTwoProductPerishable"
    hk = {"max_useful_life": 2, "demand_poisson_mean_a": 0.5, "demand_poisson_mean_b": 0.5}
    ops = jobs[0][0]
    for nm, q in (("hxa", (2, 1)), ("hxb", (1, 2))):
        ops.append({"op": "shipped", "id": nm, "target": HX, "kwargs": dict(hk, max_order_quantity_a=q[0], max_order_quantity_b=q[1]), "_tags": ["shipped:Hendrix-twin"]})
        ops.append({"op": "matrices", "id": nm, "tol": "1/5"})
    for j, (target, kw) in enumerate(SHIPPED if tier == "quick" else SHIPPED * 1):
        ops = jobs[j % W][0]
        ops.append({"op": "shipped", "id": f"sh{j}", "target": target, "kwargs": kw, "_tags": ["shipped:" + target.rsplit(".", 1)[1]]})
        ops.append({"op": "matrices", "id": f"sh{j}", "tol": "1/10000"})
    outs = session.run_sessions_parallel(jobs, workers=W)
    for out in outs:
        tabs = {}
        for (op, m, i, line) in out:
            if op["op"] in ("problem", "shipped"):
                if not i.startswith("problem "):
                    raise core.HarnessError("tabulation failed: " + i)
                tabs[op["id"]] = oracle.Tab.from_line(i)
                for tg in op.get("_tags", []):
                    res.count("tag:" + tg)
                continue
            res.evaluations += 1
            t = tabs[op["id"]]
            res.nontrivial.add((op["id"], op["tol"]))
            dm, di = core.parse_resp(m), core.parse_resp(i)
            case = {"op": op, "driver_line": line}
            if ("error" in dm) != ("error" in di):
                # borderline: float deviation vs exact deviation within rounding of the tolerance
                res.disagreements.append({"channel": "C17/error-iff", "case": case, "model": m[:300], "impl": i[:300], "failing_input": True,
                                          "what": "ValueError raised on one side only (deviation vs tolerance)", "key": "error-iff"})
                continue
            if "error" in dm:
                res.count("error-path")
                if (dm["state"], dm["action"]) != (di.get("state"), di.get("action")):
                    res.disagreements.append({"channel": "C17/error-pair", "case": case, "model": m[:300], "impl": i[:300], "failing_input": True,
                                              "what": "the ValueError names a different (state, action) than the first maximal deviation", "key": "error-pair"})
                continue
            res.count("ok-path")
            Pm_ = [core.plist(r) for r in dm["P"].split(";")]; Pi_ = [core.plist(r) for r in di["P"].split(";")]
            Rm_ = [core.plist(r) for r in dm["R"].split(";")]; Ri_ = [core.plist(r) for r in di["R"].split(";")]
            tol = Fraction(1, 10 ** 12)
            exact = (dm["P"], dm["R"]) == (di["P"], di["R"])
            close = len(Pm_) == len(Pi_) and all(len(a) == len(b) and all(abs(x - y) <= tol for x, y in zip(a, b)) for a, b in zip(Pm_ + Rm_, Pi_ + Ri_))
            res.count("entries:" + ("exact" if exact else "within-1e-12" if close else "differ"))
            if not close:
                res.disagreements.append({"channel": "C17/entries", "case": case, "model": m[:400], "impl": i[:400], "failing_input": True,
                                          "what": "P or R entries differ from total event probability / expected reward", "key": "entries"})
                continue
            # rows sum to one (property's own clause) and the matrices describe the same MDP
            for r in Pi_:
                if abs(sum(r) - 1) > tol and sum(r) != 0:
                    res.disagreements.append({"channel": "C17/row-sum", "case": case, "model": "", "impl": str([float(x) for x in r]), "failing_input": True,
                                              "what": "a returned transition row does not sum to one", "key": "row-sum"})
                    break
            if exact and all(sum(r) == 1 for r in Pi_) and t.S <= 8:
                g = Fraction(3, 4)
                W1, _ = oracle.optimal(t, g)
                W2, _ = oracle.optimal(matrix_tab(Pi_, Ri_, t.S, t.A), g)
                res.count("independent-solve")
                raw_one = all(sum(t.prob[t.ix(s, a, e)] for e in range(t.E)) == 1 for s in range(t.S) for a in range(t.A))
                if W1 is not None and W2 is not None and raw_one and W1 != W2:
                    res.disagreements.append({"channel": "C17/same-optimal-values", "case": case, "model": str(W1)[:200], "impl": str(W2)[:200], "failing_input": True,
                                              "what": "solving the matrices gives different optimal values than solving the functions", "key": "optimal-values"})
            if len(res.samples) < 4:
                res.sample({"request": line, "response": m[:200]})
    return res


def replay(rep, tier, seed):
    return run(tier, rep.get("seed", seed))
