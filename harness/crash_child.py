"""Child process of the C11 crash harness: runs a checkpointed solve of the real mdpax with every Python-level filesystem
operation (mkdir / rename / replace / unlink / remove / rmdir) logged, and kills itself with SIGKILL immediately *before*
performing the N-th such operation (N = 0: never).   args: ckpt_dir oplog kill_at async solver K f m"""
import os
import signal
import sys
import threading
import time

ckpt_dir, oplog, kill_at, asyn, kind, K, f, m = sys.argv[1], sys.argv[2], int(sys.argv[3]), int(sys.argv[4]), sys.argv[5], int(sys.argv[6]), int(sys.argv[7]), int(sys.argv[8])
resume = len(sys.argv) > 9 and sys.argv[9] == "resume"      # second stage: rebuild from the directory with restore(), keep checkpointing into it
_fd = os.open(oplog, os.O_WRONLY | os.O_CREAT | os.O_APPEND, 0o644)
_lock = threading.Lock()
_count = [0]
_slow = float(os.environ.get("MDPAXV_SLOW_COMMIT", "0") or 0)


def _full(path, dir_fd):
    p = os.fsdecode(path)
    if dir_fd is not None and not os.path.isabs(p):
        try:
            p = os.path.join(os.readlink(f"/proc/self/fd/{dir_fd}"), p)
        except OSError:
            pass
    return os.path.abspath(p)


def _wrap(name, orig, two=False):
    def w(*a, **kw):
        src = _full(a[0], kw.get("dir_fd", kw.get("src_dir_fd")))
        dst = _full(a[1], kw.get("dst_dir_fd")) if two else ""
        rel = src.startswith(os.path.abspath(ckpt_dir))
        if rel:
            with _lock:
                _count[0] += 1
                n = _count[0]
                os.write(_fd, f"pre {n} {name} {src} {dst}\n".encode())
                os.fsync(_fd)
                if kill_at and n == kill_at:
                    # SIGKILL (hard crash) or SIGINT (Ctrl-C: KeyboardInterrupt raised in the main thread wherever it is, the process unwinds and exits)
                    os.kill(os.getpid(), signal.SIGINT if os.environ.get("MDPAXV_KILL_SIGNAL") == "INT" else signal.SIGKILL)
        if rel and _slow and name in ("rename", "replace") and ".orbax-checkpoint-tmp" in os.path.basename(src):
            time.sleep(_slow)        # slow storage: the commit of a checkpoint takes a while, so later save requests arrive while it is in flight
        r = orig(*a, **kw)
        if rel:
            with _lock:
                os.write(_fd, f"post {n} {name} {src} {dst}\n".encode())
                os.fsync(_fd)
        return r
    return w


for _n, _two in (("mkdir", False), ("rename", True), ("replace", True), ("unlink", False), ("remove", False), ("rmdir", False)):
    setattr(os, _n, _wrap(_n, getattr(os, _n), _two))

import jax  # noqa: E402

jax.config.update("jax_enable_x64", True)
from mdpax.problems.forest import Forest  # noqa: E402
from mdpax.solvers.value_iteration import ValueIteration  # noqa: E402
from mdpax.solvers.relative_value_iteration import RelativeValueIteration  # noqa: E402
from mdpax.solvers.periodic_value_iteration import PeriodicValueIteration  # noqa: E402
from mdpax.solvers.policy_iteration import PolicyIteration  # noqa: E402

cls = {"vi": ValueIteration, "rvi": RelativeValueIteration, "periodic": PeriodicValueIteration, "pi": PolicyIteration}[kind]
if resume:
    s = cls.restore(ckpt_dir)
    os.write(_fd, f"START resumed_at={int(s.iteration)}\n".encode())
    s.solve(K)
    if s.checkpoint_manager is not None:
        s.checkpoint_manager.wait_until_finished()
    os.write(_fd, f"DONE {int(s.iteration)}\n".encode())
    sys.exit(0)
kw = dict(gamma=0.5, epsilon=1e-13, checkpoint_dir=ckpt_dir, checkpoint_frequency=f, max_checkpoints=m, enable_async_checkpointing=bool(asyn), verbose=0)
prob = Forest(S=5, p=0.125, r1=6.0, r2=3.0)
if kind == "vi":
    s = ValueIteration(prob, **kw)
elif kind == "rvi":
    kw["gamma"] = 1.0
    s = RelativeValueIteration(prob, **kw)
elif kind == "periodic":
    kw["gamma"] = 1.0
    s = PeriodicValueIteration(prob, period=2, clear_value_history_on_convergence=False, **kw)
else:
    kw["epsilon"] = 1e-3
    s = PolicyIteration(prob, max_eval_iter=3, **kw)
os.write(_fd, b"START\n")
s.solve(K)
if s.checkpoint_manager is not None:
    s.checkpoint_manager.wait_until_finished()
os.write(_fd, f"DONE {int(s.iteration)}\n".encode())
