"""Independent reference tables for C16, computed with mpmath (50 digits) from the *documented* parameters.
Run by python3-vt:  python3-vt harness/ref_special.py in.json out.json
Nothing here imports jax / numpyro / scipy."""
import json
import sys

import mpmath as mp

mp.mp.dps = 50


def gamma_cdf(x, mean, cov):
    # documented: gamma demand with the given mean and coefficient of variation: shape k = 1/cv^2, scale = mean*cv^2
    k = 1 / mp.mpf(cov) ** 2
    theta = mp.mpf(mean) * mp.mpf(cov) ** 2
    return mp.gammainc(k, 0, mp.mpf(x) / theta, regularized=True) if x > 0 else mp.mpf(0)


def negbin_pmf(d, n, delta):
    # documented: negative binomial with (real) size n and mean delta: success probability n/(n+delta)
    n, delta = mp.mpf(n), mp.mpf(delta)
    p = n / (n + delta)
    return mp.gamma(d + n) / (mp.gamma(n) * mp.factorial(d)) * p ** n * (1 - p) ** d


def poisson_pmf(k, mu):
    return mp.e ** (-mp.mpf(mu)) * mp.mpf(mu) ** k / mp.factorial(k)


def binom_pmf(u, n, rho):
    if u > n:
        return mp.mpf(0)
    return mp.binomial(n, u) * mp.mpf(rho) ** u * (1 - mp.mpf(rho)) ** (n - u) if not (rho in (0, 0.0) and u == 0) else mp.mpf(1)


def do(job):
    k = job["kind"]
    if k == "demoor":
        D = job["max_demand"]
        pts = [0] + [d + 0.5 for d in range(D + 1)]
        return {"cdf": [float(gamma_cdf(x, job["mean"], job["cov"])) for x in pts]}
    if k == "mirjalili":
        D, m = job["max_demand"], job["m"]
        out = {"nb": {}, "cat": {}}
        for w in job["weekdays"]:
            out["nb"][str(w)] = [float(negbin_pmf(d, job["n"][w], job["delta"][w])) for d in range(D + 1)]
        for a in range(job["Q"] + 1):
            # documented: remaining useful life 1 has logit 0, life k >= 2 has logit c0[k-2] + c1[k-2]*a; the stock/received
            # vector lists the newest units (life m) first and the oldest (life 1) last
            logit_by_life = {1: mp.mpf(0)}
            for life in range(2, m + 1):
                logit_by_life[life] = mp.mpf(job["c0"][life - 2]) + mp.mpf(job["c1"][life - 2]) * a
            ex = [mp.e ** logit_by_life[m - j] for j in range(m)]
            tot = sum(ex)
            out["cat"][str(a)] = [float(x / tot) for x in ex]
        return out
    if k == "hendrix":
        m, qa, qb = job["m"], job["Qa"], job["Qb"]
        D = m * (max(qa, qb) + 2)
        mua, mub, rho = job["mu_a"], job["mu_b"], job["rho"]
        pa = [poisson_pmf(i, mua) for i in range(D + 1)]
        pb = [poisson_pmf(i, mub) for i in range(D + 1)]
        tail_a = lambda s: 1 - sum(pa[:s]) if s > 0 else mp.mpf(1)
        res = {}
        for (sa, sb) in job["stocks"]:
            T = [[mp.mpf(0)] * (qb * m + 1) for _ in range(qa * m + 1)]
            # demand for B below stock: no substitution
            for ib in range(min(sb, qb * m + 1)):
                for ia in range(sa):
                    T[ia][ib] += pa[ia] * pb[ib]
                T[sa][ib] += tail_a(sa) * pb[ib]
            # demand for B at or above stock: unmet demand dB - sb, of which u ~ Binomial(., rho) is requested from A (truncation: dB < D, dA + u <= D)
            for dB in range(sb, D):
                unmet = dB - sb
                for u in range(unmet + 1):
                    pu = pb[dB] * binom_pmf(u, unmet, rho)
                    if pu == 0:
                        continue
                    for dA in range(D + 1 - u):
                        z = dA + u
                        T[min(z, sa)][sb] += pa[dA] * pu
            res[f"{sa},{sb}"] = [[float(x) for x in row] for row in T]
        return {"tables": res, "D": D}
    raise ValueError(k)


if __name__ == "__main__":
    jobs = json.load(open(sys.argv[1]))
    json.dump([do(j) for j in jobs], open(sys.argv[2], "w"))
