"""Shared machinery of the checks: Lean build + audit, model driver, evidence / replay writers,
known findings, comparison of canonical response lines."""
from __future__ import annotations

import json
import os
import random
import re
import shutil
import subprocess
import sys
import tempfile
import time
from fractions import Fraction
from pathlib import Path

VERIF = Path(__file__).resolve().parent.parent
LEAN = VERIF / "lean"
REPO = Path(os.environ.get("MDPAX_REPO", "/repo"))
PY = os.environ.get("MDPAX_PY", "/venv/bin/python")
GUARD = "MDPAX_VERIF"
ALLOWED_AXIOMS = {"propext", "Classical.choice", "Quot.sound"}
FORBIDDEN = re.compile(r"\bsorry\b|\badmit\b|^axiom\s|native_decide|bv_decide|implemented_by|\bunsafe\s|maxHeartbeats\s+0")

# properties with a tie by translation: (part of harness/translate.py to regenerate, leaf Lean module holding the "translated code = model" theorems).
# The leaf modules are imported by nothing, so a change of the translated source can only affect the property it belongs to.
TRANSLATED = {"C18": ("Batch", "C18Gen"), "C20": ("Config", "C20Gen")}

TRUSTED_BASE = [
    "Lean 4.33.0 kernel (leanchecker re-check in the thorough tier); Mathlib v4.33.0 as checked library",
    "axioms of every property theorem ⊆ {propext, Classical.choice, Quot.sound}; no sorry/admit/native_decide/bv_decide/own axioms (grep + #print axioms audit on every run)",
    "Lean evaluator running MdpaxV/Model at Rat in Driver.lean",
    "hand-written model (MdpaxV/Model/*.lean) tied to /repo by this correspondence harness (harness/*.py): behaviours no generated input exercises are not tied",
    "harness/translate.py (Python AST -> Lean for BatchProcessor.__init__ and get_convergence_format; `//` as Int.fdiv, min/max, if/else): trusted to render the Python faithfully",
    "modelled, not verified: float64 as an ordered field (rounding/inf/NaN/int32 wrap outside), XLA vmap/scan/pmap as map/fold/map, JAX gather clamping and argmax=first maximum, Orbax/OS/Hydra/OmegaConf internals, special functions",
]


def env_for_impl(devices: int = 1) -> dict:
    e = dict(os.environ)
    e[GUARD] = "1"
    e["JAX_PLATFORMS"] = "cpu"
    e["XLA_FLAGS"] = f"--xla_force_host_platform_device_count={devices}"
    e["PYTHONPATH"] = f"{VERIF}:{REPO / 'src'}" + (":" + e["PYTHONPATH"] if e.get("PYTHONPATH") else "")
    e["JAX_ENABLE_X64"] = "1"
    e.setdefault("TF_CPP_MIN_LOG_LEVEL", "3")
    return e


# ----------------------------------------------------------------------------- Lean side

class LeanAudit:
    def __init__(self, prop: str):
        self.prop = prop
        self.obligations: list[str] = []
        self.discharged: list[str] = []
        self.failed: list[str] = []
        self.cmds: list[str] = []
        self.log = ""
        self.ok = False

    def run(self, thorough: bool = False):
        # checks may run concurrently: serialise everything that can write build products (translator output, lake build) and the audit that
        # reads them, so that no process ever sees a half-written .olean of another one
        import fcntl
        (LEAN / ".lake").mkdir(exist_ok=True)
        with open(LEAN / ".lake" / "verif-audit.lock", "w") as lk:
            fcntl.flock(lk, fcntl.LOCK_EX)
            try:
                return self._run(thorough)
            finally:
                fcntl.flock(lk, fcntl.LOCK_UN)

    def _run(self, thorough: bool = False):
        mod = f"MdpaxV.Props.{self.prop}"
        src = LEAN / "MdpaxV" / "Props" / f"{self.prop}.lean"
        text = src.read_text()
        self.obligations = re.findall(r"^theorem\s+(\S+)", text, flags=re.M)
        qualified = {t: f"MdpaxV.{self.prop}.{t}" for t in self.obligations}
        mods = [mod]
        if self.prop in TRANSLATED:
            leaf = TRANSLATED[self.prop][1]
            extra = re.findall(r"^theorem\s+(\S+)", (LEAN / "MdpaxV" / "Props" / f"{leaf}.lean").read_text(), flags=re.M)
            self.obligations += extra
            qualified.update({t: f"MdpaxV.{leaf}.{t}" for t in extra})
            mods.append(f"MdpaxV.Props.{leaf}")
        # tie by translation (C18, C20): regenerate MdpaxV/Gen/Code.lean from /repo's source before building; the theorems of
        # Theory/GenTie.lean (restated in the property files) then re-prove "translated code = model" against what the code says now
        self.translator = None
        if self.prop in TRANSLATED:
            from harness import translate
            try:
                changed, _ = translate.generate(TRANSLATED[self.prop][0])
                self.translator = "regenerated-changed" if changed else "regenerated-identical"
                self.cmds.append(f"python3 harness/translate.py  (MdpaxV/Gen/{TRANSLATED[self.prop][0]}.lean from /repo's Python source)")
            except translate.Untranslatable as e:
                self.translator = f"untranslatable: {e}"
                self.log += f"translator: {e}\n"
                self.failed = list(self.obligations)
                self.axioms = {}
                self.forbidden_hits = []
                self.ok = False
                return self
        cmd = ["lake", "build", "MdpaxV"] + mods      # the library root = every model module the driver imports
        self.cmds.append("cd lean && " + " ".join(cmd))
        p = subprocess.run(cmd, cwd=LEAN, capture_output=True, text=True)
        self.log = p.stdout + p.stderr
        build_ok = p.returncode == 0
        axioms = {}
        if build_ok:
            # independent axiom audit of *every* theorem of the property file
            with tempfile.TemporaryDirectory(prefix="mdpaxv_ax_") as td:
                f = Path(td) / "Axioms.lean"
                f.write_text("".join(f"import {m_}\n" for m_ in mods) + "".join(f"#print axioms {qualified[t]}\n" for t in self.obligations))
                cmd2 = ["lake", "env", "lean", str(f)]
                self.cmds.append("cd lean && lake env lean <#print axioms for every theorem of Props/%s.lean>" % self.prop)
                p2 = subprocess.run(cmd2, cwd=LEAN, capture_output=True, text=True)
                self.log += p2.stdout + p2.stderr
                txt = (p2.stdout + p2.stderr).replace("\n  ", " ").replace("\n ", " ")
            for m in re.finditer(r"'MdpaxV\.\w+\.(\S+)' depends on axioms:\s*\[([^\]]*)\]", txt):
                axioms[m.group(1)] = {a.strip() for a in m.group(2).split(",") if a.strip()}
            for m in re.finditer(r"'MdpaxV\.\w+\.(\S+)' does not depend on any axioms", txt):
                axioms[m.group(1)] = set()
        self.axioms = {k: sorted(v) for k, v in axioms.items()}
        # forbidden constructs anywhere in the library (outside comments)
        bad = []
        for f in list((LEAN / "MdpaxV").rglob("*.lean")) + [LEAN / "Driver.lean"]:
            bad += [f"{f.relative_to(LEAN)}:{i+1}" for i, l in enumerate(strip_comments(f.read_text()).splitlines()) if FORBIDDEN.search(l)]
        self.forbidden_hits = bad
        for t in self.obligations:
            if build_ok and t in axioms and axioms[t] <= ALLOWED_AXIOMS and not bad:
                self.discharged.append(t)
            else:
                self.failed.append(t)
        if thorough and build_ok:
            cmd2 = ["lake", "env", "leanchecker"] + mods
            self.cmds.append("cd lean && " + " ".join(cmd2))
            p2 = subprocess.run(cmd2, cwd=LEAN, capture_output=True, text=True)
            self.log += p2.stdout + p2.stderr
            if p2.returncode != 0:
                self.failed = list(self.obligations)
                self.discharged = []
        self.ok = build_ok and not self.failed and bool(self.obligations)
        return self


def strip_comments(s: str) -> str:
    s = re.sub(r"/-.*?-/", lambda m: "\n" * m.group(0).count("\n"), s, flags=re.S)
    return re.sub(r"--.*", "", s)


def run_driver(lines: list[str], timeout: int = 1800) -> list[str]:
    """Pipe request lines to the Lean model driver; one response line per request."""
    if not lines:
        return []
    p = subprocess.run(["lake", "env", "lean", "--run", "Driver.lean"], cwd=LEAN, input="\n".join(lines) + "\n",
                       capture_output=True, text=True, timeout=timeout)
    out = p.stdout.split("\n")
    if out and out[-1] == "":
        out.pop()
    if p.returncode != 0 or len(out) != len(lines):
        raise HarnessError(f"driver failed rc={p.returncode} got {len(out)} lines for {len(lines)} requests\n{p.stderr[-2000:]}\n{out[-3:]}")
    return out


class HarnessError(Exception):
    pass


# ----------------------------------------------------------------------------- impl side (subprocess per device count)

def run_impl(ops: list[dict], devices: int = 1, timeout: int = 3600) -> list[dict]:
    """Execute ops against the real mdpax in a fresh interpreter with `devices` emulated host devices."""
    if not ops:
        return []
    with tempfile.TemporaryDirectory(prefix="mdpaxv_") as td:
        fin, fout = Path(td) / "in.json", Path(td) / "out.json"
        fin.write_text(json.dumps(ops))
        p = subprocess.run([PY, "-m", "harness.impl_worker", str(fin), str(fout)], cwd=VERIF, env=env_for_impl(devices),
                           capture_output=True, text=True, timeout=timeout)
        if p.returncode != 0 or not fout.exists():
            raise HarnessError(f"impl worker failed rc={p.returncode}\n{p.stderr[-4000:]}")
        return json.loads(fout.read_text())


def run_impl_parallel(jobs: list[tuple[list[dict], int]], workers: int = 8) -> list[list[dict]]:
    from concurrent.futures import ThreadPoolExecutor
    with ThreadPoolExecutor(max_workers=workers) as ex:
        futs = [ex.submit(run_impl, ops, dev) for ops, dev in jobs]
        return [f.result() for f in futs]


# ----------------------------------------------------------------------------- canonical values

def frac(x) -> str:
    f = Fraction(x)
    return str(f.numerator) if f.denominator == 1 else f"{f.numerator}/{f.denominator}"


def flist(xs, f=str) -> str:
    xs = list(xs)
    return ",".join(f(x) for x in xs) if xs else "-"


def parse_resp(line: str) -> dict:
    d = {}
    for tok in line.strip().split(" "):
        if "=" in tok:
            k, v = tok.split("=", 1)
            d[k] = v
    return d


def plist(s: str, f=Fraction):
    if s in ("-", ""):
        return []
    return [f(x) for x in s.split(",")]


def bitlen(fr: Fraction) -> int:
    """bits needed to hold the dyadic rational exactly (numerator bits); 10**6 if not dyadic"""
    d = fr.denominator
    if d & (d - 1):
        return 10 ** 6
    return abs(fr.numerator).bit_length()


# ----------------------------------------------------------------------------- results, evidence, verdict

class Result:
    def __init__(self, prop: str):
        self.prop = prop
        self.evaluations = 0
        self.nontrivial: set = set()
        self.rule = ""
        self.samples: list = []
        self.disagreements: list[dict] = []   # each: {channel, case, model, impl, failing_input(bool), what, key}
        self.ambiguous = 0
        self.hist: dict = {}
        self.exhaustive = False
        self.notes: list[str] = []

    def count(self, name: str, k: int = 1):
        self.hist[name] = self.hist.get(name, 0) + k

    def sample(self, s, cap: int = 6):
        if len(self.samples) < cap:
            self.samples.append(s)


def load_known() -> list[dict]:
    p = VERIF / "known_findings.json"
    if not p.exists():
        return []
    return [e for e in json.loads(p.read_text()) if "property" in e and "key" in e]


def finish(prop: str, tier: str, seed: int, audit: LeanAudit, res: Result, t0: float, level_text: str = "") -> int:
    """Write evidence, print verdict lines, return exit code."""
    known = [k for k in load_known() if k["property"] == prop]
    violations = []
    known_hit = []
    for d in res.disagreements:
        k = next((k for k in known if k["key"] == d.get("key")), None)
        if k is not None and d.get("failing_input"):
            if k["key"] not in [x["key"] for x in known_hit]:
                known_hit.append(k)
        else:
            violations.append(d)
    if not audit.ok:
        violations.append({"channel": "lean-build/audit", "failing_input": False,
                           "what": f"theorems not discharged: {audit.failed or audit.obligations}; forbidden: {getattr(audit, 'forbidden_hits', [])}",
                           "log_tail": audit.log[-3000:]})
    for k in known_hit:
        print(f"KNOWN-FINDING: property={prop} {k['what']}")
    rc = 0
    if violations:
        rdir = Path(os.environ.get("VERIF_REPLAY_DIR", VERIF / "replays")) / prop
        rdir.mkdir(parents=True, exist_ok=True)
        # one replay file per run; the first violation with a failing input leads
        violations.sort(key=lambda d: not d.get("failing_input"))
        path = rdir / f"{tier}_{seed}.json"
        path.write_text(json.dumps({"property": prop, "tier": tier, "seed": seed,
                                    "replay_cmd": f"./check {prop} --replay {path}",
                                    "violations": violations[:20]}, indent=1, default=str))
        lead = violations[0]
        suffix = "" if lead.get("failing_input") else " no-failing-input-found"
        print(f"VIOLATION property={prop} replay={path}{suffix}")
        rc = 1
    ev = {
        "property_id": prop, "tier": tier, "seed": seed, "level": "proof",
        "coverage": {
            "obligations": len(audit.obligations), "discharged": len(audit.discharged),
            "checker_cmd": " ; ".join(audit.cmds), "trusted_base": TRUSTED_BASE,
            "theorems": audit.obligations,
            "evaluations": res.evaluations, "distinct_nontrivial": len(res.nontrivial), "rule": res.rule,
            "samples": res.samples or ["(none)"], "ambiguous": res.ambiguous, "histogram": res.hist,
            "translator": getattr(audit, "translator", None),
            "exhaustive": res.exhaustive, "known_findings_hit": [k["key"] for k in known_hit],
            "disagreements": len(res.disagreements), "notes": res.notes,
        },
        "assumptions": TRUSTED_BASE,
        "wall_s": round(time.time() - t0, 2),
        "violations": len(violations),
    }
    # seeded-change evaluations (harness/seedtest.py) redirect evidence so that the committed files always describe /repo itself
    evdir = Path(os.environ.get("VERIF_EVIDENCE_DIR", VERIF / "evidence"))
    evdir.mkdir(parents=True, exist_ok=True)
    (evdir / f"{prop}.json").write_text(json.dumps(ev, indent=1, default=str))
    return rc
