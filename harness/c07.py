"""C07 — periodic value iteration: real PeriodicValueIteration vs the model loop (values, policy, iteration, value_history,
history_index), twin plain VI (values must be the VI iterates), and the undiscounted gain bracket with verified certificates."""
from __future__ import annotations

import random
from fractions import Fraction

from harness import core, gen, oracle, session
from harness.core import frac, flist
from harness.c08 import spec_size, compare_state


def run(tier, seed):
    res = core.Result("C07")
    res.rule = ("periods 1..7, gamma in {1/2,3/4,9/10,1}, generated MDPs incl. chains periodic with exactly the solver's period, runs that wrap the "
                "circular buffer >= 5 times, history clearing on/off, solve() again after convergence (TypeError branch when cleared); each run has a "
                "plain-VI twin with the same sweep count; gamma=1 converged runs are checked against a driver-verified optimal gain: every component "
                "of (V_n - V_{n-p})/p within eps/p. distinct non-trivial = distinct (problem, period, gamma, eps, k-sequence) solve calls")
    rng = random.Random(seed * 70001 + 7)
    ncase = 24 if tier == "quick" else 160
    W = 6
    devs = [1, 1, 1, 1, 2, 3]
    jobs = [([], devs[w]) for w in range(W)]
    for i in range(ncase):
        # 131071/131072 = 1 - 2^-17: a discount factor that an approximate comparison with 1 would treat as undiscounted
        g = rng.choice(["1", "1", "1/2", "3/4", "9/10"]) if i % 6 != 1 else "131071/131072"
        period = rng.randint(2, 7) if g == "1" else rng.randint(1, 7)
        if i in (2, 3):
            # forced: the smallest period with a discount factor below one (the documented measure still divides by gamma^(n-1))
            g, period = ("1/2", "3/4")[i - 2], 1
        kind = rng.choice(["periodic", "unichain", "unichain", "random"])
        S = rng.randint(max(2, period if kind == "periodic" else 2), 10 if tier == "quick" else 20)
        spec = gen.gen_spec(rng, S=S, kind=kind, denom=rng.choice([2, 4]), R=rng.choice([1, 5]), init=(i % 4 == 0))
        if kind == "periodic":
            # make the chain periodic with exactly the solver's period where the state count allows it
            pp = min(period, S)
            for s in range(S):
                for a in range(len(spec["nxt"][s])):
                    for e in range(len(spec["nxt"][s][a])):
                        cands = [t for t in range(S) if t % pp == (s + 1) % pp]
                        spec["nxt"][s][a][e] = rng.choice(cands)
            spec["_tags"] = [t for t in spec["_tags"] if not t.startswith("periodic")] + [f"chain-period={pp}", f"solver-period={period}"]
        new = {"op": "new", "solver": "periodic", "id": f"p{i}", "maxbs": rng.choice(gen.layouts_for(S)), "gamma": g, "period": period,
               "eps": rng.choice(["1/2", "1/16", "1/1024", "4"]), "clear": rng.randint(0, 1), "sid": f"s{i}", "n_hint": S}
        ks = rng.choice([[5 * (period + 1) + 3], [period, 1, 2 * period + 3, 40], [1, 1, 1, period + 1], [200]])
        if g == "131071/131072":
            new["eps"] = "1/1048576"                   # many logged decimals; the undiscounted and the documented measure differ by about n(1-gamma) relative
            ks = [period, 1, 1, 2, 30]                 # measures compared while they are still large (right after the first full period)
        elif g != "1":
            # the discounted measure divides by gamma^(iteration-1): float rounding is amplified by gamma^-(n-1); keep such runs short enough
            # for the decision to be determined by exact arithmetic (the amplified float noise stays far below every eps used)
            ks = rng.choice([[min(5 * (period + 1) + 3, 22)], [period, 1, min(2 * period + 3, 12)], [1, 1, 1, period + 1]])
        if i in (2, 3):
            new["eps"] = "1/1024"
            ks = [1, 1, 1, 1, 1, 1, 2, 2, 8]          # one sweep per call at first: every decision and every logged measure is compared
        ops = jobs[i % W][0]
        ops.append({"op": "problem", "id": f"p{i}", "spec": {k: v for k, v in spec.items() if not k.startswith("_")}, "_tags": spec["_tags"]})
        ops.append(new)
        for k in ks:
            ops.append({"op": "solve", "sid": new["sid"], "k": k, "_ks": ks})
        # plain VI twin, tolerance tiny so that it never stops early; same total number of sweeps as the periodic run (filled in later)
        ops.append({"op": "new", "solver": "vi", "id": f"p{i}", "maxbs": new["maxbs"], "gamma": g, "eps": "1/1000000000000", "test": "span", "sid": f"v{i}", "n_hint": S, "_twin_of": new["sid"]})
        for k in ks:
            ops.append({"op": "solve", "sid": f"v{i}", "k": k, "_twin_of": new["sid"]})
    outs = session.run_sessions_parallel([j for j in jobs if j[0]], workers=W)
    cert_lines, cert_meta = [], []
    for (ops, d), out in zip([j for j in jobs if j[0]], outs):
        tabs, plines, news, total, per_hist, vi_hist, tags = {}, {}, {}, {}, {}, {}, {}
        for (op, m, i, line) in out:
            o = op["op"]
            if o == "problem":
                tabs[op["id"]] = oracle.Tab.from_line(i); plines[op["id"]] = i; tags[op["id"]] = op.get("_tags", [])
                for tg in op.get("_tags", []):
                    res.count("tag:" + tg)
                continue
            if o == "new":
                news[op["sid"]] = op; total[op["sid"]] = 0
                continue
            if o != "solve":
                continue
            new = news[op["sid"]]
            t = tabs[new["id"]]
            di, dm = core.parse_resp(i), core.parse_resp(m or "")
            case = {"new": {k: v for k, v in new.items() if not k.startswith("_")}, "k": op["k"], "ks": op.get("_ks"), "devices": d,
                    "problem_line": plines[new["id"]], "tags": tags[new["id"]], "driver_line": line}
            if new["solver"] == "vi":
                if "iter" in di:
                    vi_hist.setdefault(op["sid"], {})[int(di["iter"])] = (di["values"], di["conv"])
                continue
            res.evaluations += 1
            if "error" in di or "error" in dm:
                res.count("error-branch:" + di.get("error", "-"))
                if di.get("error") != dm.get("error"):
                    res.disagreements.append({"channel": "C07/error-branch", "case": case, "model": (m or "")[:200], "impl": i[:200], "failing_input": False,
                                              "what": "second solve after convergence: model and implementation disagree on the error", "key": "error-branch"})
                continue
            before = total[op["sid"]]
            total[op["sid"]] = int(di["iter"])
            res.nontrivial.add((new["id"], new["period"], new["gamma"], new["eps"], tuple(op["_ks"]), before))
            res.count("conv=" + di["conv"]); res.count(f"gamma={new['gamma']}"); res.count(f"period={new['period']}")
            if int(di["iter"]) >= 5 * (new["period"] + 1):
                res.count("wrapped>=5x")
            for key, fail in compare_state(res, op, new, t, m, i, line, d, int(di["iter"])):
                res.disagreements.append({"channel": f"C07/periodic/{key}", "case": case, "model": m[:500], "impl": i[:500], "failing_input": fail,
                                          "what": f"{key} differs from the reference periodic value iteration", "key": f"periodic:{key}"})
            # never before a full period
            if di["conv"] == "true" and int(di["iter"]) < new["period"]:
                res.disagreements.append({"channel": "C07/before-period", "case": case, "model": m[:200], "impl": i[:200], "failing_input": True,
                                          "what": f"convergence declared at iteration {di['iter']} < period {new['period']}", "key": "before-period"})
            per_hist[op["sid"]] = (di, new, case)
            # gamma = 1 gain bracket at convergence
            if di["conv"] == "true" and new["gamma"] == "1" and di["hist"] != "_":
                og = oracle.optimal_gain(t)
                if og is not None:
                    g_, h_, pol_ = og
                    gb = oracle.gain_bias(t, pol_)
                    rows = [core.plist(r) for r in di["hist"].split(";")]
                    hidx, p = int(di["hidx"]), new["period"]
                    cur, prev = rows[hidx], rows[(hidx + 1) % (p + 1)]
                    cert_lines.append(plines[new["id"]]); cert_meta.append(None)
                    cert_lines.append(f"certavg id={new['id']} g={frac(g_)} h={flist(h_, frac)} gd={frac(gb[0])} hd={flist(gb[1], frac)} pol={flist(pol_)} V={di['values']} gain=0")
                    cert_meta.append((case, new, g_, cur, prev))
        # twins: values of the periodic run equal the plain VI iterate of the same iteration number
        for sid, (di, new, case) in per_hist.items():
            tw = vi_hist.get("v" + sid[1:], {})
            n = int(di["iter"])
            if n in tw:
                res.count("vi-twin-compared")
                if tw[n][0] != di["values"]:
                    res.disagreements.append({"channel": "C07/values-are-vi-iterates", "case": case, "model": tw[n][0][:300], "impl": di["values"][:300], "failing_input": True,
                                              "what": f"periodic values after {n} sweeps differ from plain value iteration after {n} sweeps", "key": "not-vi-iterates"})
                if di["conv"] == "true" and any(t_.startswith("chain-period=") for t_ in case["tags"]) and tw[n][1] != "true":
                    res.count("periodic-chain:periodic-converged,plain-vi-not")
    model = core.run_driver(cert_lines)
    for m, mt in zip(model, cert_meta):
        if mt is None:
            continue
        case, new, g_, cur, prev = mt
        dm = core.parse_resp(m)
        if dm.get("optok") != "true":
            res.count("gain-certificate-rejected(multichain?)")
            continue
        p, eps = new["period"], Fraction(new["eps"])
        res.count("gain-bracket-certified")
        worst = max(abs((a - b) / p - g_) for a, b in zip(cur, prev))
        if not worst < eps / p:
            res.disagreements.append({"channel": "C07/gain-bracket", "case": case, "model": m, "impl": f"worst={float(worst)} bound={float(eps / p)}", "failing_input": True,
                                      "what": f"a component of (V_n - V_(n-p))/p is {float(worst):.6g} from the optimal gain, bound eps/p = {float(eps / p):.6g}", "key": "gain-bracket"})
    return res


def replay(rep, tier, seed):
    return run(tier, rep.get("seed", seed))
