"""C05 — policy evaluation and policy-iteration termination: injected policies/values on the real PolicyIteration vs the model."""
from __future__ import annotations

import random
from fractions import Fraction

from harness import core, gen, oracle, session
from harness.core import frac, flist
from harness.c08 import spec_size, compare_state


def build(tier, seed):
    rng = random.Random(seed * 523 + 5)
    nprob = 10 if tier == "quick" else 60
    W = 6
    devs = [1, 1, 1, 1, 2, 3]
    jobs = [([], devs[w]) for w in range(W)]
    for i in range(nprob):
        A = rng.choice([2, 3, 4, 4, 6])
        # i % 3 == 1: the problem supplies non-zero initial value estimates but no initial policy — the first policy must still maximise the
        # immediate expected reward (not reward + gamma * initial estimate of the successor)
        spec = gen.gen_spec(rng, smax=9 if tier == "quick" else 20, A=A, kind=rng.choice(["random", "unichain"]), denom=4, R=rng.choice([1, 5, 10]),
                            adim=2, initpol=(i % 3 == 0), init=(True if i % 3 == 1 else None))
        if i % 3 == 0:
            spec["via"] = ["variant", "mixin", "own", "variant"][(i // 3) % 4]      # the supplied initial policy reaches the solver through an inherited / mixed-in method
        if i % 3 == 1 and spec.get("init"):
            spec["init"] = [4.0 * v for v in spec["init"]]      # large against the rewards, so that it would change the one-step greedy choice
        S = spec_size(spec)
        ops = jobs[i % W][0]
        pid = f"p{i}"
        ops.append({"op": "problem", "id": pid, "spec": {k: v for k, v in spec.items() if not k.startswith("_")}, "_tags": spec["_tags"]})
        mbs = rng.sample(gen.layouts_for(S), 2)
        for mb in mbs:
            for _ in range(3 if tier == "quick" else 6):
                pol = [rng.randrange(A) for _ in range(S)]
                V = gen.rand_values(rng, S, R=8, denom=rng.choice([1, 2]))
                g = rng.choice(["1/2", "3/4", "1"])
                ops.append({"op": "evalsweep", "id": pid, "maxbs": mb, "gamma": g, "V": [frac(v) for v in V], "pol": pol})
            for _ in range(3 if tier == "quick" else 6):
                pol = [rng.randrange(A) for _ in range(S)]
                V = gen.rand_values(rng, S, R=8, denom=1)
                ops.append({"op": "evaluate", "id": pid, "maxbs": mb, "gamma": rng.choice(["1/2", "1/2", "3/4"]), "eps": rng.choice(["1/2", "1/16", "4", "1/1024"]),
                            "test": rng.choice(["span", "max_diff"]), "budget": rng.choice([1, 2, 5, 12, 100]), "V": [frac(v) for v in V], "pol": pol})
        # policy-iteration steps from injected policies (stop iff nothing changed, greedy result, first policy)
        for j in range(2 if tier == "quick" else 4):
            new = {"op": "new", "solver": "pi", "id": pid, "maxbs": rng.choice(mbs), "gamma": "1/2", "eps": rng.choice(["1/16", "1/1024"]),
                   "test": rng.choice(["span", "max_diff"]), "budget": rng.choice([2, 5, 100]), "reset": rng.randint(0, 1), "sid": f"s{i}_{j}", "n_hint": S}
            ops.append(new)
            if j % 2 == 1:
                ops.append({"op": "setpolicy", "sid": new["sid"], "pol": [rng.randrange(A) for _ in range(S)]})
                ops.append({"op": "setvalues", "sid": new["sid"], "V": [frac(v) for v in gen.rand_values(rng, S, R=4, denom=1)]})
            for k in [1, 1, 3, 20]:
                ops.append({"op": "solve", "sid": new["sid"], "k": k, "_new": new})
    # forced family: a problem-supplied initial policy that passes its evaluation test on the very first sweep from the (zero) initial values —
    # the same expected immediate reward in every state under the span test, zero reward under max_diff.  The evaluation hands the initial
    # values back unchanged, the policy is not greedy for them, so the improvement step must change it and the solver must go on.
    for j, (test, fee) in enumerate([("span", 1.5), ("max_diff", 0.0), ("span", -2.0), ("max_diff", 0.0)][: 2 if tier == "quick" else 4] * (1 if tier == "quick" else 2)):
        spec = gen.gen_spec(rng, smax=8, S=rng.randint(3, 8), A=rng.choice([2, 3, 4]), kind="random", denom=4, R=5, adim=2, initpol=True, init=False, near_tie=False)
        spec = gen.flat_initial_policy(spec, rng, fee)
        S = spec_size(spec)
        ops = jobs[j % W][0]
        pid = f"flat{j}"
        ops.append({"op": "problem", "id": pid, "spec": {k: v for k, v in spec.items() if not k.startswith("_")}, "_tags": spec["_tags"]})
        for r in (0, 1):
            new = {"op": "new", "solver": "pi", "id": pid, "maxbs": rng.choice(gen.layouts_for(S)), "gamma": "1/2", "eps": "1/16",
                   "test": test, "budget": rng.choice([5, 100]), "reset": r, "sid": f"sflat{j}_{r}", "n_hint": S}
            ops.append(new)
            for k in [1, 1, 20]:
                ops.append({"op": "solve", "sid": new["sid"], "k": k, "_new": new})
    return [j for j in jobs if j[0]]


def run(tier, seed):
    res = core.Result("C05")
    res.rule = ("injected random policies and value vectors (2-dim action vectors, problems with/without initial_policy): evaluation sweep, "
                "_evaluate_policy (both tests, budgets 1..100, converging and exhausting), PI steps from injected policies, solve to stability; "
                "converged max_diff evaluations additionally checked against the exact policy value (certificate verified by the driver). "
                "distinct non-trivial = distinct (problem, layout, op, policy, values) cases")
    jobs = build(tier, seed)
    outs = session.run_sessions_parallel(jobs, workers=6)
    cert_lines, cert_meta = [], []
    for (ops, d), out in zip(jobs, outs):
        tabs, news, total, plines = {}, {}, {}, {}
        for (op, m, i, line) in out:
            o = op["op"]
            if o == "problem":
                tabs[op["id"]] = oracle.Tab.from_line(i); plines[op["id"]] = i
                for tg in op.get("_tags", []):
                    res.count("tag:" + tg)
                continue
            if o == "new":
                news[op["sid"]] = op; total[op["sid"]] = 0
                dm, di = core.parse_resp(m or ""), core.parse_resp(i)
                if dm.get("policy") != di.get("policy"):
                    res.disagreements.append({"channel": "C05/first-policy", "case": {k: v for k, v in op.items()}, "model": (m or "")[:300], "impl": i[:300],
                                              "failing_input": True, "what": "first evaluated policy differs (initial_policy / argmax of immediate reward)", "key": "first-policy"})
                else:
                    res.count("first-policy:" + ("supplied" if tabs[op["id"]].initpol is not None else "immediate-reward"))
                continue
            if o in ("setpolicy", "setvalues"):
                continue
            res.evaluations += 1
            case = {"op": {k: v for k, v in op.items() if not k.startswith("_")}, "devices": d, "driver_line": line}
            di, dm = core.parse_resp(i), core.parse_resp(m or "")
            if o in ("evalsweep", "evaluate"):
                t = tabs[op["id"]]
                res.nontrivial.add((o, op["id"], op["maxbs"], tuple(op["pol"]), tuple(op["V"]), op["gamma"], op.get("budget")))
                if "values" not in di or "values" not in dm:
                    res.disagreements.append({"channel": f"C05/{o}", "case": case, "model": (m or "")[:300], "impl": i[:300], "failing_input": "values" not in di,
                                              "what": "no values", "key": f"{o}:novalues"})
                    continue
                mv, iv = core.plist(dm["values"]), core.plist(di["values"])
                M = max(abs(x) for x in t.rew) * (op.get("budget", 1) + 1) + max(abs(Fraction(x)) for x in op["V"])
                tol = session.envelope(M, t.E, op.get("budget", 1))
                how = session.vec_compare(mv, iv, tol)
                exact = session.safely_exact(mv, M, t.E)
                res.count(f"{o}:{how}")
                if o == "evaluate":
                    res.count("evaluate:" + ("converged" if dm["converged"] == "true" else "budget-exhausted"))
                if how == "differ" or (how == "enveloped" and exact):
                    if o == "evaluate" and Fraction(dm["margin"]) <= 4 * tol:
                        res.ambiguous += 1
                        continue
                    # property's own oracle: each state's own action
                    g = Fraction(op["gamma"]); V = [Fraction(x) for x in op["V"]]
                    fail = True
                    if o == "evalsweep":
                        ref = [oracle.q(t, g, V, s, op["pol"][s]) for s in range(t.S)]
                        fail = any(abs(a - b) > tol for a, b in zip(ref, iv))
                    res.disagreements.append({"channel": f"C05/{o}", "case": case, "model": m[:400], "impl": i[:400], "failing_input": fail,
                                              "what": "evaluation does not apply each state's own policy action" if o == "evalsweep" else "_evaluate_policy result differs from T_pi iterates / stopping rule",
                                              "key": f"{o}"})
                elif o == "evaluate" and dm["converged"] == "true" and op["test"] == "max_diff":
                    g = Fraction(op["gamma"])
                    U = oracle.policy_value(t, g, op["pol"])
                    if U is not None:
                        cert_lines.append(plines[op["id"]]); cert_meta.append(None)
                        cert_lines.append(f"cert id={op['id']} gamma={op['gamma']} W={flist(U, frac)} U={flist(U, frac)} pol={flist(op['pol'])} V={di['values']}")
                        cert_meta.append((case, op))
                if len(res.samples) < 4:
                    res.sample({"request": line[:200], "model": m[:120], "impl": i[:120]})
                continue
            if o == "solve":
                new = news[op["sid"]]
                t = tabs[new["id"]]
                total[op["sid"]] += op["k"]
                res.nontrivial.add(("solve", op["sid"], total[op["sid"]], d))
                res.count("pi-conv=" + di.get("conv", "?"))
                for key, fail in compare_state(res, op, new, t, m, i, line, d, total[op["sid"]]):
                    res.disagreements.append({"channel": f"C05/pi/{key}", "case": dict(case, new={k: v for k, v in new.items() if not k.startswith('_')}), "model": m[:500], "impl": i[:500],
                                              "failing_input": fail, "what": f"{key} differs from the reference policy iteration", "key": f"pi:{key}"})
                # returned policy greedy w.r.t. returned values (property's own oracle, exact)
                if "values" in di and di.get("policy") not in (None, "_"):
                    V = core.plist(di["values"]); g = Fraction(new["gamma"])
                    pol = [int(x) for x in di["policy"].split(",")]
                    for s_ in range(t.S):
                        qs = [oracle.q(t, g, V, s_, a) for a in range(t.A)]
                        if max(qs) - qs[pol[s_]] > session.envelope(max(abs(x) for x in V) + 10, t.E, 1):
                            res.disagreements.append({"channel": "C05/greedy", "case": case, "model": m[:300], "impl": i[:300], "failing_input": True,
                                                      "what": f"returned policy not greedy for returned values at state {s_}", "key": "pi:not-greedy"})
                            break
    model = core.run_driver(cert_lines)
    for m, mt in zip(model, cert_meta):
        if mt is None:
            continue
        case, op = mt
        dm = core.parse_resp(m)
        if dm.get("ufix") != "true":
            continue
        g, eps = Fraction(op["gamma"]), Fraction(op["eps"])
        res.count("eval-maxdiff-certified")
        if not Fraction(dm["vumax"]) < eps / g:
            res.disagreements.append({"channel": "C05/eval-accuracy", "case": case, "model": m, "impl": "", "failing_input": True,
                                      "what": f"converged max_diff evaluation is {float(Fraction(dm['vumax']))} from the exact policy value, bound {float(eps/g)}", "key": "eval-accuracy"})
    return res


def replay(rep, tier, seed):
    return run(tier, rep.get("seed", seed))
