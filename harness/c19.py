"""C19 — range spaces and their index function: real create_range_space vs Model/Spaces.lean, exhaustively over a box of bounds."""
from __future__ import annotations

import itertools
import random

from harness import core, session


def boxes(dim, lo, hi):
    rng_ = range(lo, hi + 1)
    pairs = [(a, b) for a in rng_ for b in rng_ if a <= b]
    for combo in itertools.product(pairs, repeat=dim):
        yield [c[0] for c in combo], [c[1] for c in combo]


def oracle(op, resp):
    """the property itself on the implementation's answer"""
    mins, maxs = op["mins"], op["maxs"]
    d = core.parse_resp(resp)
    try:
        rows = [tuple(int(x) for x in r.split(",")) for r in d["space"].split(";")]
        idx = [int(x) for x in d["idx"].split(",")]
    except Exception as e:  # noqa: BLE001
        return f"unparseable ({e})"
    want = list(itertools.product(*[range(a, b + 1) for a, b in zip(mins, maxs)]))
    if rows != want:
        return "space is not the integer box in row-major order, each vector exactly once"
    ext = list(itertools.product(*[range(a - 2, b + 3) for a, b in zip(mins, maxs)]))
    pos = {v: i for i, v in enumerate(rows)}
    for v, i in zip(ext, idx):
        if v in pos and pos[v] != i:
            return f"index_fn({list(v)}) = {i} but the vector is row {pos[v]}"
        if not (0 <= i < len(rows)):
            return f"index_fn({list(v)}) = {i} is not a valid row"
        if v not in pos:
            near = tuple(min(max(x, a), b) for x, a, b in zip(v, mins, maxs))
            if pos[near] != i:
                return f"index_fn({list(v)}) = {i}, nearest box vector {list(near)} is row {pos[near]}"
    return None


def run(tier, seed):
    rng = random.Random(seed * 19 + 19)
    res = core.Result("C19")
    res.rule = ("dimensions 1-2 exhaustively over bounds in -3..3 with mins <= maxs (every box vector and every vector of the box enlarged by 2), "
                "dimensions 3-4 sampled (thorough: dimension 3 exhaustive over -2..2); boxes whose extents (127..129, 255..257, 2^15, 2^16 rows) or "
                "coordinates lie at the boundaries of the narrow integer types; distinct non-trivial = boxes with a non-zero lower bound")
    ops = []
    for dim in (1, 2):
        for mins, maxs in boxes(dim, -3, 3):
            ops.append({"op": "space", "mins": mins, "maxs": maxs})
    res.exhaustive = True
    if tier == "thorough":
        for mins, maxs in boxes(3, -2, 2):
            ops.append({"op": "space", "mins": mins, "maxs": maxs})
    k3 = 150 if tier == "quick" else 600
    for _ in range(k3):
        dim = rng.choice([3, 3, 4])
        mins = [rng.randint(-3, 3) for _ in range(dim)]
        maxs = [m + rng.randint(0, 3 if dim == 3 else 2) for m in mins]
        ops.append({"op": "space", "mins": mins, "maxs": maxs})
    # sizes and coordinate values at the boundaries of the narrow integer types (2^7, 2^8, 2^15, 2^16): extents of exactly 127..129, 255..257 rows in
    # either position of a 1-3 dimensional box, long single dimensions, and lower bounds / coordinates beyond the int8 / int16 ranges
    edge = []
    for span in (127, 128, 129, 255, 256, 257):
        for lo in (0, 1, -5, -span + 1):
            edge.append(([lo], [lo + span - 1]))
        edge.append(([0, 0], [span - 1, 1])); edge.append(([-1, 0], [0, span - 1])); edge.append(([0, 2, 0], [1, span + 1, 1]))
    for span in ((32768, 65536) if tier == "quick" else (32767, 32768, 32769, 65535, 65536, 65537)):
        edge.append(([0], [span - 1])); edge.append(([-3], [span - 4]))
    for lo in (-129, -128, 126, 127, 254, 255, -32769, 32766, 65534, 70000, -70000):
        edge.append(([lo], [lo + 3])); edge.append(([0, lo], [1, lo + 2]))
    for mins, maxs in edge:
        ops.append({"op": "space", "mins": mins, "maxs": maxs, "_edge": True})
    W = 8
    chunks = [ops[i::W] for i in range(W)]
    outs = session.run_sessions_parallel([(c, 1) for c in chunks], workers=W)
    for out in outs:
        for (op, m, i, line) in out:
            res.evaluations += 1
            if any(x != 0 for x in op["mins"]):
                res.nontrivial.add((tuple(op["mins"]), tuple(op["maxs"])))
                res.count("nonzero-lower-bound")
            else:
                res.count("zero-lower-bound")
            res.count(f"dim={len(op['mins'])}")
            if op.get("_edge"):
                res.count("integer-type-boundary-box")
            if any(a == b for a, b in zip(op["mins"], op["maxs"])):
                res.count("zero-width-dimension")
            if m != i:
                why = oracle(op, i)
                res.disagreements.append({"channel": "C19/space+index", "case": op, "model": (m or "")[:300], "impl": i[:300], "failing_input": why is not None,
                                          "what": why or "model and implementation differ",
                                          "key": "index-ignores-mins" if why and "index_fn" in why and any(x != 0 for x in op["mins"]) else "space"})
            elif len(res.samples) < 4 and any(x != 0 for x in op["mins"]):
                res.sample({"request": line, "response": m[:200]})
    return res


def replay(rep, tier, seed):
    res = core.Result("C19")
    res.rule = "replay"
    ops = [v["case"] for v in rep.get("violations", []) if isinstance(v.get("case"), dict) and v["case"].get("op") == "space"][:50]
    for (op, m, i, line) in session.run_session(ops, 1):
        res.evaluations += 1
        res.nontrivial.add(str(op))
        if m != i:
            why = oracle(op, i)
            res.disagreements.append({"channel": "C19/space+index", "case": op, "model": (m or "")[:300], "impl": i[:300], "failing_input": why is not None,
                                      "what": why or "model and implementation differ", "key": "space"})
    res.nontrivial.add("replay")
    return res
