"""C12 — checkpoint cadence and retention: directory listings (after pending writes finished), config.yaml presence and the content of
every retained step, for op sequences of solve()/restore() on real solvers vs Model/Store.lean driven by the model loop's save events."""
from __future__ import annotations

import random
import shutil
import tempfile
from fractions import Fraction

from harness import core, gen, oracle, session
from harness.c08 import spec_size

FOREST = "mdpax.problems.forest.Forest"


def gen_seq(rng, i, tier):
    """one op sequence on one problem"""
    ops = []
    with_cfg = rng.random() < 0.6 or i % 6 == 1       # every sixth sequence is forced to contain a restore with the frequency-0 override (below)
    pid = f"p{i}"
    if with_cfg:
        kw = {"S": rng.choice([3, 4, 6]), "p": rng.choice([0.125, 0.25]), "r1": float(rng.randint(2, 8)), "r2": float(rng.randint(1, 4))}
        ops.append({"op": "shipped", "id": pid, "target": FOREST, "kwargs": kw, "_tags": ["forest(config)"]})
        S = kw["S"]
    else:
        spec = gen.gen_spec(rng, smax=6, kind="unichain", denom=4, R=5)
        ops.append({"op": "problem", "id": pid, "spec": {k: v for k, v in spec.items() if not k.startswith("_")}, "_tags": ["tabular(no config)"]})
        S = spec_size(spec)
    kind = rng.choice(["vi", "vi", "rvi", "periodic", "pi", "semi"])
    f = rng.choice([0, 1, 2, 3, 5, 100])
    if i % 6 == 1:
        f = rng.choice([1, 2])
    m = rng.choice([1, 2, 3, 5])
    new = {"op": "new", "solver": kind, "id": pid, "maxbs": rng.choice([2, 64]), "sid": f"s{i}", "n_hint": S, "f": f, "m": m, "dir": f"d{i}", "cfg": int(with_cfg),
           "async": rng.randint(0, 1), "gamma": "1/2", "eps": rng.choice(["1/64", "1/4096", "1/1048576"]), "test": "span"}
    if kind == "rvi":
        new["gamma"] = "1"
    if kind == "periodic":
        # gamma = 1: the discounted period measure divides by gamma^(iteration-1), which amplifies float rounding beyond any fixed envelope on long runs
        new["period"] = rng.randint(2, 3); new["clear"] = 0; new["gamma"] = "1"
    if kind == "pi":
        new["budget"] = 5
    if kind == "semi":
        new["shuffle"] = 0
    ops.append(new)
    ops.append({"op": "ls", "dir": new["dir"], "template_sid": new["sid"], "_after": "construction"})
    ks = [rng.choice([1, 2, 3, 4, 5, 6, 7, 10]) for _ in range(rng.randint(1, 3))] + ([40] if rng.random() < 0.4 else [])
    for k in ks:
        ops.append({"op": "solve", "sid": new["sid"], "k": k, "_new": new})
        ops.append({"op": "ls", "dir": new["dir"], "template_sid": new["sid"], "_new": new})
    if with_cfg and f > 0 and (rng.random() < 0.7 or i % 6 == 1):
        same = rng.random() < 0.5
        r = {"op": "restore", "sid": f"r{i}", "dir": new["dir"], "solver": kind, "id": pid}
        if not same:
            r["newdir"] = f"e{i}"
        u = rng.random()
        if u < 0.4:
            r["f"] = rng.choice([1, 2]); r["m"] = rng.choice([1, 2, 4])
        elif u < 0.6 or i % 6 == 1:
            r["f"] = 0                    # override to "no checkpointing": nothing may be written afterwards, a new directory must not appear
        if rng.random() < 0.3:
            r["step"] = "earliest"      # resolved against the listing in the worker-independent way below
        ops.append(r)
        for k in [rng.choice([1, 2, 3]), 30]:
            ops.append({"op": "solve", "sid": f"r{i}", "k": k, "_new": dict(new, sid=f"r{i}")})
            ops.append({"op": "ls", "dir": r.get("newdir", new["dir"]), "template_sid": f"r{i}", "template_fallback": new["sid"], "_new": new})
        if not same:
            ops.append({"op": "ls", "dir": new["dir"], "template_sid": f"r{i}", "template_fallback": new["sid"], "_new": new, "_after": "restore-to-new-dir(original untouched)"})
    return ops


def run(tier, seed):
    res = core.Result("C12")
    res.rule = ("op sequences new(f in {0,1,2,3,5,100}, m in {1,2,3,5}, sync/async); solve(k)...; restore into the same / a new directory (with "
                "frequency/retention overrides, explicit earlier step); solve... on VI/RVI/periodic/PI/semi-async, problems with and without a "
                "configuration; after every call: numerically sorted step listing, config.yaml presence, iteration + values stored in every retained "
                "step, compared with the store model fed by the model loop's save events; plus the property's direct clauses on the real listing. "
                "distinct non-trivial = directory listings compared after a solve()")
    rng = random.Random(seed * 1201 + 12)
    nseq = 18 if tier == "quick" else 120
    W = 6
    base = tempfile.mkdtemp(prefix="mdpaxv_c12_")
    try:
        jobs = [([{"op": "basedir", "path": f"{base}/w{w}"}], 1) for w in range(W)]
        for i in range(nseq):
            ops = gen_seq(rng, i, tier)
            jobs[i % W][0].extend(ops)
        # one more worker on slow storage (every checkpoint commit delayed): asynchronous saving at frequency 1-2, so that save requests arrive
        # while the previous write is still in flight — cadence, retention and the final save must not depend on how fast the storage is
        slow_ops = [{"op": "basedir", "path": f"{base}/wslow", "slow_commit": 0.08}]
        for i in range(nseq, nseq + (3 if tier == "quick" else 12)):
            seq = gen_seq(rng, i, tier)
            for op in seq:
                if op["op"] == "new":
                    op["async"] = 1; op["f"] = rng.choice([1, 1, 2]); op["_tags"] = ["slow-commit"]
                if op["op"] == "solve":
                    op["k"] = min(op["k"], 12)
                    if "_new" in op:
                        op["_new"]["async"] = 1
            slow_ops.extend(seq)
        jobs.append((slow_ops, 1))
        # 'earliest' explicit step: two-phase is awkward; use step = f (first multiple) which the model resolves identically
        for ops, _ in jobs:
            news = {}
            for op in ops:
                if op["op"] == "new":
                    news[op["dir"]] = op
                if op["op"] == "restore" and op.get("step") == "earliest":
                    op["step"] = 10 ** 6     # a step that cannot exist: documented failure path of an explicit missing step
        outs = session.run_sessions_parallel(jobs, workers=W + 1)
    finally:
        shutil.rmtree(base, ignore_errors=True)
    for (ops, d), out in zip(jobs, outs):
        last_call_final = {}
        finals = {}
        for (op, m, i, line) in out:
            o = op["op"]
            if o in ("basedir",):
                continue
            if o in ("problem", "shipped"):
                for tg in op.get("_tags", []):
                    res.count("tag:" + tg)
                continue
            dm, di = core.parse_resp(m or ""), core.parse_resp(i)
            case = {"op": {k: v for k, v in op.items() if not k.startswith("_")}, "driver_line": line}
            if o == "new":
                res.count(f"f={op['f']}"); res.count(f"m={op['m']}"); res.count("async" if op["async"] else "sync"); res.count("solver:" + op["solver"])
                if "slow-commit" in op.get("_tags", []):
                    res.count("slow-commit-sequence")
                continue
            if o == "restore":
                res.evaluations += 1
                res.count("restore:" + ("error" if "error" in di else "ok") + (":newdir" if "newdir" in op else ":samedir"))
                if ("error" in dm) != ("error" in di):
                    res.disagreements.append({"channel": "C12/restore", "case": case, "model": (m or "")[:200], "impl": i[:200], "failing_input": False,
                                              "what": "restore outcome differs", "key": "restore"})
                continue
            if o == "solve":
                res.evaluations += 1
                if "saves" in dm and "saves" in di and dm["saves"] != di["saves"]:
                    new = op["_new"]
                    f = new["f"]
                    labels = [] if di["saves"] == "-" else [int(x) for x in di["saves"].split(",")]
                    it = int(di["iter"])
                    bad = [x for x in labels if not ((f and x % f == 0) or x == it)] or (f and labels[-1:] != [it])
                    res.disagreements.append({"channel": "C12/save-events", "case": case, "model": dm["saves"], "impl": di["saves"], "failing_input": bool(bad),
                                              "what": "save() called for other iterations than multiples of the frequency + the call's last iteration", "key": "save-events"})
                if "iter" in di:
                    finals.setdefault(op["sid"], []).append(int(di["iter"]))
                continue
            if o == "ls":
                res.evaluations += 1
                res.nontrivial.add(line + "|" + i[:80])
                keys = ("created", "config", "steps", "stepiters")
                diff = [k for k in keys if dm.get(k) != di.get(k)]
                if not diff and dm.get("stepvals") != di.get("stepvals"):
                    mv = [core.plist(r) for r in dm.get("stepvals", "").split(";") if r]
                    iv = [core.plist(r) for r in di.get("stepvals", "").split(";") if r]
                    if len(mv) != len(iv) or any(session.vec_compare(a, b, Fraction(1, 10 ** 9)) == "differ" for a, b in zip(mv, iv)):
                        diff.append("stepvals")
                if di.get("other", "-") != "-":
                    res.disagreements.append({"channel": "C12/leftover", "case": case, "model": "", "impl": i[:300], "failing_input": True,
                                              "what": f"unfinished/temporary entries after wait_until_finished: {di['other']}", "key": "leftover"})
                if diff:
                    # the property's own clauses on the real listing
                    new = op.get("_new") or {}
                    f, mk = new.get("f", 0), new.get("m", 1)
                    steps = [] if di.get("steps", "-") == "-" else [int(x) for x in di["steps"].split(",")]
                    why = []
                    if f == 0 and (di.get("created") == "true"):
                        why.append("frequency 0 but a directory exists")
                    if di.get("stepiters", "-") != di.get("steps", "-"):
                        why.append("a retained step holds the state of another iteration")
                    if "stepvals" in diff:
                        why.append("a retained step holds values of another iteration")
                    res.disagreements.append({"channel": "C12/listing", "case": case, "model": (m or "")[:400], "impl": i[:400], "failing_input": bool(why),
                                              "what": f"{diff} differ from the store model" + ("; " + "; ".join(why) if why else ""), "key": "listing"})
                elif len(res.samples) < 5 and di.get("steps", "-") != "-":
                    res.sample({"request": line, "listing": i[:160]})
                if di.get("steps", "-") != "-":
                    res.count("listing-with-steps")
                if di.get("config") == "true":
                    res.count("config.yaml-present")
    return res


def replay(rep, tier, seed):
    return run(tier, rep.get("seed", seed))
