"""Executes operations against the real mdpax (working tree of /repo) and returns canonical responses.
Run as:  python -m harness.impl_worker in.json out.json   (device count fixed by XLA_FLAGS of the process)"""
from __future__ import annotations

import json
import os
import sys
import traceback
from fractions import Fraction

import jax

jax.config.update("jax_enable_x64", True)
import jax.numpy as jnp  # noqa: E402
import numpy as np  # noqa: E402
from loguru import logger  # noqa: E402

from harness.tabular import TabProblem, make_problem, tabulate, problem_line, frac, flist  # noqa: E402

PROBLEMS: dict = {}
TABS: dict = {}
SOLVERS: dict = {}
SWEEPERS: dict = {}
EXTRA: dict = {}
BASE = {"dir": None}


def real_dir(dirid):
    import os
    assert BASE["dir"], "basedir op missing"
    return os.path.join(BASE["dir"], dirid)


def list_dir(path):
    import os
    if not os.path.isdir(path):
        return False, False, [], []
    names = os.listdir(path)
    steps = sorted(int(n) for n in names if n.isdigit())
    other = sorted(n for n in names if not n.isdigit() and n != "config.yaml")
    return True, "config.yaml" in names, steps, other

LOG: list = []


def _sink(msg):
    LOG.append(msg.record["message"])


def attach_sink():
    logger.add(_sink, level="DEBUG")


def err_class(e: BaseException) -> str:
    n = type(e).__name__
    return n if n in ("ValueError", "TypeError", "FileNotFoundError", "OverflowError", "NameError", "UnboundLocalError",
                      "ZeroDivisionError", "AttributeError", "NotImplementedError", "KeyError", "IndexError") else "other:" + n


def fvals(x):
    return flist([Fraction(float(v)) for v in np.asarray(x, dtype=np.float64).reshape(-1)], frac)


def policy_idx(problem, pol):
    if pol is None:
        return "_"
    A = np.asarray(problem.action_space)
    out = []
    for row in np.asarray(pol).reshape(len(pol), -1):
        w = np.where((A == row).all(axis=1))[0]
        out.append(str(int(w[0])) if len(w) else "?")
    return ",".join(out) if out else "-"


def solver_class(kind):
    from mdpax.solvers.value_iteration import ValueIteration
    from mdpax.solvers.relative_value_iteration import RelativeValueIteration
    from mdpax.solvers.periodic_value_iteration import PeriodicValueIteration
    from mdpax.solvers.policy_iteration import PolicyIteration
    from mdpax.solvers.semi_async_value_iteration import SemiAsyncValueIteration
    return {"vi": ValueIteration, "rvi": RelativeValueIteration, "periodic": PeriodicValueIteration,
            "pi": PolicyIteration, "semi": SemiAsyncValueIteration}[kind]


def state_line(kind, sv, conv, sweeps, saves):
    pb = sv.problem
    st = sv.solver_state
    gain = frac(Fraction(float(sv.gain))) if kind == "rvi" else "0"
    if kind == "periodic":
        hidx = int(sv.history_index)
        hist = "_" if sv.value_history is None else ";".join(fvals(r) for r in np.asarray(sv.value_history))
    else:
        hidx, hist = 0, "_"
    return (f"iter={int(st.info.iteration)} conv={'true' if conv else 'false'} sweeps={sweeps} values={fvals(st.values)} "
            f"policy={policy_idx(pb, st.policy)} gain={gain} hidx={hidx} hist={hist} saves={flist(saves)}")


def do(op: dict) -> str:
    o = op["op"]
    if o == "prepare_seq":
        # one BatchProcessor, several prepare_batches calls with inputs of different dtypes / magnitudes: each call must return exactly its own
        # input rows in order followed by zero padding, in the input's dtype, and un-batching must give the input back
        from mdpax.utils.batch_processing import BatchProcessor
        n, maxbs, dev = op["n"], op["maxbs"], op["dev"]
        bp = BatchProcessor(n_states=n, state_dim=1, max_batch_size=maxbs, pmap_device_count=dev)
        last = None
        for k, dt in enumerate(op["order"].split(",")):
            if dt == "i32":
                x = (np.arange(1, n + 1, dtype=np.int64) + (2 ** 24 + 1 if k else 0)).astype(np.int32).reshape(n, 1)
            elif dt == "f32":
                x = (np.arange(1, n + 1, dtype=np.float32) + np.float32(0.5)).reshape(n, 1)
            else:
                x = (np.arange(1, n + 1, dtype=np.float64) + 1.0 / 3.0).reshape(n, 1)
            r = bp.prepare_batches(jnp.asarray(x))
            rn = np.asarray(r)
            flat = rn.reshape(-1, 1)
            back = np.asarray(bp.unbatch_results(r))
            if (rn.shape != (bp.n_devices, bp.n_batches, bp.batch_size, 1) or str(rn.dtype) != str(x.dtype) or not np.array_equal(flat[:n], x)
                    or np.any(flat[n:] != 0) or not np.array_equal(back, x)):
                return f"lossy call={k} dtype={dt} out_dtype={rn.dtype} first_row_in={x[0, 0]!r} first_row_out={flat[0, 0]!r}"
            if dt == "i32" and k == 0:
                last = rn
        rn = last if last is not None else np.asarray(bp.prepare_batches(jnp.arange(1, n + 1, dtype=jnp.int32).reshape(n, 1)))
        return "|".join(";".join(",".join("_" if v == 0 else str(int(v) - 1) for v in b.reshape(-1)) for b in d) for d in rn)
    if o == "batch" or o == "prepare" or o == "unbatch":
        from mdpax.utils.batch_processing import BatchProcessor
        n, maxbs, dev = op["n"], op["maxbs"], op["dev"]
        bp = BatchProcessor(n_states=n, state_dim=1, max_batch_size=maxbs, pmap_device_count=dev)
        if o == "batch":
            shp = bp.batch_shape
            assert shp == (bp.n_devices, bp.n_batches, bp.batch_size)
            return f"dev={bp.n_devices} nb={bp.n_batches} bsz={bp.batch_size} npad={bp.n_pad}"
        if o == "prepare":
            r = np.asarray(bp.prepare_batches(jnp.arange(1, n + 1, dtype=jnp.int32).reshape(n, 1)))
            assert r.ndim == 4 and r.shape[3] == 1
            return "|".join(";".join(",".join("_" if v == 0 else str(int(v) - 1) for v in b.reshape(-1)) for b in d) for d in r)
        tot = bp.n_devices * bp.n_batches * bp.batch_size
        base = jnp.arange(tot).reshape(bp.n_devices, bp.n_batches, bp.batch_size)
        u0 = np.asarray(bp.unbatch_results(base))
        # trailing dimensions (k,), (k,l): every trailing entry must travel with its row
        u1 = np.asarray(bp.unbatch_results(base[..., None] * 10 + jnp.arange(3)))
        u2 = np.asarray(bp.unbatch_results(base[..., None, None] * 100 + jnp.arange(6).reshape(2, 3)))
        ok = (u0.shape == (len(u0),) and u1.shape == (len(u0), 3) and u2.shape == (len(u0), 2, 3)
              and (u1 == u0[:, None] * 10 + np.arange(3)).all() and (u2 == u0[:, None, None] * 100 + np.arange(6).reshape(2, 3)).all())
        return flist(int(x) for x in u0) + ("" if ok else " trailing-dims-mismatch")
    if o == "problem":
        p = make_problem(op["spec"])
        PROBLEMS[op["id"]] = p
        TABS[op["id"]] = tabulate(p)
        return problem_line(op["id"], TABS[op["id"]])
    if o == "shipped":
        import importlib
        mod, cls = op["target"].rsplit(".", 1)
        p = getattr(importlib.import_module(mod), cls)(**op.get("kwargs", {}))
        PROBLEMS[op["id"]] = p
        TABS[op["id"]] = tabulate(p)
        return problem_line(op["id"], TABS[op["id"]])
    if o in ("sweep", "evalsweep", "initvalues"):
        p = PROBLEMS[op["id"]]
        kind = "pi" if o == "evalsweep" else "vi"
        # the solver is constructed with the requested discount factor (the user-facing route: gamma travels through the configuration),
        # and the sweep below is the solver's own `_iteration_step`, which reads `self.gamma` and `self.values`
        gstr = op.get("gamma", "1/2")
        key = (op["id"], op["maxbs"], kind, gstr)
        if key not in SWEEPERS:
            SWEEPERS[key] = solver_class(kind)(p, gamma=float(Fraction(gstr)), epsilon=0.01, max_batch_size=op["maxbs"], verbose=0)
        sv = SWEEPERS[key]
        hdr = f"n={p.n_states} maxbs={op['maxbs']} dev={sv.n_devices} "
        if o == "initvalues":
            return hdr + f"values={fvals(sv._initialize_values(sv.batched_states))}"
        g = jnp.array(float(Fraction(op["gamma"])))
        V = jnp.array([float(Fraction(x)) for x in op["V"]], dtype=jnp.float64)
        if o == "sweep":
            sv.values = V
            new, _conv = sv._iteration_step()
            pol = sv._extract_policy()
            assert new.shape == (p.n_states,) and pol.shape == (p.n_states, p.action_space.shape[1])
            return hdr + (f"values={fvals(new)} policy={policy_idx(p, pol)} span={frac(Fraction(float(sv._get_span(new, V))))} "
                          f"maxdiff={frac(Fraction(float(sv._get_max_diff(new, V))))}")
        pol = jnp.asarray(np.asarray(p.action_space)[np.array(op["pol"], dtype=int)])
        new = sv._calculate_policy_values(pol, V)
        assert new.shape == (p.n_states,)
        return hdr + f"values={fvals(new)}"
    if o == "new":
        p = PROBLEMS[op["id"]]
        kind = op["solver"]
        kw = dict(gamma=float(Fraction(op["gamma"])), epsilon=float(Fraction(op["eps"])), max_batch_size=op["maxbs"], verbose=1 if kind == "pi" else 0)
        if kind in ("vi", "pi", "semi"):
            kw["convergence_test"] = op.get("test", "span")
        if kind == "periodic":
            kw["period"] = op.get("period", 1)
            kw["clear_value_history_on_convergence"] = bool(op.get("clear", 1))
        if kind == "pi":
            kw["max_eval_iter"] = op.get("budget", 100)
            kw["reset_values_for_each_policy_eval"] = bool(op.get("reset", 0))
        if kind == "semi":
            kw["shuffle_states"] = bool(op.get("shuffle", 0))
            kw["random_seed"] = op.get("random_seed", 0)
        if op.get("f", 0):
            kw["checkpoint_frequency"] = op["f"]
            kw["checkpoint_dir"] = real_dir(op["dir"])
            kw["max_checkpoints"] = op.get("m", 1)
            kw["enable_async_checkpointing"] = bool(op.get("async", 0))
        try:
            sv = solver_class(kind)(p, **kw)
        except Exception as e:  # noqa: BLE001
            return f"error={err_class(e)}"
        attach_sink()
        SOLVERS[op["sid"]] = (kind, sv)
        hdr = f"n={p.n_states} maxbs={op['maxbs']} dev={sv.n_devices} bsz={sv.batch_size} npad={sv.n_pad} "
        return hdr + f"ok thr={frac(Fraction(float(sv.conv_threshold)))} " + state_line(kind, sv, False, 0, [])
    if o == "space":
        import itertools
        from mdpax.utils.spaces import create_range_space
        mins, maxs = op["mins"], op["maxs"]
        sp, fn = create_range_space(jnp.array(mins), jnp.array(maxs))
        sp = np.asarray(sp).reshape(-1, len(mins))
        ext = np.array(list(itertools.product(*[range(a - 2, b + 3) for a, b in zip(mins, maxs)])), dtype=np.int32)
        idx = np.asarray(jax.vmap(fn)(jnp.array(ext)))
        return "space=" + ";".join(",".join(str(int(x)) for x in r) for r in sp) + " idx=" + ",".join(str(int(x)) for x in idx)
    if o == "matrices":
        import re as _re
        p = PROBLEMS[op["id"]]
        try:
            Pm, Rm = p.build_transition_and_reward_matrices(normalization_tolerance=float(Fraction(op["tol"])))
        except ValueError as e:
            mm = _re.search(r"state (\d+), action (\d+) sum to ([-0-9.eE+naif]+),", str(e))
            if not mm:
                return "error=ValueError unparsed=" + str(e)[:80].replace(" ", "_")
            return f"error=ValueError state={mm.group(1)} action={mm.group(2)} rowsum6={mm.group(3)}"
        Pm = np.asarray(Pm, dtype=np.float64); Rm = np.asarray(Rm, dtype=np.float64)
        A, S, _ = Pm.shape
        assert Rm.shape == (S, A)
        return ("P=" + ";".join(fvals(Pm[a, s_]) for a in range(A) for s_ in range(S)) + " R=" + ";".join(fvals(Rm[s_]) for s_ in range(S)))
    if o == "shippedtab":
        import importlib
        mod, cls = op["target"].rsplit(".", 1)
        PCls = getattr(importlib.import_module(mod), cls)
        if op.get("config_then_mutate"):
            # the parameter-sweep idiom: the problem is built from a configuration object, which the caller afterwards changes (and reuses for the
            # next problem).  The problem already built must keep the parameters it was constructed with.
            cfg = PCls.Config(**op.get("kwargs", {}))
            p = PCls(config=cfg)
            mutated = []
            for k_, v_ in op["config_then_mutate"].items():
                try:
                    setattr(cfg, k_, v_)
                    mutated.append(k_)
                except Exception:  # noqa: BLE001  (a frozen configuration cannot be changed: nothing to test for that field)
                    pass
            try:
                PCls(config=cfg)      # the next problem of the sweep
            except Exception:  # noqa: BLE001
                pass
        else:
            p = PCls(**op.get("kwargs", {}))
        S, A, E = p.state_space, p.action_space, p.random_event_space

        def one(s, a, e):
            ns, r = p.transition(s, a, e)
            return ns, p.state_to_index(ns), jnp.asarray(r, dtype=jnp.float64).reshape(())

        f = jax.jit(jax.vmap(jax.vmap(jax.vmap(one, in_axes=(None, None, 0)), in_axes=(None, 0, None)), in_axes=(0, None, None)))
        nv, ni, rw = f(S, A, E)
        nv = np.asarray(nv).reshape(-1, S.shape[1]); ni = np.asarray(ni).reshape(-1); rw = np.asarray(rw, dtype=np.float64).reshape(-1)
        sidx = np.asarray(jax.vmap(p.state_to_index)(S)).reshape(-1)
        rows = lambda M: ";".join(",".join(str(int(x)) for x in r) for r in np.asarray(M).reshape(len(M), -1))
        PROBLEMS[op.get("id", "_shipped")] = p
        return (f"states={rows(S)} actions={rows(A)} events={rows(E)} sidx={','.join(str(int(x)) for x in sidx)} nxtvec={rows(nv)} "
                f"nxt={','.join(str(int(x)) for x in ni)} rew={fvals(rw)}")
    if o == "probtab":
        import importlib
        mod, cls = op["target"].rsplit(".", 1)
        p = getattr(importlib.import_module(mod), cls)(**op.get("kwargs", {}))
        S, A, E = p.state_space, p.action_space, p.random_event_space
        f = jax.jit(jax.vmap(jax.vmap(jax.vmap(lambda s, a, e: jnp.asarray(p.random_event_probability(s, a, e), dtype=jnp.float64).reshape(()),
                                               in_axes=(None, None, 0)), in_axes=(None, 0, None)), in_axes=(0, None, None)))
        T = np.asarray(f(S, A, E), dtype=np.float64)
        init = np.asarray(jax.vmap(lambda s: jnp.asarray(p.initial_value(s), dtype=jnp.float64).reshape(()))(S), dtype=np.float64)
        EXTRA["last"] = {"probs": T.tolist() if op.get("full") else None, "rowsums": T.sum(axis=2).tolist(), "init": init.tolist(),
                         "states": np.asarray(S).tolist(), "actions": np.asarray(A).tolist(), "events": np.asarray(E).tolist()}
        rs = T.sum(axis=2)
        w = np.unravel_index(np.argmax(np.abs(rs - 1)), rs.shape)
        return (f"S={T.shape[0]} A={T.shape[1]} E={T.shape[2]} finite={bool(np.isfinite(T).all())} pmin={float(T.min())!r} "
                f"rowsum_min={float(rs.min())!r} rowsum_max={float(rs.max())!r} worst_state={int(w[0])} worst_action={int(w[1])} dtype={T.dtype}")
    if o == "semisweep":
        p = PROBLEMS[op["id"]]
        key = (op["id"], op["maxbs"], "semi", op.get("shuffle", 0), op.get("random_seed", 0))
        if key not in SWEEPERS:
            SWEEPERS[key] = solver_class("semi")(p, gamma=0.5, epsilon=0.01, max_batch_size=op["maxbs"], verbose=0,
                                                 shuffle_states=bool(op.get("shuffle", 0)), random_seed=op.get("random_seed", 0))
        sv = SWEEPERS[key]
        g = jnp.array(float(Fraction(op["gamma"])))
        V = jnp.array([float(Fraction(x)) for x in op["V"]], dtype=jnp.float64)
        n0 = len(getattr(sv, "_verif_permutations", []))
        key_before = np.asarray(jax.random.key_data(sv.key)) if hasattr(jax.random, "key_data") else np.asarray(sv.key)
        new = sv._update_values(sv.batched_states, p.action_space, p.random_event_space, g, V)
        perms = getattr(sv, "_verif_permutations", [])[n0:]
        perm = perms[0] if perms else None
        # independent recomputation of the permutation from the key held before the sweep: one split, nothing else consumes it
        recomputed = "_"
        if op.get("shuffle", 0):
            import jax.random as jr
            k2, sub = jr.split(jnp.asarray(key_before, dtype=jnp.uint32))
            recomputed = ",".join(str(int(x)) for x in np.asarray(jr.permutation(sub, jnp.arange(p.n_states))))
            if not (np.asarray(sv.key) == np.asarray(k2)).all():
                recomputed += "!key-mismatch"
        assert new.shape == (p.n_states,)
        return (f"n={p.n_states} maxbs={op['maxbs']} dev={sv.n_devices} npad={sv.n_pad} values={fvals(new)} "
                f"perm={'_' if perm is None else ','.join(str(int(x)) for x in perm)} recomputed={recomputed}")
    if o == "evaluate":
        p = PROBLEMS[op["id"]]
        key = (op["id"], op["maxbs"], op["test"], op["gamma"], op["eps"], op["budget"])
        if key not in SWEEPERS:
            SWEEPERS[key] = solver_class("pi")(p, gamma=float(Fraction(op["gamma"])), epsilon=float(Fraction(op["eps"])),
                                               max_batch_size=op["maxbs"], convergence_test=op["test"], max_eval_iter=op["budget"], verbose=0)
        sv = SWEEPERS[key]
        pol = jnp.asarray(np.asarray(p.action_space)[np.array(op["pol"], dtype=int)])
        V = jnp.array([float(Fraction(x)) for x in op["V"]], dtype=jnp.float64)
        out = sv._evaluate_policy(pol, starting_values=V)
        return f"n={p.n_states} maxbs={op['maxbs']} dev={sv.n_devices} values={fvals(out)}"
    if o == "setpolicy":
        kind, sv = SOLVERS[op["sid"]]
        sv.policy = jnp.asarray(np.asarray(sv.problem.action_space)[np.array(op["pol"], dtype=int)])
        return "ok"
    if o == "basedir":
        BASE["dir"] = op["path"]
        if op.get("slow_commit") and not BASE.get("slowed"):
            # slow storage: the commit (rename of the finished temporary directory) of every checkpoint takes a while, so that with asynchronous
            # saving later save requests arrive while a write is still in flight
            import os as _os
            import time as _time
            BASE["slowed"] = True
            delay = float(op["slow_commit"])

            def _slow(orig):
                def w(*a, **kw):
                    if ".orbax-checkpoint-tmp" in _os.path.basename(_os.fsdecode(a[0])):
                        _time.sleep(delay)
                    return orig(*a, **kw)
                return w
            _os.rename = _slow(_os.rename)
            _os.replace = _slow(_os.replace)
        return "ok"
    if o == "ls":
        import orbax.checkpoint as ocp
        path = real_dir(op["dir"])
        tsid = op.get("template_sid")
        if tsid not in SOLVERS:
            tsid = op.get("template_fallback")
        if tsid in SOLVERS and getattr(SOLVERS[tsid][1], "checkpoint_manager", None) is not None:
            SOLVERS[tsid][1].checkpoint_manager.wait_until_finished()
        for kind_, sv_ in SOLVERS.values():
            cm = getattr(sv_, "checkpoint_manager", None)
            if cm is not None:
                cm.wait_until_finished()
        created, cfg, steps, other = list_dir(path)
        vals, iters = [], []
        if steps and tsid in SOLVERS:
            mgr = ocp.CheckpointManager(path)
            for k in steps:
                st = mgr.restore(k, args=ocp.args.StandardRestore(SOLVERS[tsid][1].solver_state))
                vals.append(fvals(st.values)); iters.append(str(int(st.info.iteration)))
            mgr.close()
        return (f"created={'true' if created else 'false'} config={'true' if cfg else 'false'} steps={flist(steps)} "
                f"stepvals={';'.join(vals)} stepiters={flist(iters)} other={'+'.join(other) if other else '-'}")
    if o == "restore":
        cls = solver_class(op["solver"])
        kw = {}
        if "step" in op:
            kw["step"] = op["step"]
        if "newdir" in op:
            kw["new_checkpoint_dir"] = real_dir(op["newdir"])
        if "f" in op:
            kw["checkpoint_frequency"] = op["f"]
        if "m" in op:
            kw["max_checkpoints"] = op["m"]
        if "async" in op:
            kw["enable_async_checkpointing"] = bool(op["async"])
        try:
            sv = cls.restore(real_dir(op["dir"]), **kw)
        except Exception as e:  # noqa: BLE001
            return f"error={err_class(e)} msg={str(e)[:60].replace(' ', '_').replace('=', ':')}"
        attach_sink()
        SOLVERS[op["sid"]] = (op["solver"], sv)
        PROBLEMS.setdefault(op.get("id", "_restored_" + op["sid"]), sv.problem)
        extra = (f" cfg_f={sv.checkpoint_frequency} cfg_m={sv.max_checkpoints} cfg_async={int(bool(sv.enable_async_checkpointing))} "
                 f"cfg_dir={'-' if getattr(sv, 'checkpoint_dir', None) is None else os.path.basename(str(sv.checkpoint_dir))}")
        return "ok " + state_line(op["solver"], sv, False, 0, []) + extra
    if o == "load":
        kind, sv = SOLVERS[op["sid"]]
        try:
            sv.load_checkpoint(real_dir(op["dir"]), step=op.get("step"))
        except Exception as e:  # noqa: BLE001
            return f"error={err_class(e)} msg={str(e)[:60].replace(' ', '_').replace('=', ':')}"
        return "ok " + state_line(kind, sv, False, 0, [])
    if o == "construct":
        import importlib
        import tempfile as _tf
        import shutil as _sh
        kind = op["solver"]
        cls = solver_class(kind)
        params = dict(op["params"])
        mod, pcls = op["problem"]["target"].rsplit(".", 1)
        PCls = getattr(importlib.import_module(mod), pcls)
        pkw = op["problem"].get("kwargs", {})
        route = op["route"]
        tmpd = None
        try:
            if route == "kwargs":
                sv = cls(PCls(**pkw), **params)
            elif route == "config":
                if op.get("bad_problem"):
                    sv = cls(config=cls.Config(problem={"not": "a config"}, **params))
                else:
                    sv = cls(config=cls.Config(problem=PCls.Config(**pkw), **params))
            else:
                from hydra.utils import instantiate
                from omegaconf import OmegaConf
                tmpd = _tf.mkdtemp(prefix="mdpaxv_c20_")
                if route == "yaml_inst_cfg":
                    # a problem instance together with a configuration object that (still) names another problem, e.g. one reused from an
                    # earlier solver: the instance is the problem, and the saved file must describe the instance
                    other = dict(pkw, **op["problem"].get("other_kwargs", {}))
                    first = cls(PCls(**pkw), config=cls.Config(problem=PCls.Config(**other), **dict(params, checkpoint_dir=tmpd, checkpoint_frequency=1)))
                else:
                    first = cls(PCls(**pkw), **dict(params, checkpoint_dir=tmpd, checkpoint_frequency=1))
                cfg = OmegaConf.load(os.path.join(tmpd, "config.yaml"))
                cfg.checkpoint_frequency = params.get("checkpoint_frequency", 0)
                sv = instantiate(cfg)
        except Exception as e:  # noqa: BLE001
            if tmpd:
                _sh.rmtree(tmpd, ignore_errors=True)
            return f"construct=error:{err_class(e)} msg={str(e)[:70].replace(' ', '_').replace('=', ':')}"
        if tmpd:
            _sh.rmtree(tmpd, ignore_errors=True)
        cfg_ = sv.config
        attrs = ";".join(f"{k_}:{getattr(cfg_, k_, None)}" for k_ in ("gamma", "epsilon", "max_batch_size", "convergence_test", "period", "max_eval_iter",
                                                                     "reset_values_for_each_policy_eval", "clear_value_history_on_convergence",
                                                                     "shuffle_states", "random_seed", "verbose", "max_checkpoints", "jax_double_precision"))
        attrs += f";attr_period:{getattr(sv, 'period', None)};attr_bs:{sv.batch_size};attr_eps:{float(sv.epsilon)}"
        out = (f"construct=ok thr={frac(Fraction(float(sv.conv_threshold)))} gamma_dtype={jnp.asarray(sv.gamma).dtype} fmt={getattr(sv, 'convergence_format', '_')} "
               f"attrs={attrs.replace(' ', '')}")
        try:
            st = sv.solve(op.get("k", 3))
        except Exception as e:  # noqa: BLE001
            return out + f" solve=error:{err_class(e)} msg={str(e)[:70].replace(' ', '_').replace('=', ':')}"
        return out + f" solve=ok iter={int(st.info.iteration)} values_dtype={st.values.dtype} values={fvals(st.values)} policy={policy_idx(sv.problem, st.policy)}"
    if o == "pconstruct":
        import importlib
        mod, pcls = op["target"].rsplit(".", 1)
        PCls = getattr(importlib.import_module(mod), pcls)
        try:
            if op.get("via") == "config":
                PCls.Config(**op["kwargs"])
            else:
                PCls(**op["kwargs"])
        except Exception as e:  # noqa: BLE001
            return f"error={err_class(e)}"
        return "ok"
    if o == "verbosity":
        # utils.logging.verbosity_to_loguru_level on any Python value, and Solver.set_verbosity (integer or name) on a real solver:
        # the integer it stores and the level of the loguru handler it installs
        from loguru import logger
        from mdpax.utils.logging import verbosity_to_loguru_level
        names = ["TRACE", "DEBUG", "INFO", "WARNING", "ERROR"]
        try:
            if "set" in op:
                sv = SOLVERS.get("_verbosity_probe")
                if sv is None:
                    from mdpax.problems.forest import Forest
                    sv = SOLVERS["_verbosity_probe"] = solver_class("vi")(Forest(S=3), gamma=0.5, epsilon=0.1, verbose=0)
                sv.set_verbosity(op["set"])
                hs = list(logger._core.handlers.values())
                lv = [n for n in names if len(hs) == 1 and logger.level(n).no == hs[0].levelno]
                out = f"ok verbose={sv.verbose} level={lv[0] if lv else '?'}"
                sv.set_verbosity(0)
                return out
            return f"ok level={verbosity_to_loguru_level(op['value'])}"
        except Exception as e:  # noqa: BLE001
            return f"error={err_class(e)}"
    if o == "configdump":
        from omegaconf import OmegaConf
        kind, sv = SOLVERS[op["sid"]]
        c = OmegaConf.to_container(OmegaConf.structured(sv.config), resolve=True)
        for k in ("checkpoint_dir", "checkpoint_frequency", "max_checkpoints", "enable_async_checkpointing"):
            c.pop(k, None)
        pcls = type(sv.problem).__name__
        attrs = {"period": getattr(sv, "period", None), "gamma": float(sv.gamma), "epsilon": float(sv.epsilon), "problem_class": pcls,
                 "n_states": int(sv.problem.n_states)}
        return "config=" + json.dumps(c, sort_keys=True, default=str).replace(" ", "") + " attrs=" + json.dumps(attrs, sort_keys=True).replace(" ", "")
    if o == "cpdir":
        import shutil as _sh
        for kind_, sv_ in SOLVERS.values():
            cm = getattr(sv_, "checkpoint_manager", None)
            if cm is not None:
                cm.wait_until_finished()
        _sh.copytree(real_dir(op["src"]), real_dir(op["dst"]))
        return "ok"
    if o == "rmdir":
        import shutil as _sh
        _sh.rmtree(real_dir(op["dir"]), ignore_errors=True)
        return "ok"
    if o == "mktmp":
        os.makedirs(os.path.join(real_dir(op["dir"]), op["name"]), exist_ok=True)
        return "ok"
    if o == "setvalues":
        kind, sv = SOLVERS[op["sid"]]
        sv.values = jnp.array([float(Fraction(x)) for x in op["V"]], dtype=jnp.float64)
        return "ok"
    if o == "solve":
        kind, sv = SOLVERS[op["sid"]]
        it0 = int(sv.iteration)
        np0 = len(getattr(sv, "_verif_permutations", []))
        LOG.clear()
        try:
            ret = sv.solve(max_iterations=op["k"])
        except Exception as e:  # noqa: BLE001
            return f"error={err_class(e)} msg={str(e)[:60].replace(' ', '_').replace('=', ':')}"
        if getattr(sv, "checkpoint_manager", None) is not None:
            sv.checkpoint_manager.wait_until_finished()
        # what solve() RETURNS is what the caller sees: it must be the state the solver holds (the harness reads the attributes)
        bad_ret = []
        try:
            if not np.array_equal(np.asarray(ret.values), np.asarray(sv.values)):
                bad_ret.append("values")
            if (ret.policy is None) != (sv.policy is None) or (ret.policy is not None and not np.array_equal(np.asarray(ret.policy), np.asarray(sv.policy))):
                bad_ret.append("policy")
            if int(ret.info.iteration) != int(sv.iteration):
                bad_ret.append("iteration")
            if hasattr(ret.info, "gain") and float(ret.info.gain) != float(sv.gain):
                bad_ret.append("gain")
            if hasattr(ret.info, "history_index") and int(ret.info.history_index) != int(sv.history_index):
                bad_ret.append("history_index")
        except Exception as e:  # noqa: BLE001
            bad_ret.append("unreadable:" + err_class(e))
        if bad_ret:
            return "error=ReturnedStateDiffersFromSolverState msg=" + "+".join(bad_ret)
        conv = any(("Convergence threshold reached" in m) or ("Policy converged" in m) for m in LOG)
        saves = []
        for m in LOG:
            if m.startswith("Checkpoint ") and " for iteration " in m:
                saves.append(int(m.rsplit(" ", 1)[1]))
        extra = ""
        import re as _re
        meas = [m for m in LOG if _re.match(r"Iteration \d+: [a-z_ ]+: ", m)]
        if meas and kind != "pi":
            mm = _re.match(r"Iteration \d+: [a-z_ ]+: ([-0-9.einf]+)", meas[-1])
            if mm:
                extra += f" lastmeasure={mm.group(1)} fmt={sv.convergence_format}"
        if kind == "pi":
            # number of evaluation sweeps of the last policy-iteration step (messages between the last two 'Iteration k: Policy updated' lines)
            cnt, last = 0, 0
            for m in LOG:
                if m.startswith("Policy evaluation iteration"):
                    cnt += 1
                elif m.startswith("Iteration ") and "Policy updated" in m:
                    last, cnt = cnt, 0
            extra += f" lastevaln={last}"
        if kind == "semi" and hasattr(sv, "_verif_permutations"):
            extra += " perms=" + ";".join("_" if q is None else ",".join(str(int(x)) for x in q) for q in sv._verif_permutations[np0:])
        return state_line(kind, sv, conv, int(sv.iteration) - it0, saves) + extra
    raise ValueError(f"unknown op {o}")


def main():
    ops = json.loads(open(sys.argv[1]).read())
    out = []
    for op in ops:
        try:
            EXTRA.pop("last", None)
            r = {"resp": do(op)}
            if "last" in EXTRA:
                r["data"] = EXTRA.pop("last")
            out.append(r)
        except Exception as e:  # noqa: BLE001
            out.append({"resp": f"impl-exception={err_class(e)}", "trace": traceback.format_exc()[-3000:]})
    open(sys.argv[2], "w").write(json.dumps(out))


if __name__ == "__main__":
    main()
