"""C03 — independence of batch size, device count and padding: the same runs under 1..8 emulated devices x batch sizes,
compared pairwise (implementation vs implementation) and against the layout-aware model."""
from __future__ import annotations

import random
from fractions import Fraction

from harness import core, gen, oracle, session
from harness.c08 import compare_state, spec_size


def configs_for(rng, S):
    out = []
    out.append({"solver": "vi", "gamma": "1/2", "eps": rng.choice(["1/16", "1/1024"]), "test": rng.choice(["span", "max_diff"])})
    out.append({"solver": "rvi", "gamma": "1", "eps": rng.choice(["1/8", "1/64"])})
    out.append({"solver": "periodic", "gamma": rng.choice(["1", "1/2"]), "period": rng.randint(2, 3), "eps": "1/16", "clear": 0})
    out.append({"solver": "pi", "gamma": "1/2", "eps": "1/16", "test": rng.choice(["span", "max_diff"]), "budget": rng.choice([2, 5, 100]),
                "reset": rng.randint(0, 1)})
    out.append({"solver": "semi", "gamma": "1/2", "eps": "1/64", "test": "max_diff", "shuffle": 0})
    return out


def build(tier, seed):
    rng = random.Random(seed * 7 + 3)
    nprob = 4 if tier == "quick" else 14
    devs = [1, 2, 3, 4, 8] if tier == "quick" else [1, 2, 3, 4, 5, 6, 7, 8]
    probs = []
    for i in range(nprob):
        S = rng.choice([1, 2, 3, 5, 7, 8, 11, 12] if tier == "quick" else [1, 2, 3, 4, 5, 6, 7, 8, 11, 12, 13, 16, 17, 24])
        spec = gen.gen_spec(rng, S=S, kind="unichain", denom=4, R=rng.choice([1, 5]), zero_in_box=(i % 2 == 0))
        cfgs = configs_for(rng, S)
        mbs = sorted(set([1, 2, 3, S, S + 1, 64] + ([max(1, S // 2)] if S > 3 else []) + ([S + rng.randint(2, 9)])))
        if tier == "quick":
            mbs = sorted(set(rng.sample(mbs, min(4, len(mbs))) + [max(1, S // 2)]))
        probs.append((i, spec, cfgs, mbs, [2, 3]))
    jobs = []
    for d in devs:
        ops = []
        for (i, spec, cfgs, mbs, ks) in probs:
            ops.append({"op": "problem", "id": f"p{i}", "spec": {k: v for k, v in spec.items() if not k.startswith("_")}, "_tags": spec["_tags"]})
            for ci, cfg in enumerate(cfgs):
                for mb in mbs:
                    sid = f"s{i}_{ci}_{mb}"
                    ops.append(dict(cfg, op="new", sid=sid, id=f"p{i}", maxbs=mb, n_hint=spec_size(spec), dev_hint=d, _cfg=ci))
                    for k in ks:
                        ops.append({"op": "solve", "sid": sid, "k": k, "_key": (i, ci), "_mb": mb})
        jobs.append((ops, d))
    return jobs


def run(tier, seed):
    res = core.Result("C03")
    res.rule = ("every solver (VI, RVI, periodic, PI, semi-async fixed order) on generated problems (zero vector inside and outside the state box; "
                "n_states incl. primes and n_states < devices) under emulated device counts x max_batch_size in {1,2,3,n/2,n,n+1,n+k,64}; two solve calls each; "
                "all layouts compared pairwise on the implementation (values, iteration, convergence, policy, gain, history) and with the layout-aware "
                "model; shapes (devices, batch size, padding) compared with Model/Batch. distinct non-trivial = distinct (problem, solver, devices, "
                "max_batch_size) runs")
    jobs = build(tier, seed)
    outs = session.run_sessions_parallel(jobs, workers=8)
    by_key = {}     # (prob, cfg, call#) -> list of (devices, maxbs, impl parsed, raw)
    for (ops, d), out in zip(jobs, outs):
        tabs, news, ncall, total = {}, {}, {}, {}
        for (op, m, i, line) in out:
            o = op["op"]
            if o == "problem":
                tabs[op["id"]] = oracle.Tab.from_line(i) if i.startswith("problem ") else None
                if d == 1:
                    for tg in op.get("_tags", []):
                        res.count("tag:" + tg)
                continue
            if o == "new":
                news[op["sid"]] = op
                ncall[op["sid"]] = 0
                total[op["sid"]] = 0
                di = core.parse_resp(i)
                if "npad" in di:
                    res.count("padding>0" if int(di["npad"]) > 0 else "padding=0")
                    exp = core.parse_resp(BATCH.get((di["n"], di["maxbs"], di["dev"]), "")) if False else None
                    SHAPES.append((di["n"], di["maxbs"], di["dev"], di["bsz"], di["npad"], d))
                continue
            if o != "solve":
                continue
            new = news[op["sid"]]
            t = tabs[new["id"]]
            ncall[op["sid"]] += 1
            total[op["sid"]] += op["k"]
            res.evaluations += 1
            res.nontrivial.add((new["id"], new["solver"], d, new["maxbs"]))
            res.count(f"devices={d}")
            case = {"new": {k: v for k, v in new.items() if not k.startswith("_")}, "k": op["k"], "call": ncall[op["sid"]], "devices": d, "driver_line": line}
            di = core.parse_resp(i)
            by_key.setdefault((op["_key"], ncall[op["sid"]]), []).append((d, new["maxbs"], di, i, new, t, total[op["sid"]]))
            if "error" in di or "impl-exception" in i:
                hdr = core.parse_resp(IMPLNEW.get((d, op["sid"]), ""))
                res.disagreements.append({"channel": "C03/solve-raises", "case": case, "model": (m or "")[:300], "impl": i[:300], "failing_input": True,
                                          "what": f"solve() raises {di.get('error')} ({di.get('msg', '')}) for this layout while other layouts of the same problem run",
                                          "key": ("sharding-error:dev>=2,npad=0" if "Sharding_passed_to_jit" in di.get("msg", "") and d >= 2 else f"raises:{di.get('error')}")})
                continue
            if m is None:
                continue
            for key, fail in compare_state(res, op, new, t, m, i, line, d, total[op["sid"]]):
                res.disagreements.append({"channel": f"C03/{new['solver']}/{key}", "case": case, "model": m[:500], "impl": i[:500], "failing_input": fail,
                                          "what": f"{key} differs from the layout-aware model", "key": f"{new['solver']}:{key}"})
            if len(res.samples) < 4 and d > 1:
                res.sample({"new": case["new"], "devices": d, "request": line, "impl": i[:160]})
    # pairwise comparison of layouts (implementation vs implementation)
    for (key, call), runs in by_key.items():
        ok = [r for r in runs if "values" in r[2]]
        if len(ok) < 2:
            continue
        ref = ok[0]
        solver = ref[4]["solver"]
        for r in ok[1:]:
            res.count("pairwise-compared")
            if solver == "semi":
                continue        # the semi-async sweep legitimately depends on the partition (bound checked in C01)
            same = all(ref[2].get(k) == r[2].get(k) for k in ("iter", "conv", "values", "policy", "gain", "hidx", "hist"))
            if not same:
                t = ref[5]
                R = max([abs(x) for x in t.rew] + [0]); M = R * (ref[6] + 1) + max([abs(x) for x in t.init] + [0])
                tol = session.envelope(M, t.E, ref[6] * ref[4].get("budget", 1))
                a, b = core.plist(ref[2]["values"]), core.plist(r[2]["values"])
                exact = session.safely_exact(a, M, t.E)
                dec = all(ref[2].get(k) == r[2].get(k) for k in ("iter", "conv", "hidx"))
                how = session.vec_compare(a, b, tol)
                if exact or not dec or how == "differ":
                    res.disagreements.append({"channel": f"C03/pairwise/{solver}", "case": {"new": {k: v for k, v in ref[4].items() if not k.startswith('_')}, "layout_a": (ref[0], ref[1]), "layout_b": (r[0], r[1]), "call": call},
                                              "model": ref[3][:400], "impl": r[3][:400], "failing_input": True,
                                              "what": f"results differ between (devices,max_batch_size)={(ref[0], ref[1])} and {(r[0], r[1])}", "key": f"pairwise:{solver}"})
                else:
                    res.ambiguous += 1
    # reported shapes vs Model/Batch
    uniq = sorted(set(SHAPES))
    model = core.run_driver([f"batch n={n} maxbs={mb} dev={dv}" for (n, mb, dv, _, _, _) in uniq])
    for (n, mb, dv, bsz, npad, d), m in zip(uniq, model):
        dm = core.parse_resp(m)
        res.evaluations += 1
        if str(d) != dv or dm["bsz"] != bsz or dm["npad"] != npad:
            res.disagreements.append({"channel": "C03/shapes", "case": {"n": n, "maxbs": mb, "devices_available": d}, "model": m, "impl": f"dev={dv} bsz={bsz} npad={npad}",
                                      "failing_input": str(d) != dv, "what": "reported devices/batch size/padding differ from the model or from the available devices", "key": "shapes"})
    SHAPES.clear()
    return res


SHAPES: list = []
BATCH: dict = {}
IMPLNEW: dict = {}


def replay(rep, tier, seed):
    return run(tier, rep.get("seed", seed))
