"""Tabular Problem subclass driven by explicit tables, and generic tabulation of any Problem.

The *solver* code is what is under test; the problem is data.  State / action / event vectors are
rows of integer boxes (dimension 1..3, possibly with non-zero lower bounds), so `state_to_index`
is a non-trivial function and the all-zero padding vector is a real state in some problems and
not in others.
"""
from __future__ import annotations

import itertools
from fractions import Fraction

import jax
import jax.numpy as jnp
import numpy as np

from mdpax.core.problem import Problem


def box(mins, maxs):
    return np.array(list(itertools.product(*[range(a, b + 1) for a, b in zip(mins, maxs)])), dtype=np.int32)


def strides(mins, maxs):
    dims = [b - a + 1 for a, b in zip(mins, maxs)]
    st = [1] * len(dims)
    for i in range(len(dims) - 2, -1, -1):
        st[i] = st[i + 1] * dims[i + 1]
    return np.array(st, dtype=np.int32)


class TabProblem(Problem):
    """spec keys: smins,smaxs,amins,amaxs,emins,emaxs (boxes), nxt[S][A][E] (row number of successor,
    or a list = explicit successor vector), rew[S][A][E] (float), prob[S][A][E] (float),
    init[S] (float) or None, initpol[S] (action row number) or None, prob_as_array (bool)."""

    def __init__(self, spec):
        self.spec = spec
        self._smins = np.array(spec["smins"], dtype=np.int32)
        self._sstr = strides(spec["smins"], spec["smaxs"])
        self._amins = np.array(spec["amins"], dtype=np.int32)
        self._astr = strides(spec["amins"], spec["amaxs"])
        self._emins = np.array(spec["emins"], dtype=np.int32)
        self._estr = strides(spec["emins"], spec["emaxs"])
        self._S = box(spec["smins"], spec["smaxs"])
        self._A = box(spec["amins"], spec["amaxs"])
        self._E = box(spec["emins"], spec["emaxs"])
        S, A, E = len(self._S), len(self._A), len(self._E)
        nxt_vec = np.zeros((S, A, E, self._S.shape[1]), dtype=np.int32)
        for s in range(S):
            for a in range(A):
                for e in range(E):
                    v = spec["nxt"][s][a][e]
                    nxt_vec[s, a, e] = self._S[v] if isinstance(v, int) else np.array(v, dtype=np.int32)
        self._nxt_vec = jnp.array(nxt_vec)
        # dtype of the reward that `transition` returns (an integer- or float32-typed reward is a legitimate Problem)
        self._rew = jnp.array(np.array(spec["rew"], dtype=np.float64).astype(spec.get("rew_dtype", "float64")))
        self._prob = jnp.array(np.array(spec["prob"], dtype=np.float64))
        # dtype of the estimate that `initial_value` returns: an integer-typed initial estimate (e.g. `return 0`, `return state[0]`) is legitimate
        self._init_dtype = spec.get("init_dtype", "float64")
        self._init = None if spec.get("init") is None else jnp.array(np.array(spec["init"], dtype=np.float64).astype(
            self._init_dtype if self._init_dtype in ("int32", "float32") else "float64"))
        self._initpol = None if spec.get("initpol") is None else jnp.array(self._A[np.array(spec["initpol"])])
        self._prob_as_array = bool(spec.get("prob_as_array", False))
        super().__init__()

    @property
    def name(self):
        return "tabular"

    def _construct_state_space(self):
        return jnp.array(self._S)

    def _construct_action_space(self):
        return jnp.array(self._A)

    def _construct_random_event_space(self):
        return jnp.array(self._E)

    def state_to_index(self, state):
        return jnp.dot(state - self._smins, self._sstr)

    def _sa(self, state, action, event):
        n_s, n_a, n_e = self._rew.shape
        s = jnp.clip(jnp.dot(state - self._smins, self._sstr), 0, n_s - 1)
        a = jnp.clip(jnp.dot(action - self._amins, self._astr), 0, n_a - 1)
        e = jnp.clip(jnp.dot(event - self._emins, self._estr), 0, n_e - 1)
        return s, a, e

    def random_event_probability(self, state, action, random_event):
        s, a, e = self._sa(state, action, random_event)
        p = self._prob[s, a, e]
        return p.reshape(1) if self._prob_as_array else p

    def transition(self, state, action, random_event):
        s, a, e = self._sa(state, action, random_event)
        return self._nxt_vec[s, a, e], self._rew[s, a, e]

    def initial_value(self, state):
        if self._init is None:
            return 0 if self._init_dtype == "pyint0" else 0.0
        s = jnp.clip(jnp.dot(state - self._smins, self._sstr), 0, self._rew.shape[0] - 1)
        return self._init[s]

    def initial_policy(self, state):
        if self._initpol is None:
            raise NotImplementedError("No custom initial policy defined")
        s = jnp.clip(jnp.dot(state - self._smins, self._sstr), 0, self._rew.shape[0] - 1)
        return self._initpol[s]


class TabProblemVariant(TabProblem):
    """A parameter-variant subclass: it inherits every method (`initial_policy`, `initial_value`, `transition` …) from its parent and defines
    none itself — a problem supplied through an intermediate class must behave exactly like one that defines the methods in its own body."""

    @property
    def name(self):
        return "tabular-variant"


class _PolicyMixin:
    """supplies `initial_policy` from outside the problem class hierarchy"""

    def initial_policy(self, state):
        if self._initpol is None:
            raise NotImplementedError("No custom initial policy defined")
        s = jnp.clip(jnp.dot(state - self._smins, self._sstr), 0, self._rew.shape[0] - 1)
        return self._initpol[s]


class TabProblemMixed(_PolicyMixin, TabProblemVariant):
    pass


def make_problem(spec):
    return {"variant": TabProblemVariant, "mixin": TabProblemMixed}.get(spec.get("via"), TabProblem)(spec)


def tabulate(problem):
    """Tables of any Problem, obtained by calling the problem's own functions on every (s,a,e).
    Returns python ints / floats (exact)."""
    S, A, E = problem.state_space, problem.action_space, problem.random_event_space

    def one(s, a, e):
        ns, r = problem.transition(s, a, e)
        p = problem.random_event_probability(s, a, e)
        return problem.state_to_index(ns), jnp.asarray(r, dtype=jnp.float64).reshape(()), jnp.asarray(p, dtype=jnp.float64).reshape(())

    f = jax.vmap(jax.vmap(jax.vmap(one, in_axes=(None, None, 0)), in_axes=(None, 0, None)), in_axes=(0, None, None))
    nxt, rew, prob = f(S, A, E)
    sidx = jax.vmap(problem.state_to_index)(S)
    zidx = problem.state_to_index(jnp.zeros(S.shape[1], dtype=S.dtype))
    init = jax.vmap(lambda s: jnp.asarray(problem.initial_value(s), dtype=jnp.float64).reshape(()))(S)
    try:
        ip = np.array(jax.vmap(problem.initial_policy)(S))
        An = np.array(A)
        initpol = [int(np.where((An == row).all(axis=1))[0][0]) for row in ip]
    except NotImplementedError:
        initpol = None
    return {
        "S": int(S.shape[0]), "A": int(A.shape[0]), "E": int(E.shape[0]),
        "nxt": [int(x) for x in np.array(nxt).reshape(-1)],
        "rew": [float(x) for x in np.array(rew, dtype=np.float64).reshape(-1)],
        "prob": [float(x) for x in np.array(prob, dtype=np.float64).reshape(-1)],
        "sidx": [int(x) for x in np.array(sidx).reshape(-1)],
        "zidx": int(zidx),
        "init": [float(x) for x in np.array(init, dtype=np.float64).reshape(-1)],
        "initpol": initpol,
    }


def frac(x) -> str:
    f = Fraction(x)
    return str(f.numerator) if f.denominator == 1 else f"{f.numerator}/{f.denominator}"


def flist(xs, f=str):
    xs = list(xs)
    return ",".join(f(x) for x in xs) if xs else "-"


def problem_line(pid, tab):
    s = (f"problem id={pid} S={tab['S']} A={tab['A']} E={tab['E']} nxt={flist(tab['nxt'])} "
         f"rew={flist(tab['rew'], frac)} prob={flist(tab['prob'], frac)} sidx={flist(tab['sidx'])} "
         f"zidx={tab['zidx']} init={flist(tab['init'], frac)}")
    if tab.get("initpol") is not None:
        s += f" initpol={flist(tab['initpol'])}"
    return s
