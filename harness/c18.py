"""C18 — batching arithmetic, layout and round trip: real BatchProcessor vs Model/Batch.lean."""
from __future__ import annotations

import random

from harness import core


def line(op):
    # `prepare_seq` (several prepare_batches calls on ONE BatchProcessor with inputs of different dtypes) is answered by the model's `prepare`
    name = "prepare" if op["op"] == "prepare_seq" else op["op"]
    return f"{name} n={op['n']} maxbs={op['maxbs']} dev={op['dev']}"


def oracle(op, resp: str):
    """The property's own statement evaluated on the implementation's answer. Returns None if it holds."""
    n, maxbs, dev = op["n"], op["maxbs"], op["dev"]
    try:
        if op["op"] == "batch":
            d = core.parse_resp(resp)
            dv, nb, bsz, npad = int(d["dev"]), int(d["nb"]), int(d["bsz"]), int(d["npad"])
            if dv != dev:
                return f"device count {dv} != requested {dev}"
            if not (1 <= bsz <= maxbs):
                return f"batch_size {bsz} outside [1,{maxbs}]"
            if nb < 1 or npad < 0 or dv * nb * bsz != n + npad:
                return f"slots {dv}*{nb}*{bsz} != n {n} + padding {npad}"
        elif op["op"] == "prepare_seq" and resp.startswith("lossy"):
            return "a later prepare_batches call on the same BatchProcessor does not lay out its own input exactly (" + resp + ")"
        elif op["op"] in ("prepare", "prepare_seq"):
            devs = [[b.split(",") for b in d.split(";")] for d in resp.split("|")]
            flat = [x for d in devs for b in d for x in b]
            if flat[:n] != [str(i) for i in range(n)] or any(x != "_" for x in flat[n:]):
                return "layout is not the states in order followed only by padding"
            if len({len(b) for d in devs for b in d}) != 1 or len({len(d) for d in devs}) != 1 or len(devs) != dev:
                return "layout is not rectangular devices x batches x batch_size"
            if not (1 <= len(devs[0][0]) <= maxbs):
                return "batch_size outside [1,max]"
        elif op["op"] == "unbatch":
            if "mismatch" in resp:
                return "trailing dimensions do not travel with their rows"
            if resp.split(" ")[0] != ",".join(str(i) for i in range(n)):
                return "un-batching does not return one row per state in original order"
    except Exception as e:  # noqa: BLE001
        return f"unparseable answer ({e}): {resp[:80]}"
    return None


def run(tier: str, seed: int) -> core.Result:
    rng = random.Random(seed)
    res = core.Result("C18")
    res.rule = ("batch: exhaustive box n x max_batch_size x devices (explicit pmap_device_count) — attributes and batch_shape; "
                "prepare/unbatch: structured + random sample of the box with trailing shapes (), (3,), (2,3); "
                "default device count in subprocesses with 1 and 3 emulated devices. "
                "non-trivial = distinct (n,maxbs,dev) with padding>0, or >1 batch, or the 64-slot minimum active")
    nmax = 150 if tier == "quick" else 600
    mb = list(range(1, 71)) + [127, 128, 1024]
    ops = []
    for n in range(1, nmax + 1):
        for m in mb:
            for dev in range(1, 9):
                ops.append({"op": "batch", "n": n, "maxbs": m, "dev": dev})
    res.exhaustive = True
    # structured + random layouts for prepare / unbatch
    pick = set()
    for n in [1, 2, 3, 5, 7, 8, 13, 63, 64, 65, 127, 128, 129, 149]:
        for m in [1, 2, 3, 7, 63, 64, 65, 1024]:
            for dev in [1, 2, 3, 8]:
                pick.add((n, m, dev))
    k = 600 if tier == "quick" else 6000
    while len(pick) < k:
        pick.add((rng.randint(1, nmax), rng.choice(mb), rng.randint(1, 8)))
    pick = [p for p in pick if ((p[0] + p[2] - 1) // p[2]) * p[2] <= 4000]
    for (n, m, dev) in sorted(pick):
        ops.append({"op": "prepare", "n": n, "maxbs": m, "dev": dev})
        ops.append({"op": "unbatch", "n": n, "maxbs": m, "dev": dev})
    # the same processor used for several arrays in turn (different dtypes, state dimensions 1..2): every call must lay out its own input
    seq = [p for p in sorted(pick) if p[0] <= 200]
    rng.shuffle(seq)
    for (n, m, dev) in seq[: 150 if tier == "quick" else 1500]:
        ops.append({"op": "prepare_seq", "n": n, "maxbs": m, "dev": dev, "order": rng.choice(["i32,f32,f64,i32", "f32,i32,f64", "f64,i32,f32,i32"])})
    # split the impl work over processes
    W = 12
    chunks = [ops[i::W] for i in range(W)]
    outs = core.run_impl_parallel([(c, 1) for c in chunks], workers=W)
    impl = {}
    for c, o in zip(chunks, outs):
        for op, r in zip(c, o):
            impl[op["op"] + "|" + line(op)] = r["resp"]
    lines = [line(op) for op in ops]
    model = core.run_driver(lines)
    for op, l, m in zip(ops, lines, model):
        res.evaluations += 1
        i = impl[op["op"] + "|" + l]
        key = (op["n"], op["maxbs"], op["dev"])
        if op["op"] == "batch":
            d = core.parse_resp(m)
            if int(d["npad"]) > 0:
                res.count("padding>0")
            else:
                res.count("padding=0")
            if int(d["nb"]) > 1:
                res.count("batches>1")
            if op["dev"] > 1 and int(d["bsz"]) == 64:
                res.count("64-slot-minimum")
            if int(d["npad"]) > 0 or int(d["nb"]) > 1:
                res.nontrivial.add(key)
        else:
            res.count(op["op"])
        i_cmp = i.split(" ")[0] if op["op"] == "unbatch" and "mismatch" not in i else i
        if i_cmp != m:
            why = oracle(op, i)
            res.disagreements.append({"channel": f"C18/{op['op']}", "case": op, "model": m[:400], "impl": i[:400],
                                      "failing_input": why is not None, "what": why or "model and implementation differ",
                                      "key": f"{op['op']}:n={op['n']},maxbs={op['maxbs']},dev={op['dev']}"})
        elif res.evaluations % 9973 == 0 or (op["op"] != "batch" and len(res.samples) < 5):
            res.sample({"request": l, "response": m[:160]})
    # default device count = number of available devices
    for devs in (1, 3):
        r = core.run_impl([{"op": "batch", "n": 10, "maxbs": 4, "dev": None}], devices=devs)[0]["resp"]
        res.evaluations += 1
        got = core.parse_resp(r).get("dev")
        exp = core.run_driver([f"batch n=10 maxbs=4 dev={devs}"])[0]
        if r != exp:
            res.disagreements.append({"channel": "C18/default-devices", "case": {"available_devices": devs}, "model": exp, "impl": r,
                                      "failing_input": got != str(devs), "what": f"default device count {got} with {devs} devices available",
                                      "key": f"default-devices:{devs}"})
        else:
            res.sample({"available_devices": devs, "response": r})
    return res


def replay(rep, tier, seed):
    res = core.Result("C18")
    res.rule = "replay"
    for v in rep.get("violations", []):
        op = v.get("case")
        if not op or "op" not in op:
            continue
        i = core.run_impl([op], 1)[0]["resp"]
        m = core.run_driver([line(op)])[0]
        res.evaluations += 1
        res.nontrivial.add(str(op))
        res.sample({"request": line(op), "model": m[:200], "impl": i[:200]})
        i_cmp = i.split(" ")[0] if op["op"] == "unbatch" and "mismatch" not in i else i
        if i_cmp != m:
            why = oracle(op, i)
            res.disagreements.append({"channel": f"C18/{op['op']}", "case": op, "model": m[:400], "impl": i[:400],
                                      "failing_input": why is not None, "what": why or "model and implementation differ", "key": v.get("key")})
    res.nontrivial.add("replay")
    return res
