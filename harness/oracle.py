"""Independent exact (Fraction) reference computations on tabulated problems.
Used (a) as the property's own oracle when model and implementation disagree, (b) to *propose* certificates
(optimal values, policy values, gain/bias) that the Lean driver then verifies with the model's own backup."""
from __future__ import annotations

from fractions import Fraction


class Tab:
    def __init__(self, tab: dict):
        self.S, self.A, self.E = tab["S"], tab["A"], tab["E"]
        self.nxt = tab["nxt"]
        self.rew = [Fraction(x) for x in tab["rew"]]
        self.prob = [Fraction(x) for x in tab["prob"]]
        self.sidx = tab["sidx"]
        self.zidx = tab["zidx"]
        self.init = [Fraction(x) for x in tab["init"]]
        self.initpol = tab.get("initpol")

    def ix(self, s, a, e):
        return (s * self.A + a) * self.E + e

    @staticmethod
    def from_line(line: str) -> "Tab":
        d = {}
        for tok in line.split(" ")[1:]:
            k, v = tok.split("=", 1)
            d[k] = v
        f = lambda s, c: [] if s in ("-", "") else [c(x) for x in s.split(",")]
        return Tab({"S": int(d["S"]), "A": int(d["A"]), "E": int(d["E"]), "nxt": f(d["nxt"], int), "rew": f(d["rew"], Fraction),
                    "prob": f(d["prob"], Fraction), "sidx": f(d["sidx"], int), "zidx": int(d["zidx"]), "init": f(d["init"], Fraction),
                    "initpol": f(d["initpol"], int) if "initpol" in d else None})


def clamp(n, i):
    j = i + n if i < 0 else i
    return 0 if j < 0 else (n - 1 if j >= n else j)


def q(t: Tab, g, V, s, a):
    n = len(V)
    return sum((t.prob[t.ix(s, a, e)] * (t.rew[t.ix(s, a, e)] + g * V[clamp(n, t.nxt[t.ix(s, a, e)])]) for e in range(t.E)), Fraction(0))


def backup(t: Tab, g, V):
    return [max(q(t, g, V, s, a) for a in range(t.A)) for s in range(t.S)]


def greedy(t: Tab, g, V):
    out = []
    for s in range(t.S):
        qs = [q(t, g, V, s, a) for a in range(t.A)]
        out.append(qs.index(max(qs)))
    return out


def span(a, b):
    d = [x - y for x, y in zip(a, b)]
    return max(d) - min(d)


def maxdiff(a, b):
    return max(abs(x - y) for x, y in zip(a, b))


def solve_linear(M, b):
    """Gaussian elimination over Fractions; returns None if singular"""
    n = len(M)
    A = [list(r) + [bb] for r, bb in zip(M, b)]
    for c in range(n):
        p = next((r for r in range(c, n) if A[r][c] != 0), None)
        if p is None:
            return None
        A[c], A[p] = A[p], A[c]
        inv = 1 / A[c][c]
        A[c] = [x * inv for x in A[c]]
        for r in range(n):
            if r != c and A[r][c] != 0:
                f = A[r][c]
                A[r] = [x - f * y for x, y in zip(A[r], A[c])]
    return [A[i][n] for i in range(n)]


def pmat_row(t: Tab, s, a):
    row = [Fraction(0)] * t.S
    r = Fraction(0)
    for e in range(t.E):
        p = t.prob[t.ix(s, a, e)]
        row[clamp(t.S, t.nxt[t.ix(s, a, e)])] += p
        r += p * t.rew[t.ix(s, a, e)]
    return row, r


def policy_value(t: Tab, g, pol):
    M, b = [], []
    for s in range(t.S):
        row, r = pmat_row(t, s, pol[s])
        M.append([(1 if i == s else 0) - g * row[i] for i in range(t.S)])
        b.append(r)
    return solve_linear(M, b)


def optimal(t: Tab, g, max_it=200):
    pol = [0] * t.S
    for _ in range(max_it):
        U = policy_value(t, g, pol)
        if U is None:
            return None, None
        new = greedy(t, g, U)
        # keep current action when it is also maximal (avoid cycling among ties)
        new = [pol[s] if q(t, g, U, s, pol[s]) == q(t, g, U, s, new[s]) else new[s] for s in range(t.S)]
        if new == pol:
            return U, pol
        pol = new
    return None, None


def gain_bias(t: Tab, pol, ref=None):
    """solve g + h = r_pol + P_pol h with h[ref] = 0 (unichain); returns (g, h) or None"""
    S = t.S
    ref = S - 1 if ref is None else ref
    M, b = [], []
    for s in range(S):
        row, r = pmat_row(t, s, pol[s])
        # unknowns: h[0..S-1] except h[ref] replaced by g
        eq = [((1 if i == s else 0) - row[i]) for i in range(S)]
        eq[ref] = Fraction(1)  # coefficient of g (h[ref]=0)
        M.append(eq)
        b.append(r)
    sol = solve_linear(M, b)
    if sol is None:
        return None
    g = sol[ref]
    h = list(sol)
    h[ref] = Fraction(0)
    return g, h


def optimal_gain(t: Tab, max_it=200):
    """average-reward policy iteration (unichain): returns (g*, h*, policy) with g* + h* = T h* verified by caller"""
    pol = [0] * t.S
    for _ in range(max_it):
        gb = gain_bias(t, pol)
        if gb is None:
            return None
        g, h = gb
        new = greedy(t, Fraction(1), h)
        new = [pol[s] if q(t, Fraction(1), h, s, pol[s]) == q(t, Fraction(1), h, s, new[s]) else new[s] for s in range(t.S)]
        if new == pol:
            return g, h, pol
        pol = new
    return None
