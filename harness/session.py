"""Run the same operation list on the real mdpax (subprocess, N emulated devices) and on the Lean model, and compare."""
from __future__ import annotations

from fractions import Fraction

from harness import core
from harness.core import frac, flist, parse_resp, plist


def driver_line(op: dict, impl_resp: str) -> str | None:
    o = op["op"]
    h = parse_resp(impl_resp)
    if o in ("problem", "shipped"):
        return impl_resp if impl_resp.startswith("problem ") else None
    if o in ("sweep", "evalsweep", "initvalues", "semisweep"):
        if "n" not in h:
            return None
        s = f"{o} id={op['id']} n={h['n']} maxbs={h['maxbs']} dev={h['dev']}"
        if o != "initvalues":
            s += f" gamma={op['gamma']} V={flist(op['V'])}"
        if o == "evalsweep":
            s += f" pol={flist(op['pol'])}"
        if o == "semisweep":
            s += f" perm={h.get('perm', '_')} choose={op.get('choose', 'pad')}"
        return s
    if o == "new":
        if "n" not in h:
            # constructor failed on the real side: still ask the model (layout from the op)
            n, dev = op.get("n_hint", 1), op.get("dev_hint", 1)
        else:
            n, dev = h["n"], h["dev"]
        return (f"new sid={op['sid']} solver={op['solver']} id={op['id']} n={n} maxbs={op['maxbs']} dev={dev} gamma={op['gamma']} "
                f"eps={op['eps']} test={op.get('test', 'span')} period={op.get('period', 1)} budget={op.get('budget', 100)} "
                f"reset={op.get('reset', 0)} clear={op.get('clear', 1)} f={op.get('f', 0)} m={op.get('m', 1)} dir={op.get('dir', '-')} cfg={op.get('cfg', 0)}")
    if o in ("basedir", "configdump", "mktmp"):
        return None
    if o == "cpdir":
        return f"cpdir src={op['src']} dst={op['dst']}"
    if o == "rmdir":
        return f"rmdir dir={op['dir']}"
    if o in ("construct", "pconstruct"):
        return "validate " + op["model_args"]
    if o == "verbosity":
        return "verbosity " + op["model_args"]
    if o == "ls":
        return f"ls dir={op['dir']}"
    if o == "restore":
        x = f"restore sid={op['sid']} dir={op['dir']}"
        for k in ("step", "newdir", "f", "m"):
            if k in op:
                x += f" {k}={op[k]}"
        return x
    if o == "load":
        return f"load sid={op['sid']} dir={op['dir']}" + (f" step={op['step']}" if op.get("step") is not None else "")
    if o == "setvalues":
        return f"setvalues sid={op['sid']} V={flist(op['V'])}"
    if o == "setpolicy":
        return f"setpolicy sid={op['sid']} pol={flist(op['pol'])}"
    if o == "evaluate":
        if "n" not in h:
            return None
        return (f"evaluate id={op['id']} n={h['n']} maxbs={h['maxbs']} dev={h['dev']} gamma={op['gamma']} eps={op['eps']} test={op['test']} "
                f"budget={op['budget']} pol={flist(op['pol'])} V={flist(op['V'])}")
    if o == "solve":
        s = f"solve sid={op['sid']} k={op['k']}"
        if "perms" in h:
            s += f" perms={h['perms']}"
        if "choose" in op:
            s += f" choose={op['choose']}"
        return s
    if o == "shippedtab":
        return "shippedtab " + op["model_args"]
    if o == "matrices":
        return f"matrices id={op['id']} tol={op['tol']}"
    if o == "space":
        return f"space mins={flist(op['mins'])} maxs={flist(op['maxs'])}"
    if o in ("batch", "prepare", "unbatch"):
        return f"{o} n={op['n']} maxbs={op['maxbs']} dev={op['dev']}"
    raise ValueError(o)


def run_session(ops: list[dict], devices: int = 1):
    """returns list of (op, model_resp, impl_resp)"""
    impl = [r["resp"] for r in core.run_impl(ops, devices)]
    return pair_with_model(ops, impl)


def pair_with_model(ops, impl):
    lines, idx = [], []
    for i, (op, r) in enumerate(zip(ops, impl)):
        l = driver_line(op, r)
        if l is not None:
            lines.append(l); idx.append(i)
    model = core.run_driver(lines)
    out = [(op, None, r, None) for op, r in zip(ops, impl)]
    for i, l, m in zip(idx, lines, model):
        out[i] = (ops[i], m, impl[i], l)
    return out


def run_sessions_parallel(jobs: list[tuple[list[dict], int]], workers: int = 8):
    impls = core.run_impl_parallel(jobs, workers)
    return [pair_with_model(ops, [r["resp"] for r in impl]) for (ops, _), impl in zip(jobs, impls)]


# ------------------------------------------------------------------ comparison

def vec_compare(mv: list[Fraction], iv: list[Fraction], tol: Fraction):
    """'exact' | 'enveloped' | 'differ' """
    if len(mv) != len(iv):
        return "differ"
    if mv == iv:
        return "exact"
    if all(abs(a - b) <= tol for a, b in zip(mv, iv)):
        return "enveloped"
    return "differ"


def envelope(M: Fraction, E: int, sweeps: int) -> Fraction:
    """forward rounding bound for `sweeps` dot-then-max sweeps with E events on magnitudes ≤ M"""
    return Fraction(64 * (E + 8) * max(1, sweeps), 2 ** 53) * (M + 1)


def safely_exact(values: list[Fraction], M: Fraction, E: int) -> bool:
    """dyadic regime: all model outputs are dyadic with (denominator exponent + magnitude bits) small enough that every
    partial sum of the float64 computation is exact in any order"""
    k = 0
    for v in values:
        d = v.denominator
        if d & (d - 1):
            return False
        k = max(k, d.bit_length() - 1)
    mag = int(M * max(1, E)).bit_length() + 2
    return k + mag <= 46
