"""C16 — event probabilities equal the documented distributions: mpmath reference primitives (python3-vt, independent of jax /
numpyro / scipy) are pushed through the Lean model's combination rules and compared with the implementation's full tables;
Hendrix is compared with a brute-force enumeration of (d_A, d_B, u) inside the model's truncation region."""
from __future__ import annotations

import json
import random
import subprocess
import tempfile
from fractions import Fraction
from pathlib import Path

import numpy as np

from harness import core, shipped
from harness.core import frac, flist

TOL = 1e-9
# numpyro's NegativeBinomialProbs.log_prob (betaln based) is only accurate to ~1.3e-6 relative against scipy / mpmath
# (observed on the unchanged tree); the Mirjalili comparison therefore uses an absolute tolerance of 2e-6
TOL_NEGBIN = 2e-6


def run_ref(jobs):
    with tempfile.TemporaryDirectory(prefix="mdpaxv_ref_") as td:
        fi, fo = Path(td) / "i.json", Path(td) / "o.json"
        fi.write_text(json.dumps(jobs))
        p = subprocess.run(["python3-vt", str(core.VERIF / "harness" / "ref_special.py"), str(fi), str(fo)], capture_output=True, text=True, timeout=3000)
        if p.returncode != 0:
            raise core.HarnessError("ref_special failed: " + p.stderr[-2000:])
        return json.loads(fo.read_text())


def run(tier, seed):
    res = core.Result("C16")
    res.rule = ("parameter grids of the documented distributions: gamma mean/cv/max demand (De Moor), weekday negative-binomial n/delta, logit "
                "coefficients of either sign and order sizes (Mirjalili), Poisson means / substitution probability / stock levels (Hendrix), fire "
                "probability (Forest); reference primitives by mpmath at 50 digits; combination by the Lean model; entrywise |difference| <= 1e-9; "
                "initial values vs their documented definition. distinct non-trivial = compared probability rows")
    rng = random.Random(seed * 1600 + 16)
    impl_ops, ref_jobs, plan = [], [], []
    n_d = 6 if tier == "quick" else 30
    for _ in range(n_d):
        kw = {"max_demand": rng.choice([3, 10, 40, 100]), "demand_gamma_mean": rng.choice([0.7, 4.0, 12.5, 30.0]), "demand_gamma_cov": rng.choice([0.2, 0.5, 1.0, 1.7]),
              "max_useful_life": 1, "lead_time": 1, "max_order_quantity": 1}
        impl_ops.append({"op": "probtab", "target": shipped.T["demoor"], "kwargs": kw, "full": True})
        ref_jobs.append({"kind": "demoor", "max_demand": kw["max_demand"], "mean": kw["demand_gamma_mean"], "cov": kw["demand_gamma_cov"]})
        plan.append(("demoor", kw))
    n_m = 5 if tier == "quick" else 24
    for jm in range(n_m):
        # the first parameterisations always have >= 3 age classes with distinct slope coefficients (logit order / slope pairing visible)
        m = [3, 4, 3][jm] if jm < 3 else rng.randint(1, 4)
        q = [3, 2, 2][jm] if jm < 3 else rng.randint(1, 3)
        kw = {"max_demand": rng.choice([2, 6, 20]), "max_useful_life": m, "max_order_quantity": q,
              "useful_life_at_arrival_distribution_c_0": tuple(round(rng.uniform(-3, 3), 2) for _ in range(m - 1)),
              "useful_life_at_arrival_distribution_c_1": tuple(round(rng.uniform(-1, 1), 2) for _ in range(m - 1)),
              "weekday_demand_negbin_n": tuple(round(rng.uniform(0.3, 12), 1) for _ in range(7)),
              "weekday_demand_negbin_delta": tuple(round(rng.uniform(0.3, 8), 1) for _ in range(7))}
        if jm < 3:
            kw["max_demand"] = 2
            kw["useful_life_at_arrival_distribution_c_1"] = tuple([0.8, -0.5, 0.3][: m - 1])
        if shipped.n_triples("mirjalili", kw) > 120000:
            continue
        impl_ops.append({"op": "probtab", "target": shipped.T["mirjalili"], "kwargs": kw, "full": True})
        ref_jobs.append({"kind": "mirjalili", "max_demand": kw["max_demand"], "m": m, "Q": q, "weekdays": list(range(7)), "n": kw["weekday_demand_negbin_n"],
                         "delta": kw["weekday_demand_negbin_delta"], "c0": kw["useful_life_at_arrival_distribution_c_0"], "c1": kw["useful_life_at_arrival_distribution_c_1"]})
        plan.append(("mirjalili", kw))
    n_h = 4 if tier == "quick" else 16
    for _ in range(n_h):
        m = rng.randint(1, 2)
        qa, qb = rng.randint(1, 3), rng.randint(1, 3)
        kw = {"max_useful_life": m, "max_order_quantity_a": qa, "max_order_quantity_b": qb, "demand_poisson_mean_a": rng.choice([0.5, 2.0, 5.0]),
              "demand_poisson_mean_b": rng.choice([0.5, 2.0, 5.0]), "substitution_probability": rng.choice([0.0, 0.5, 1.0, 0.3]),
              "sales_price_a": rng.choice([1.0, 2.5]), "sales_price_b": rng.choice([1.0, 0.5])}
        impl_ops.append({"op": "probtab", "target": shipped.T["hendrix"], "kwargs": kw, "full": True})
        stocks = sorted({(sa, sb) for sa in range(qa * m + 1) for sb in range(qb * m + 1)})
        ref_jobs.append({"kind": "hendrix", "m": m, "Qa": qa, "Qb": qb, "mu_a": kw["demand_poisson_mean_a"], "mu_b": kw["demand_poisson_mean_b"],
                         "rho": kw["substitution_probability"], "stocks": stocks})
        plan.append(("hendrix", kw))
    # twins: for one instance of every class, further instances that differ from it in exactly one distribution parameter, built right after it
    # in the same process (nothing computed for one instance may leak into the next one of the same class and sizes)
    group_of = {j: j for j in range(len(impl_ops))}
    firsts = {}
    for j, (kind, kw) in enumerate(list(plan)):
        if kind in firsts:
            continue
        firsts[kind] = j
        edits = {"demoor": [{"demand_gamma_mean": kw.get("demand_gamma_mean", 4.0) * 1.5}, {"demand_gamma_cov": kw.get("demand_gamma_cov", 0.5) + 0.25}],
                 "mirjalili": [{"useful_life_at_arrival_distribution_c_0": tuple(x + 0.5 for x in kw.get("useful_life_at_arrival_distribution_c_0", ()))},
                               {"weekday_demand_negbin_delta": tuple(x + 1.0 for x in kw.get("weekday_demand_negbin_delta", ()))}],
                 "hendrix": [{"substitution_probability": 0.8 if kw.get("substitution_probability") != 0.8 else 0.2},
                             {"demand_poisson_mean_a": kw.get("demand_poisson_mean_a", 2.0) + 1.0},
                             {"sales_price_a": kw.get("sales_price_a", 1.0) + 1.0}]}[kind]
        for e_ in edits:
            kw2 = dict(kw, **e_)
            impl_ops.append({"op": "probtab", "target": shipped.T[kind], "kwargs": kw2, "full": True})
            group_of[len(impl_ops) - 1] = j
            if kind == "demoor":
                ref_jobs.append({"kind": "demoor", "max_demand": kw2["max_demand"], "mean": kw2["demand_gamma_mean"], "cov": kw2["demand_gamma_cov"]})
            elif kind == "mirjalili":
                ref_jobs.append({"kind": "mirjalili", "max_demand": kw2["max_demand"], "m": kw2["max_useful_life"], "Q": kw2["max_order_quantity"], "weekdays": list(range(7)),
                                 "n": kw2["weekday_demand_negbin_n"], "delta": kw2["weekday_demand_negbin_delta"], "c0": kw2["useful_life_at_arrival_distribution_c_0"],
                                 "c1": kw2["useful_life_at_arrival_distribution_c_1"]})
            else:
                m_, qa_, qb_ = kw2["max_useful_life"], kw2["max_order_quantity_a"], kw2["max_order_quantity_b"]
                ref_jobs.append({"kind": "hendrix", "m": m_, "Qa": qa_, "Qb": qb_, "mu_a": kw2["demand_poisson_mean_a"], "mu_b": kw2["demand_poisson_mean_b"],
                                 "rho": kw2["substitution_probability"], "stocks": sorted({(sa, sb) for sa in range(qa_ * m_ + 1) for sb in range(qb_ * m_ + 1)})})
            plan.append((kind, kw2))
            res.count(f"twin:{kind}")
    for p in (0.0, 0.1, 0.37, 1.0):
        group_of[len(impl_ops)] = len(impl_ops)
        impl_ops.append({"op": "probtab", "target": shipped.T["forest"], "kwargs": {"S": 4, "p": p}, "full": True})
        ref_jobs.append(None)
        plan.append(("forest", {"S": 4, "p": p}))
    W = 6
    groups = {}
    for j in range(len(impl_ops)):
        groups.setdefault(group_of[j], []).append(j)
    chunks = [[] for _ in range(W)]
    for gi, (g, members) in enumerate(sorted(groups.items())):
        chunks[gi % W].extend(members)       # a twin runs in the same process, right after the instance it was derived from
    outs = core.run_impl_parallel([([impl_ops[j] for j in ch], 1) for ch in chunks if ch], workers=W)
    impl = {}
    for ch, out in zip([c for c in chunks if c], outs):
        for j, r in zip(ch, out):
            impl[j] = r
    refs = run_ref([j for j in ref_jobs if j is not None])
    it = iter(refs)
    refs_full = [next(it) if j is not None else None for j in ref_jobs]
    lines, meta = [], []
    for j, (kind, kw) in enumerate(plan):
        r = impl[j]
        case = {"kind": kind, "kwargs": kw}
        if "data" not in r:
            res.disagreements.append({"channel": "C16/table", "case": case, "model": "", "impl": (r["resp"] + r.get("trace", ""))[:300], "failing_input": True,
                                      "what": "could not tabulate", "key": f"{kind}:construct"})
            continue
        T = np.array(r["data"]["probs"]); init = np.array(r["data"]["init"]); S = np.array(r["data"]["states"]); E = np.array(r["data"]["events"])
        res.evaluations += T.size
        res.count(f"{kind}:params")
        if kind == "forest":
            p = kw["p"]
            want = np.array([[1 - p, p], [1.0, 0.0]])
            ok = all(np.abs(T[s] - want).max() <= TOL for s in range(len(S))) and np.abs(init).max() == 0
            res.nontrivial.add(("forest", p))
            if not ok:
                res.disagreements.append({"channel": "C16/forest", "case": case, "model": str(want.tolist()), "impl": str(T[0].tolist()), "failing_input": True,
                                          "what": "fire probability table / zero initial value differs from the documentation", "key": "forest"})
            continue
        if kind == "demoor":
            ref = refs_full[j]
            lines.append("demoorprobs cdf=" + flist([Fraction(x) for x in ref["cdf"]], frac))
            meta.append((case, T[0][0].tolist(), "gamma demand (mean, cv) discretised at half-integers, censored at max_demand"))
            if np.abs(init).max() != 0:
                res.disagreements.append({"channel": "C16/init", "case": case, "model": "0", "impl": str(init[:4]), "failing_input": True, "what": "initial value not zero", "key": "demoor:init"})
            continue
        if kind == "mirjalili":
            ref = refs_full[j]
            m, Q, D = kw["max_useful_life"], kw["max_order_quantity"], kw["max_demand"]
            for w_ in range(7):
                si = int(np.where(S[:, 0] == w_)[0][0])
                for a_ in range(Q + 1):
                    lines.append(f"mirjprobs nb={flist([Fraction(x) for x in ref['nb'][str(w_)]], frac)} cat={flist([Fraction(x) for x in ref['cat'][str(a_)]], frac)} "
                                 f"order={a_} D={D} m={m} Q={Q}")
                    meta.append((dict(case, weekday=w_, order=a_), T[si][a_].tolist(),
                                 "weekday negative-binomial demand censored at max_demand x multinomial split with logits linear in the order"))
            if np.abs(init).max() != 0:
                res.disagreements.append({"channel": "C16/init", "case": case, "model": "0", "impl": str(init[:4]), "failing_input": True, "what": "initial value not zero", "key": "mirjalili:init"})
            continue
        if kind == "hendrix":
            ref = refs_full[j]
            m, qa, qb = kw["max_useful_life"], kw["max_order_quantity_a"], kw["max_order_quantity_b"]
            worst, wi = 0.0, None
            for si in range(len(S)):
                sa, sb = int(S[si][:m].sum()), int(S[si][m:].sum())
                want = np.array(ref["tables"][f"{sa},{sb}"]).reshape(-1)
                got = T[si][0]
                dlt = float(np.abs(want - got).max())
                res.nontrivial.add(("hendrix", json.dumps(kw, sort_keys=True), sa, sb))
                if dlt > worst:
                    worst, wi = dlt, (si, sa, sb)
                # probability must not depend on the action
                if np.abs(T[si] - T[si][0]).max() > 0:
                    worst, wi = 1.0, (si, sa, sb)
            res.count("hendrix:rows-compared", len(S))
            # the Lean model of the four masked arrays (proved equal to the joint-law specification), fed with the primitive tables
            from scipy.stats import poisson as _po
            D_ = m * (max(qa, qb) + 2)
            pa_ = [Fraction(float(v)) for v in _po.pmf(np.arange(D_ + 1), kw["demand_poisson_mean_a"])]
            pb_ = [Fraction(float(v)) for v in _po.pmf(np.arange(D_ + 1), kw["demand_poisson_mean_b"])]
            tl_ = [Fraction(float(1 - _po.cdf(x_ - 1, kw["demand_poisson_mean_a"]))) for x_ in range(qa * m + 1)]
            seen_ = {}
            for si in range(len(S)):
                seen_.setdefault((int(S[si][:m].sum()), int(S[si][m:].sum())), si)
            picks = sorted(seen_.items())
            step_ = max(1, len(picks) // (6 if tier == "quick" else 20))
            for (sa, sb), si in picks[::step_]:
                lines.append(f"hendrixprobs D={D_} maxA={qa * m} maxB={qb * m} pa={flist(pa_, frac)} pb={flist(pb_, frac)} tail={flist(tl_, frac)} "
                             f"rho={frac(Fraction(kw['substitution_probability']))} x={sa} y={sb}")
                meta.append((dict(case, stock=(sa, sb)), T[si][0].tolist(), "four masked arrays = joint law of Poisson demands with binomial substitution (model row from the primitive tables)"))
            if worst > TOL:
                res.disagreements.append({"channel": "C16/hendrix", "case": dict(case, state_row=wi[0], stock=(wi[1], wi[2])), "model": "brute-force joint law", "impl": f"max abs diff {worst}",
                                          "failing_input": True, "what": f"joint distribution of units issued differs from Poisson demands + binomial substitution by {worst:.3g}", "key": "hendrix:joint"})
            # initial value = expected one-step sales revenue under that distribution
            prices = np.array([kw["sales_price_a"], kw["sales_price_b"]])
            exp_rev = T[:, 0, :].dot(E.dot(prices))
            if np.abs(exp_rev - init).max() > 1e-9:
                res.disagreements.append({"channel": "C16/hendrix-init", "case": case, "model": str(exp_rev[:4]), "impl": str(init[:4]), "failing_input": True,
                                          "what": "initial value is not the expected one-step sales revenue", "key": "hendrix:init"})
            else:
                res.count("hendrix:init-ok")
    model = core.run_driver(lines)
    for l, m_, (case, row, what) in zip(lines, model, meta):
        mp_ = [float(x) for x in core.plist(core.parse_resp(m_)["probs"])]
        if l.startswith("hendrixprobs") and core.parse_resp(m_).get("spec_equal") != "true":
            res.disagreements.append({"channel": "C16/hendrix-model", "case": case, "model": m_[:300], "impl": "", "failing_input": False,
                                      "what": "model row differs from its own specification row (theorem hendrix_cell_is_joint_law would be false)", "key": "hendrix:model-vs-spec"})
        res.count("rows-compared")
        res.nontrivial.add(l[:120] + l[-40:])
        tol = TOL_NEGBIN if case["kind"] == "mirjalili" else TOL
        if len(mp_) != len(row) or max(abs(a - b) for a, b in zip(mp_, row)) > tol:
            k = max(range(min(len(mp_), len(row))), key=lambda q: abs(mp_[q] - row[q])) if mp_ and row else 0
            res.disagreements.append({"channel": f"C16/{case['kind']}", "case": case, "model": str(mp_[:10])[:300], "impl": str(row[:10])[:300], "failing_input": True,
                                      "what": f"probabilities differ from the documented distribution ({what}); entry {k}: {mp_[k] if mp_ else None} vs {row[k] if row else None}",
                                      "key": f"{case['kind']}:distribution"})
        elif len(res.samples) < 4:
            res.sample({"request": l[:160], "max_abs_diff": max(abs(a - b) for a, b in zip(mp_, row))})
    return res


def replay(rep, tier, seed):
    return run(tier, rep.get("seed", seed))
