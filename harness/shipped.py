"""Parameter grids of the four shipped problems, their model arguments, and an independent scalar (pure python) model of the
documented dynamics used as the property's own oracle for C14/C15."""
from __future__ import annotations

import itertools
import random
from fractions import Fraction

from harness.core import frac

T = {"forest": "mdpax.problems.forest.Forest",
     "demoor": "mdpax.problems.perishable_inventory.de_moor_single_product.DeMoorSingleProductPerishable",
     "hendrix": "mdpax.problems.perishable_inventory.hendrix_two_product.HendrixTwoProductPerishable",
     "mirjalili": "mdpax.problems.perishable_inventory.mirjalili_platelet.MirjaliliPlateletPerishable"}


def dy(rng, lo=0, hi=12, den=4):
    return rng.randint(lo * den, hi * den) / den


def n_triples(kind, kw):
    if kind == "forest":
        return kw["S"] * 4
    if kind == "demoor":
        return (kw["max_order_quantity"] + 1) ** (kw["max_useful_life"] + kw["lead_time"] - 1) * (kw["max_order_quantity"] + 1) * (kw["max_demand"] + 1)
    if kind == "hendrix":
        m, qa, qb = kw["max_useful_life"], kw["max_order_quantity_a"], kw["max_order_quantity_b"]
        return (qa + 1) ** m * (qb + 1) ** m * (qa + 1) * (qb + 1) * (qa * m + 1) * (qb * m + 1)
    m, q, d = kw["max_useful_life"], kw["max_order_quantity"], kw["max_demand"]
    combos = sum(1 for k in itertools.product(range(q + 1), repeat=m) if sum(k) <= q)
    return 7 * (q + 1) ** (m - 1) * (q + 1) * (d + 1) * combos


def grid(tier, seed):
    """list of (kind, kwargs, model_args)"""
    rng = random.Random(seed * 151 + 15)
    out = []
    for S in ([1, 2, 3, 6] if tier == "quick" else [1, 2, 3, 4, 5, 8, 13]):
        for p in (0.0, 0.125, 1.0):
            kw = {"S": S, "p": p, "r1": dy(rng), "r2": dy(rng)}
            out.append(("forest", kw, f"kind=forest S={S} r1={frac(kw['r1'])} r2={frac(kw['r2'])} p={frac(p)}"))
    cap = 60000 if tier == "quick" else 400000
    combos = [(m, L, Q, pol) for m in range(1, 6) for L in range(1, 5) for Q in (1, 2, 3) for pol in ("fifo", "lifo")]
    rng.shuffle(combos)
    take = 14 if tier == "quick" else 80
    for (m, L, Q, pol) in combos:
        D = rng.choice([1, 2, 3, Q * m + 2])
        kw = {"max_demand": D, "max_useful_life": m, "lead_time": L, "max_order_quantity": Q, "issue_policy": pol,
              "variable_order_cost": dy(rng), "shortage_cost": dy(rng), "wastage_cost": dy(rng), "holding_cost": dy(rng)}
        if n_triples("demoor", kw) > cap:
            continue
        out.append(("demoor", kw, f"kind=demoor D={D} m={m} L={L} Q={Q} cv={frac(kw['variable_order_cost'])} cs={frac(kw['shortage_cost'])} "
                    f"cw={frac(kw['wastage_cost'])} ch={frac(kw['holding_cost'])} issue={pol}"))
        take -= 1
        if take == 0:
            break
    hc = [(m, qa, qb) for m in (1, 2, 3) for qa in (1, 2, 3) for qb in (1, 2, 3)]
    rng.shuffle(hc)
    # every useful life 1, 2, 3 is present in every run (issuing over >= 3 age classes differs from the 2-class special case); small ones first
    first = []
    for m_ in (3, 2, 1):
        cands = [c for c in hc if c[0] == m_ and (m_ < 3 or c[1] * c[2] <= 2)]
        if cands:
            first.append(cands[0])
    hc = first + [c for c in hc if c not in first]
    take = 5 if tier == "quick" else 16
    for (m, qa, qb) in hc:
        kw = {"max_useful_life": m, "max_order_quantity_a": qa, "max_order_quantity_b": qb, "variable_order_cost_a": dy(rng), "variable_order_cost_b": dy(rng),
              "sales_price_a": dy(rng), "sales_price_b": dy(rng)}
        if n_triples("hendrix", kw) > cap:
            continue
        out.append(("hendrix", kw, f"kind=hendrix m={m} Qa={qa} Qb={qb} ca={frac(kw['variable_order_cost_a'])} cb={frac(kw['variable_order_cost_b'])} "
                    f"pa={frac(kw['sales_price_a'])} pb={frac(kw['sales_price_b'])}"))
        take -= 1
        if take == 0:
            break
    mc = [(m, q) for m in (1, 2, 3, 4, 5) for q in (1, 2, 3)]
    rng.shuffle(mc)
    take = 6 if tier == "quick" else 15
    for (m, q) in mc:
        D = rng.choice([1, 2, 4])
        kw = {"max_demand": D, "max_useful_life": m, "max_order_quantity": q,
              "useful_life_at_arrival_distribution_c_0": tuple(dy(rng, -2, 2) for _ in range(m - 1)),
              "useful_life_at_arrival_distribution_c_1": tuple(dy(rng, -1, 1) for _ in range(m - 1)),
              "variable_order_cost": dy(rng), "fixed_order_cost": dy(rng), "shortage_cost": dy(rng), "wastage_cost": dy(rng), "holding_cost": dy(rng)}
        if n_triples("mirjalili", kw) > cap:
            continue
        out.append(("mirjalili", kw, f"kind=mirjalili D={D} m={m} Q={q} cv={frac(kw['variable_order_cost'])} cf={frac(kw['fixed_order_cost'])} "
                    f"cs={frac(kw['shortage_cost'])} cw={frac(kw['wastage_cost'])} ch={frac(kw['holding_cost'])}"))
        take -= 1
        if take == 0:
            break
    return out


def margs_of(kind, kw):
    if kind == "demoor":
        return (f"kind=demoor D={kw['max_demand']} m={kw['max_useful_life']} L={kw['lead_time']} Q={kw['max_order_quantity']} cv={frac(kw['variable_order_cost'])} "
                f"cs={frac(kw['shortage_cost'])} cw={frac(kw['wastage_cost'])} ch={frac(kw['holding_cost'])} issue={kw['issue_policy']}")
    if kind == "hendrix":
        return (f"kind=hendrix m={kw['max_useful_life']} Qa={kw['max_order_quantity_a']} Qb={kw['max_order_quantity_b']} ca={frac(kw['variable_order_cost_a'])} "
                f"cb={frac(kw['variable_order_cost_b'])} pa={frac(kw['sales_price_a'])} pb={frac(kw['sales_price_b'])}")
    if kind == "mirjalili":
        return (f"kind=mirjalili D={kw['max_demand']} m={kw['max_useful_life']} Q={kw['max_order_quantity']} cv={frac(kw['variable_order_cost'])} "
                f"cf={frac(kw['fixed_order_cost'])} cs={frac(kw['shortage_cost'])} cw={frac(kw['wastage_cost'])} ch={frac(kw['holding_cost'])}")
    return f"kind=forest S={kw['S']} r1={frac(kw['r1'])} r2={frac(kw['r2'])} p={frac(kw['p'])}"


def twins(g, seed):
    """for the smallest instance of every class: instances with the same structural (integer / string) parameters and other real-valued
    coefficients, to be built in the same process right after it.  Returns [(index of the base in g, kind, kwargs, model_args)]."""
    rng = random.Random(seed * 977 + 3)
    out = []
    for kind in ("forest", "demoor", "hendrix", "mirjalili"):
        cands = [i for i, x in enumerate(g) if x[0] == kind]
        if not cands:
            continue
        i = min(cands, key=lambda j: n_triples(kind, g[j][1]) if kind != "forest" else g[j][1]["S"])
        kw = g[i][1]
        floats = [k for k, v in kw.items() if isinstance(v, float)]
        for _ in range(2):
            kw2 = dict(kw)
            for k in floats:
                if kind == "forest" and k == "p":
                    continue
                kw2[k] = dy(rng)
            if kw2 != kw:
                out.append((i, kind, kw2, margs_of(kind, kw2), None))
        # the same parameters once more, through a configuration object whose fields are changed after construction (sizes and costs alike)
        mut = {}
        for k, v in kw.items():
            if isinstance(v, bool) or isinstance(v, str) or isinstance(v, tuple):
                continue
            mut[k] = (v + 1) if isinstance(v, int) else (v + 1.5)
        if kind == "forest":
            mut.pop("p", None)
        out.append((i, kind, dict(kw), margs_of(kind, kw), mut))
    return out


# --------------------------------------------------------------------------- independent scalar model of the documented dynamics

def issue_oldest_first(stock, d):
    """stock[0] newest … stock[-1] oldest; returns remaining stock per age class"""
    rem = list(stock)
    for i in range(len(rem) - 1, -1, -1):
        take = min(rem[i], d)
        rem[i] -= take
        d -= take
    return rem


def issue_newest_first(stock, d):
    rem = list(stock)
    for i in range(len(rem)):
        take = min(rem[i], d)
        rem[i] -= take
        d -= take
    return rem


def doc_transition(kind, kw, s, a, e):
    """(next state, reward as Fraction, units: dict) per the documentation, scalar arithmetic only"""
    F = Fraction
    if kind == "forest":
        S = kw["S"]
        st, cut, fire = s[0], a[0] == 1, e[0] == 1
        if cut:
            r = F(kw["r2"]) if st == S - 1 else (F(0) if st == 0 else F(1))
            return [0], r, None
        r = F(kw["r1"]) if st == S - 1 else F(0)
        return [0 if fire else min(st + 1, S - 1)], r, None
    if kind == "demoor":
        m, L = kw["max_useful_life"], kw["lead_time"]
        transit, stock = list(s[:L - 1]), list(s[L - 1:])
        d, order = e[0], a[0]
        rem = issue_oldest_first(stock, d) if kw["issue_policy"] == "fifo" else issue_newest_first(stock, d)
        issued = sum(stock) - sum(rem)
        shortage = max(d - sum(stock), 0)
        expired = rem[-1]
        holding = sum(rem[:-1])
        pipeline = [order] + transit
        arriving = pipeline[-1]
        nxt = pipeline[:-1] + [arriving] + rem[:-1]
        r = -(F(kw["variable_order_cost"]) * order + F(kw["shortage_cost"]) * shortage + F(kw["wastage_cost"]) * expired + F(kw["holding_cost"]) * holding)
        units = {"opening": sum(stock), "receipts": arriving, "issued": issued, "expired": expired, "closing": sum(nxt[L - 1:])}
        return nxt, r, units
    if kind == "hendrix":
        m = kw["max_useful_life"]
        sa, sb = list(s[:m]), list(s[m:])
        ra, rb = issue_oldest_first(sa, e[0]), issue_oldest_first(sb, e[1])
        nxt = [a[0]] + ra[:-1] + [a[1]] + rb[:-1]
        r = F(kw["sales_price_a"]) * e[0] + F(kw["sales_price_b"]) * e[1] - F(kw["variable_order_cost_a"]) * a[0] - F(kw["variable_order_cost_b"]) * a[1]
        ok = e[0] <= sum(sa) and e[1] <= sum(sb)
        units = {"opening": sum(sa) + sum(sb), "receipts": a[0] + a[1], "issued": (sum(sa) - sum(ra)) + (sum(sb) - sum(rb)), "expired": ra[-1] + rb[-1],
                 "closing": sum(nxt)} if ok else None
        return nxt, r, units
    m, Q = kw["max_useful_life"], kw["max_order_quantity"]
    w, stock = s[0], list(s[1:])
    d, rec = e[0], list(e[1:])
    opening = [min(max(x + y, 0), Q) for x, y in zip([0] + stock, rec)]
    rem = issue_oldest_first(opening, d)
    shortage = max(d - sum(opening), 0)
    expired = rem[-1]
    holding = sum(rem)
    order = a[0]
    r = -(F(kw["variable_order_cost"]) * order + F(kw["fixed_order_cost"]) * (1 if order > 0 else 0) + F(kw["shortage_cost"]) * shortage
          + F(kw["wastage_cost"]) * expired + F(kw["holding_cost"]) * holding)
    nxt = [(w + 1) % 7] + rem[:-1]
    clipped = any(x + y > Q for x, y in zip([0] + stock, rec))
    units = None if clipped else {"opening": sum(stock), "receipts": sum(rec), "issued": sum(opening) - sum(rem), "expired": expired, "closing": sum(nxt[1:])}
    return nxt, r, units
