/-
C05 — Policy iteration: evaluation is accurate and termination means policy stability.
-/
import MdpaxV.Props.C01
set_option linter.unusedSectionVars false
namespace MdpaxV.C05
open MdpaxV
variable {α : Type} [Field α] [LinearOrder α] [IsStrictOrderedRing α]
variable (P : Problem α) (c : BatchCfg) (γ : α)

/-- the action used for state `s`: the row of the policy at `state_to_index(state_s)` (JAX gather) -/
def ownAction (pl : List Nat) (s : Nat) : Nat := (pl[clampIdx pl.length (P.sidx s)]?).getD 0

/-- for every layout, the evaluation sweep applies at every state the one-step expected value under
    **that state's own** policy action; padding rows are never observable -/
theorem evalSweep_eq (h : C02.Valid P c) (pl : List Nat) (V : List α) (padv : α) :
    evalSweep P c γ pl V padv = (List.range P.nS).map fun s => qval P γ (look V) s (ownAction P pl s) := by
  unfold evalSweep
  rw [C02.slots_map P c h]; rfl

/-- with a consistent state index the own action of state `s` is `pl[s]` -/
theorem ownAction_wf (hw : C01.IdxWF P) (pl : List Nat) (hpl : pl.length = P.nS) (s : Nat) (hs : s < P.nS) :
    ownAction P pl s = pl.getD s 0 := by
  unfold ownAction
  rw [hw s hs, hpl, C01.clampIdx_cast _ _ hs, List.getD_eq_getElem?_getD]

/-- `_evaluate_policy` returns the first iterate `T_π^j V₀` (j < budget) whose *next* sweep meets the test — the
    pre-update iterate, as the code does — else `T_π^budget V₀` -/
theorem evaluate_returns (thr : α) (t : ConvTest) (pl : List Nat) (budget : Nat) (V0 : List α) :
    let V := evaluate P c γ thr t pl budget V0
    (convMeasure t (evalSweep P c γ pl V 0) V < thr) ∨
    (V = (fun X => evalSweep P c γ pl X 0)^[budget] V0 ∧
      ∀ j, j < budget → ¬ convMeasure t (evalSweep P c γ pl ((fun X => evalSweep P c γ pl X 0)^[j] V0) 0)
          ((fun X => evalSweep P c γ pl X 0)^[j] V0) < thr) :=
  C01.evaluate_returns P c γ thr t pl budget V0

/-- the result of `evaluate` is always some iterate `T_π^j V₀` with `j ≤ budget` -/
theorem evaluate_is_iterate (thr : α) (t : ConvTest) (pl : List Nat) (budget : Nat) (V0 : List α) :
    ∃ j, j ≤ budget ∧ evaluate P c γ thr t pl budget V0 = (fun X => evalSweep P c γ pl X 0)^[j] V0 := by
  induction budget generalizing V0 with
  | zero => exact ⟨0, Nat.le_refl _, rfl⟩
  | succ b ih =>
    simp only [evaluate]
    split
    · exact ⟨0, by omega, rfl⟩
    · obtain ⟨j, hj, he⟩ := ih (evalSweep P c γ pl V0 0)
      exact ⟨j + 1, by omega, by rw [he, Function.iterate_succ_apply]⟩

/-- evaluation converged within its budget under max_diff ⇒ within ε/γ of the policy's exact discounted value -/
theorem evaluate_maxdiff_bound (ε : α) (S : C01.Setting P c γ) (hw : C01.IdxWF P) (pl : List Nat) (hpl : pl.length = P.nS)
    (hact : ∀ i, C01.polFn P.nS pl i < P.nA) (V : List α) (hV : V.length = P.nS)
    (hconv : maxDiff (evalSweep P c γ pl V 0) V < ε * (1 - γ) / γ)
    (U : Fin P.nS → α) (hU : Tpol P γ (C01.polFn P.nS pl) U = U) (i : Fin P.nS) :
    |toFn P.nS V i - U i| < ε / γ := by
  haveI : Nonempty (Fin P.nS) := ⟨⟨0, S.valid.1⟩⟩
  have hπ := Tpol_monoShift P γ S.hγ0.le S.stoch S.valid.1 (C01.polFn P.nS pl) hact
  have hes := C01.evalSweep_eq_Tpol P c γ S.valid hw pl hpl V hV
  have hesl : (evalSweep P c γ pl V 0).length = P.nS := by rw [hes]; simp
  rw [maxDiff_eq_vnorm P.nS _ V hesl hV, hes, toFn_ofFn] at hconv
  exact eval_maxdiff_values (Tpol P γ (C01.polFn P.nS pl)) γ ε hπ S.hγ0 S.hγ1 (toFn P.nS V) U hU hconv i

/-- closed form: the policy's exact discounted value exists and is unique, and a converged max_diff evaluation is within ε/γ of it -/
theorem evaluate_maxdiff_bound_closed (ε : α) (S : C01.Setting P c γ) (hw : C01.IdxWF P) (pl : List Nat) (hpl : pl.length = P.nS)
    (hact : ∀ i, C01.polFn P.nS pl i < P.nA) (V : List α) (hV : V.length = P.nS)
    (hconv : maxDiff (evalSweep P c γ pl V 0) V < ε * (1 - γ) / γ) :
    ∃! U, Tpol P γ (C01.polFn P.nS pl) U = U ∧ ∀ i, |toFn P.nS V i - U i| < ε / γ := by
  obtain ⟨U, hU, huniq⟩ := C01.policy_value_exists_unique P c γ S (C01.polFn P.nS pl) hact
  exact ⟨U, ⟨hU, fun i => evaluate_maxdiff_bound P c γ ε S hw pl hpl hact V hV hconv U hU i⟩, fun U' hU' => huniq U' hU'.1⟩

theorem nChanged_self (a : List Nat) : nChanged a a = 0 := by
  induction a with
  | nil => rfl
  | cons x xs ih => simp [nChanged, ih]

/-- the iteration stops before its limit **iff** the improvement step changed no state's action -/
theorem pi_stops_iff (thr : α) (t : ConvTest) (budget : Nat) (reset : Option (List α)) (s : SState α)
    (pl : List Nat) (hsp : s.policy = some pl) (hpl : pl.length = P.nS) (hv : C02.Valid P c) :
    (piStep P c γ thr t budget reset s).2 = true ↔ (piStep P c γ thr t budget reset s).1.policy = some pl := by
  rw [C08.piStep_done_iff]
  simp only [piStep, hsp, Option.getD_some]
  constructor
  · intro h0
    have := C01.nChanged_eq_zero _ _ (by rw [C02.policy_eq_map_greedy P c hv]; simp [hpl]) h0
    rw [this]
  · intro he
    have := Option.some.inj he
    rw [this]; exact nChanged_self pl

/-- in **every** exit (stable or limit) the policy held after an iteration is greedy for the values held -/
theorem pi_returned_greedy (thr : α) (t : ConvTest) (budget : Nat) (reset : Option (List α)) (s : SState α) :
    (piStep P c γ thr t budget reset s).1.policy = some (policy P c γ (piStep P c γ thr t budget reset s).1.values 0) := by
  simp [piStep]

/-- the first evaluated policy is the problem's initial policy when supplied, otherwise the greedy policy for the
    all-zero value vector … -/
theorem pi_first_policy (initPol : Option (List Nat)) :
    (piInit P c γ initPol).policy = some (match initPol with
      | some p => p
      | none => policy P c γ (List.replicate P.nS 0) 0) := by
  cases initPol <;> simp [piInit]

/-- … and at zero values the action value is the immediate expected reward Σ_e r·p -/
theorem qval_zero_is_immediate_reward (s a : Nat) :
    qval P γ (look (List.replicate P.nS (0 : α))) s a = ((List.range P.nE).map fun e => P.rew s a e * P.prob s a e).sum := by
  rw [C02.qval_textbook]
  have hz : ∀ j, look (List.replicate P.nS (0 : α)) j = 0 := by
    intro j; unfold look
    cases h : (List.replicate P.nS (0:α))[clampIdx (List.replicate P.nS (0:α)).length j]? with
    | none => rfl
    | some v =>
      have := List.mem_of_getElem? h
      simp [List.eq_of_mem_replicate this]
  simp [hz]

/-- reset semantics: every evaluation starts from the stored initial values when `reset` is on, otherwise from the
    values left by the previous evaluation -/
theorem pi_reset_semantics (thr : α) (t : ConvTest) (budget : Nat) (reset : Option (List α)) (s : SState α) :
    (piStep P c γ thr t budget reset s).1.values =
      evaluate P c γ thr t (s.policy.getD []) budget (match reset with | some v0 => v0 | none => s.values) := by
  cases reset <;> simp [piStep]

/-- the stored policy always has one action per state: initially by assumption, afterwards because it is extracted -/
theorem pi_policy_length (hv : C02.Valid P c) (thr : α) (t : ConvTest) (budget : Nat) (reset : Option (List α)) (s : SState α)
    (pl0 : List Nat) (hsp : s.policy = some pl0) (hpl0 : pl0.length = P.nS) (j : Nat) :
    ∃ pl, (iterState (piStep P c γ thr t budget reset) j s).policy = some pl ∧ pl.length = P.nS := by
  cases j with
  | zero => exact ⟨pl0, by simpa [iterState] using hsp, hpl0⟩
  | succ j =>
    rw [iterState_succ']
    refine ⟨_, pi_returned_greedy P c γ thr t budget reset _, ?_⟩
    rw [C02.policy_eq_map_greedy P c hv]; simp

/-- **whole `solve()` call**: policy iteration reports convergence (stops before its iteration limit) **only when** the last
    improvement step left every state's action unchanged — the returned policy is the very policy that was evaluated in the last
    iteration — and in that case (as in every exit) the returned policy is greedy for the returned values; if no improvement
    step is stable within the limit, exactly `k` iterations are performed -/
theorem pi_solve_stops_only_when_stable (hv : C02.Valid P c) (thr : α) (t : ConvTest) (budget : Nat) (reset : Option (List α))
    (f k : Nat) (s : SState α) (pl0 : List Nat) (hsp : s.policy = some pl0) (hpl0 : pl0.length = P.nS) :
    ((piSolve P c γ thr t budget reset f k s).converged = true →
      1 ≤ (piSolve P c γ thr t budget reset f k s).sweeps ∧
      (piSolve P c γ thr t budget reset f k s).state.policy =
        (iterState (piStep P c γ thr t budget reset) ((piSolve P c γ thr t budget reset f k s).sweeps - 1) s).policy ∧
      (piSolve P c γ thr t budget reset f k s).state.policy =
        some (policy P c γ (piSolve P c γ thr t budget reset f k s).state.values 0)) ∧
    ((piSolve P c γ thr t budget reset f k s).converged = false → (piSolve P c γ thr t budget reset f k s).sweeps = k) := by
  obtain ⟨h1, h2, h3⟩ := C08.solve_first_below (piStep P c γ thr t budget reset) (·.iter) (fun _ s => s) f k s
  simp only [piSolve]
  refine ⟨?_, fun h => (h3 h).1⟩
  intro hc
  obtain ⟨hm, hfire, _⟩ := h2 hc
  set m := (solveCall (piStep P c γ thr t budget reset) (fun x => x.iter) (fun _ s => s) f k s).sweeps with hmdef
  set s0 := iterState (piStep P c γ thr t budget reset) (m - 1) s with hs0
  have hstate : iterState (piStep P c γ thr t budget reset) m s = (piStep P c γ thr t budget reset s0).1 := by
    have : m = (m - 1) + 1 := by omega
    rw [this, iterState_succ']
  obtain ⟨pl, hpl, hlen⟩ := pi_policy_length P c γ hv thr t budget reset s pl0 hsp hpl0 (m - 1)
  rw [← hs0] at hpl
  have hstable := (pi_stops_iff P c γ thr t budget reset s0 pl hpl hlen hv).mp hfire
  refine ⟨hm, ?_, ?_⟩
  · rw [h1, hstate, hstable, hpl]
  · rw [h1, hstate]; exact pi_returned_greedy P c γ thr t budget reset s0

end MdpaxV.C05
