/-
C19 — Range spaces enumerate the integer box and the index function inverts them.
All statements hold for every dimension count and all integer bounds (no bound on sizes).
-/
import MdpaxV.Model.Spaces
import Mathlib.Tactic.Linarith
import Mathlib.Tactic.Ring
import Mathlib.Data.List.Basic
import Mathlib.Data.List.Nodup
import Mathlib.Algebra.BigOperators.Group.List.Basic
namespace MdpaxV.C19
open MdpaxV

/-- v lies in the box with lower corner `los` and `ks` values per coordinate -/
def InBox : List Int → List Nat → List Int → Prop
  | lo :: los, k :: ks, x :: xs => lo ≤ x ∧ x < lo + k ∧ InBox los ks xs
  | [], [], [] => True
  | _, _, _ => False

theorem space_length (los : List Int) (ks : List Nat) (h : los.length = ks.length) :
    (space los ks).length = ks.prod := by
  induction los generalizing ks with
  | nil => cases ks <;> simp_all [space]
  | cons lo los ih =>
    cases ks with
    | nil => simp at h
    | cons k ks =>
      have hM : ∀ x ∈ intRange lo k, ((space los ks).map (x :: ·)).length = ks.prod := by
        intro x _; simp [ih ks (by simpa using h)]
      simp only [space, List.prod_cons]
      have : ∀ (l : List Int), (∀ x ∈ l, ((space los ks).map (x :: ·)).length = ks.prod) →
          (l.flatMap fun x => (space los ks).map (x :: ·)).length = l.length * ks.prod := by
        intro l; induction l with
        | nil => simp
        | cons y ys ihy =>
          intro hy; simp only [List.flatMap_cons, List.length_append, List.length_cons]
          rw [ihy (fun x hx => hy x (by simp [hx])), hy y (by simp)]; ring
      rw [this _ hM]; simp [intRange]

/-- element at position a*M + b of a flatMap of M-length blocks -/
theorem getElem?_flatMap_blocks {β γ : Type} (l : List β) (f : β → List γ) (M : Nat)
    (hM : ∀ x ∈ l, (f x).length = M) (a b : Nat) (ha : a < l.length) (hb : b < M) :
    (l.flatMap f)[a * M + b]? = (f l[a])[b]? := by
  induction l generalizing a with
  | nil => simp at ha
  | cons x xs ih =>
    have hx : (f x).length = M := hM x (by simp)
    cases a with
    | zero =>
      simp only [List.flatMap_cons, Nat.zero_mul, Nat.zero_add, List.getElem_cons_zero]
      rw [List.getElem?_append_left (by omega)]
    | succ a =>
      simp only [List.flatMap_cons, List.getElem_cons_succ]
      rw [List.getElem?_append_right (by rw [hx]; nlinarith)]
      have : (a + 1) * M + b - (f x).length = a * M + b := by rw [hx]; ring_nf; omega
      rw [this]
      exact ih (fun y hy => hM y (by simp [hy])) a (by simpa using ha)

theorem inBox_lengths (los : List Int) (ks : List Nat) (v : List Int) (h : InBox los ks v) : los.length = ks.length := by
  induction los generalizing ks v with
  | nil => cases ks <;> cases v <;> simp_all [InBox]
  | cons a as iha =>
    cases ks with
    | nil => cases v <;> simp [InBox] at h
    | cons k ks =>
      cases v with
      | nil => simp [InBox] at h
      | cons x xs => simp only [InBox] at h; simp [iha ks xs h.2.2]

/-- **index inversion**: every vector of the box sits at its own ravel index -/
theorem space_ravel (los : List Int) (ks : List Nat) (v : List Int) (hbox : InBox los ks v) :
    (space los ks)[ravel los ks v]? = some v := by
  induction los generalizing ks v with
  | nil =>
    cases ks with
    | nil => cases v with
      | nil => simp [space, ravel]
      | cons _ _ => simp [InBox] at hbox
    | cons _ _ => simp [InBox] at hbox
  | cons lo los ih =>
    cases ks with
    | nil => simp [InBox] at hbox
    | cons k ks =>
      cases v with
      | nil => simp [InBox] at hbox
      | cons x xs =>
        obtain ⟨h0a, h0b, hrest⟩ := hbox
        have hl : los.length = ks.length := inBox_lengths los ks xs hrest
        have hrec := ih ks xs hrest
        have hkpos : 0 < k := by omega
        set a := (min (max (x - lo) 0) (k - 1 : Int)).toNat with ha
        have hax : (a : Int) = x - lo := by
          rw [ha, Int.toNat_of_nonneg (by omega)]; omega
        have halt : a < k := by omega
        simp only [space, ravel]
        have hlen := space_length los ks hl
        have hb : ravel los ks xs < ks.prod := by
          by_contra hcon
          rw [List.getElem?_eq_none (by omega)] at hrec; simp at hrec
        rw [getElem?_flatMap_blocks _ _ ks.prod (by intro y _; simp [hlen]) a _ (by simp [intRange, halt]) hb]
        simp only [List.getElem?_map, hrec, Option.map_some, intRange, List.getElem_map, List.getElem_range]
        rw [hax]
        have : lo + (x - lo) = x := by omega
        rw [this]

/-- membership: exactly the integer vectors of the box are listed -/
theorem space_mem (los : List Int) (ks : List Nat) (h : los.length = ks.length) (v : List Int) :
    v ∈ space los ks ↔ InBox los ks v := by
  induction los generalizing ks v with
  | nil =>
    cases ks with
    | nil => cases v <;> simp [space, InBox]
    | cons _ _ => simp at h
  | cons lo los ih =>
    cases ks with
    | nil => simp at h
    | cons k ks =>
      simp only [space, List.mem_flatMap, List.mem_map, intRange, List.mem_range]
      constructor
      · rintro ⟨x, ⟨i, hi, rfl⟩, w, hw, rfl⟩
        exact ⟨by omega, by omega, (ih ks (by simpa using h) w).mp hw⟩
      · cases v with
        | nil => simp [InBox]
        | cons x xs =>
          rintro ⟨h1, h2, h3⟩
          refine ⟨x, ⟨(x - lo).toNat, by omega, by omega⟩, xs, (ih ks (by simpa using h) xs).mpr h3, rfl⟩

/-- no duplicate rows -/
theorem space_nodup (los : List Int) (ks : List Nat) : (space los ks).Nodup := by
  induction los generalizing ks with
  | nil => cases ks <;> simp [space]
  | cons lo los ih =>
    cases ks with
    | nil => simp [space]
    | cons k ks =>
      simp only [space]
      rw [List.nodup_flatMap]
      constructor
      · intro x _
        exact (ih ks).map (fun a b hab => by simpa using hab)
      · have hnd : (intRange lo k).Nodup := by
          unfold intRange
          exact (List.nodup_range).map (fun a b hab => by simpa using hab)
        apply List.Nodup.pairwise_of_forall_ne hnd
        intro a _ b _ hab
        rw [Function.onFun, List.disjoint_left]
        intro w hwa hwb
        simp only [List.mem_map] at hwa hwb
        obtain ⟨u, _, rfl⟩ := hwa
        obtain ⟨u', _, he⟩ := hwb
        simp at he
        exact hab he.1.symm

/-- the index of any vector is the index of the nearest box vector, which lies in the box: always a valid row -/
theorem index_clips (los : List Int) (ks : List Nat) (v : List Int) (hl : los.length = ks.length) (hv : v.length = ks.length)
    (hk : ∀ k ∈ ks, 0 < k) :
    ravel los ks v = ravel los ks (clipBox los ks v) ∧ InBox los ks (clipBox los ks v) := by
  induction los generalizing ks v with
  | nil => cases ks <;> cases v <;> simp_all [ravel, clipBox, InBox]
  | cons lo los ih =>
    cases ks with
    | nil => simp at hl
    | cons k ks =>
      cases v with
      | nil => simp at hv
      | cons x xs =>
        have hk0 := hk k (by simp)
        obtain ⟨h1, h2⟩ := ih ks xs (by simpa using hl) (by simpa using hv) (fun k' hk' => hk k' (by simp [hk']))
        simp only [ravel, clipBox, InBox]
        refine ⟨?_, by omega, by omega, h2⟩
        rw [← h1]
        congr 2
        omega

/-- … hence `indexFn` always returns a valid row number -/
theorem index_lt (los : List Int) (ks : List Nat) (v : List Int) (hl : los.length = ks.length) (hv : v.length = ks.length)
    (hk : ∀ k ∈ ks, 0 < k) : ravel los ks v < (space los ks).length := by
  obtain ⟨h1, h2⟩ := index_clips los ks v hl hv hk
  have := space_ravel los ks _ h2
  rw [h1]
  by_contra hc
  rw [List.getElem?_eq_none (by omega)] at this; simp at this

/-- the documented constructor: mins ≤ maxs componentwise ⇒ the listed rows are exactly the integer vectors with
    mins ≤ v ≤ maxs, each exactly once, and `indexFn` maps each listed row to its own row number
    (non-zero and negative lower bounds, zero-width dimensions included) -/
theorem rangeSpace_index_inverts (mins maxs : List Int) (i : Nat) (v : List Int)
    (hi : (rangeSpace mins maxs)[i]? = some v) (hl : mins.length = (dimsOf mins maxs).length) :
    indexFn mins maxs v = i := by
  unfold rangeSpace indexFn at *
  have hmem : v ∈ space mins (dimsOf mins maxs) := List.mem_of_getElem? hi
  have hbox := (space_mem mins _ hl v).mp hmem
  have h2 := space_ravel mins _ v hbox
  -- two positions holding the same element of a Nodup list coincide
  have hnd := space_nodup mins (dimsOf mins maxs)
  have hi' : i < (space mins (dimsOf mins maxs)).length := by
    by_contra hc; rw [List.getElem?_eq_none (by omega)] at hi; simp at hi
  have hr' : ravel mins (dimsOf mins maxs) v < (space mins (dimsOf mins maxs)).length := by
    by_contra hc; rw [List.getElem?_eq_none (by omega)] at h2; simp at h2
  rw [List.getElem?_eq_getElem hi'] at hi
  rw [List.getElem?_eq_getElem hr'] at h2
  exact (List.Nodup.getElem_inj_iff hnd).mp (by rw [Option.some.inj hi, Option.some.inj h2])

/-! non-vacuity, with a non-zero and a negative lower bound -/
example : rangeSpace [1, -1] [2, 1] = [[1,-1],[1,0],[1,1],[2,-1],[2,0],[2,1]] := by decide
example : (rangeSpace [1, -1] [2, 1]).map (indexFn [1, -1] [2, 1]) = [0,1,2,3,4,5] := by decide
example : indexFn [1, -1] [2, 1] [7, -9] = 3 := by decide

end MdpaxV.C19
