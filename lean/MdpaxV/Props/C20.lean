/-
C20 — Configuration contract: valid parameters work by every route, invalid rejected.
Theorems: each validator accepts exactly its documented domain and the first failing clause determines the error class;
the outcome of construction + solve is the same for the three routes.  dtype / Hydra / OmegaConf behaviour is runtime and
is observed by the harness (fresh processes, both construction orders).
-/
import MdpaxV.Model.Config
import Mathlib.Tactic.Linarith
import Mathlib.Tactic.Tauto
import Mathlib.Tactic.IntervalCases
import Mathlib.Algebra.Order.Ring.Rat
import Mathlib.Algebra.Order.Field.Basic
set_option linter.unusedSectionVars false
namespace MdpaxV.C20
open MdpaxV

theorem raiseIf_bind_ok (p : Prop) [Decidable p] (e : CfgErr) (f : Unit → Except CfgErr Unit) :
    (raiseIf p e >>= f) = .ok () ↔ ¬ p ∧ f () = .ok () := by
  unfold raiseIf
  by_cases h : p <;> simp [h, bind, Except.bind]

theorem raiseIf_ok (p : Prop) [Decidable p] (e : CfgErr) : raiseIf p e = .ok () ↔ ¬ p := by
  unfold raiseIf; by_cases h : p <;> simp [h]

theorem bind_ok (x : Except CfgErr Unit) (f : Unit → Except CfgErr Unit) :
    (x >>= f) = .ok () ↔ x = .ok () ∧ f () = .ok () := by
  cases x with
  | error e => simp [bind, Except.bind]
  | ok u => cases u; simp [bind, Except.bind]

theorem checkCommon_iff (c : SolverCfg) :
    checkCommon c = .ok () ↔ 0 < c.eps ∧ 0 < c.maxbs ∧ 0 ≤ c.f ∧ 0 ≤ c.m ∧ 0 ≤ c.verbose ∧ c.verbose ≤ 4 := by
  unfold checkCommon
  simp only [raiseIf_bind_ok, raiseIf_ok, not_le, not_lt, not_not]

/-- **every solver validator accepts exactly the documented domain** (γ ∈ [0,1]; γ = 1 for relative value iteration;
    ε > 0; batch size ≥ 1; period ≥ 1 and ≥ 2 when γ = 1; evaluation budget ≥ 1; frequency, retention ≥ 0; verbosity 0..4;
    known convergence test; problem a ProblemConfig or absent) -/
theorem validateSolver_iff (k : SolverKind) (c : SolverCfg) : validateSolver k c = .ok () ↔ SolverValid k c := by
  unfold validateSolver SolverValid
  cases k <;>
    simp only [raiseIf_bind_ok, raiseIf_ok, bind_ok, checkCommon_iff, not_le, not_lt, not_not, Bool.not_eq_false, ne_eq]
  · tauto
  · tauto
  · tauto
  · constructor
    · rintro ⟨h0, h1, h2, h3, h4⟩
      refine ⟨h0, h4.1, h4.2.1, h4.2.2.1, h4.2.2.2.1, h4.2.2.2.2.1, h4.2.2.2.2.2, h3.1, h3.2, by omega, fun hg => ?_⟩
      by_contra hlt; exact h2 ⟨hg, by omega⟩
    · rintro ⟨h0, h1, h2, h3, h4, h5, h6, h7, h8, h9, h10⟩
      exact ⟨h0, by omega, fun hh => by have := h10 hh.1; omega, ⟨h7, h8⟩, h1, h2, h3, h4, h5, h6⟩
  · tauto

theorem raiseIf_bind_err (p : Prop) [Decidable p] (e e' : CfgErr) (f : Unit → Except CfgErr Unit)
    (h : (raiseIf p e >>= f) = .error e') : (p ∧ e' = e) ∨ (¬ p ∧ f () = .error e') := by
  unfold raiseIf at h
  by_cases hp : p
  · left; simp [hp, bind, Except.bind] at h; exact ⟨hp, h.symm⟩
  · right; simp [hp, bind, Except.bind] at h; exact ⟨hp, h⟩

theorem raiseIf_err (p : Prop) [Decidable p] (e e' : CfgErr) (h : raiseIf p e = .error e') : e' = e := by
  unfold raiseIf at h; by_cases hp : p <;> simp [hp] at h; exact h.symm

theorem bind_err (x : Except CfgErr Unit) (f : Unit → Except CfgErr Unit) (e' : CfgErr) (h : (x >>= f) = .error e') :
    x = .error e' ∨ f () = .error e' := by
  cases x with
  | error e => left; simpa [bind, Except.bind] using h
  | ok u => cases u; right; simpa [bind, Except.bind] using h

theorem checkCommon_err (c : SolverCfg) (e : CfgErr) (h : checkCommon c = .error e) : e = .valueError := by
  unfold checkCommon at h
  rcases raiseIf_bind_err _ _ _ _ h with ⟨_, rfl⟩ | ⟨_, h⟩; · rfl
  rcases raiseIf_bind_err _ _ _ _ h with ⟨_, rfl⟩ | ⟨_, h⟩; · rfl
  rcases raiseIf_bind_err _ _ _ _ h with ⟨_, rfl⟩ | ⟨_, h⟩; · rfl
  rcases raiseIf_bind_err _ _ _ _ h with ⟨_, rfl⟩ | ⟨_, h⟩; · rfl
  exact raiseIf_err _ _ _ h

/-- a `problem` that is not a ProblemConfig is the only TypeError; every other rejection is a ValueError -/
theorem validateSolver_error_class (k : SolverKind) (c : SolverCfg) (e : CfgErr) (h : validateSolver k c = .error e) :
    (c.problemOk = false → e = .typeError) ∧ (c.problemOk = true → e = .valueError) := by
  unfold validateSolver at h
  rcases raiseIf_bind_err _ _ _ _ h with ⟨hp, rfl⟩ | ⟨hp, h⟩
  · exact ⟨fun _ => rfl, fun ht => by rw [hp] at ht; cases ht⟩
  · refine ⟨fun hf => absurd hf hp, fun _ => ?_⟩
    cases k <;> simp only at h
    · rcases raiseIf_bind_err _ _ _ _ h with ⟨_, rfl⟩ | ⟨_, h⟩; · rfl
      rcases bind_err _ _ _ h with h | h
      · exact checkCommon_err c e h
      · exact raiseIf_err _ _ _ h
    · rcases raiseIf_bind_err _ _ _ _ h with ⟨_, rfl⟩ | ⟨_, h⟩; · rfl
      rcases bind_err _ _ _ h with h | h
      · exact checkCommon_err c e h
      · rcases raiseIf_bind_err _ _ _ _ h with ⟨_, rfl⟩ | ⟨_, h⟩; · rfl
        exact raiseIf_err _ _ _ h
    · rcases raiseIf_bind_err _ _ _ _ h with ⟨_, rfl⟩ | ⟨_, h⟩; · rfl
      exact checkCommon_err c e h
    · rcases raiseIf_bind_err _ _ _ _ h with ⟨_, rfl⟩ | ⟨_, h⟩; · rfl
      rcases raiseIf_bind_err _ _ _ _ h with ⟨_, rfl⟩ | ⟨_, h⟩; · rfl
      rcases raiseIf_bind_err _ _ _ _ h with ⟨_, rfl⟩ | ⟨_, h⟩; · rfl
      exact checkCommon_err c e h
    · rcases raiseIf_bind_err _ _ _ _ h with ⟨_, rfl⟩ | ⟨_, h⟩; · rfl
      rcases bind_err _ _ _ h with h | h
      · exact checkCommon_err c e h
      · exact raiseIf_err _ _ _ h

/-- the three construction routes have the same outcome, and a configuration in the documented domain constructs and solves by
    each of them (model of the repaired code; the defects found on the original code are in known_findings.json) -/
theorem routes_agree (k : SolverKind) (c : SolverCfg) (r r' : Route) : outcome k c r = outcome k c r' := rfl

theorem valid_solves (k : SolverKind) (c : SolverCfg) (r : Route) (h : SolverValid k c) : outcome k c r = .ok () :=
  (validateSolver_iff k c).mpr h

/-- the threshold of a valid configuration is positive (so the progress format and the strict `<` test are well defined),
    including γ = 0 and γ = 1 -/
theorem threshold_pos (k : SolverKind) (c : SolverCfg) (h : SolverValid k c) : 0 < thresholdOf k c := by
  obtain ⟨_, heps, _⟩ := h
  unfold thresholdOf
  cases k <;> simp only
  all_goals first
    | exact heps
    | (split
       · rename_i hg; exact div_pos (mul_pos heps (by linarith [hg.2])) hg.1
       · exact heps)

/-! problem validators -/
theorem validateForest_iff (c : ForestCfgV) : validateForest c = .ok () ↔ 0 < c.S ∧ 0 ≤ c.p ∧ c.p ≤ 1 := by
  unfold validateForest
  simp only [raiseIf_bind_ok, raiseIf_ok, not_le, not_lt, not_not]

theorem validateHendrix_iff (c : HendrixCfgV) :
    validateHendrix c = .ok () ↔ 1 ≤ c.m ∧ 0 < c.meanA ∧ 0 < c.meanB ∧ (0 ≤ c.rho ∧ c.rho ≤ 1) ∧ 0 < c.Qa ∧ 0 < c.Qb := by
  unfold validateHendrix
  simp only [raiseIf_bind_ok, raiseIf_ok, not_le, not_lt, not_not]

theorem validateDeMoor_iff (c : DeMoorCfgV) :
    validateDeMoor c = .ok () ↔ 0 < c.maxDemand ∧ 0 < c.mean ∧ 0 < c.cov ∧ 1 ≤ c.m ∧ 1 ≤ c.L ∧ 0 < c.Q ∧ c.issueOk = true := by
  unfold validateDeMoor
  simp only [raiseIf_bind_ok, raiseIf_ok, not_le, not_lt, not_not, Bool.not_eq_false]

theorem validateMirjalili_iff (c : MirjaliliCfgV) :
    validateMirjalili c = .ok () ↔ 0 < c.maxDemand ∧ c.nLen = 7 ∧ c.nPos = true ∧ c.dLen = 7 ∧ c.dPos = true ∧ 1 ≤ c.m ∧
      (c.c0Len : Int) = c.m - 1 ∧ (c.c1Len : Int) = c.m - 1 ∧ 0 < c.Q := by
  unfold validateMirjalili
  simp only [raiseIf_bind_ok, raiseIf_ok, not_le, not_lt, not_not, Bool.not_eq_false, ne_eq]

/-! non-vacuity -/
example : SolverValid .vi { problemOk := true, gamma := 0, eps := 1000000, maxbs := 1, f := 0, m := 0, verbose := 0, testOk := true, period := 1, budget := 1 } := by
  simp [SolverValid]
example : validateSolver .periodic { problemOk := true, gamma := 1, eps := 1, maxbs := 1, f := 0, m := 0, verbose := 0, testOk := true, period := 1, budget := 1 } = .error .valueError := by
  decide +kernel

/-- **the progress format is a valid format specifier for every positive threshold of any magnitude**: the precision is
    between 0 and `max_decimals` whatever ⌊log10 threshold⌋ is (so `solve()` can log its measure for every ε > 0) … -/
theorem decimalPlaces_valid (e : Int) (m : Nat) : 0 ≤ decimalPlaces e m ∧ decimalPlaces e m ≤ (m : Int) := by
  unfold decimalPlaces
  constructor
  · exact le_max_left _ _
  · apply max_le
    · exact Int.natCast_nonneg m
    · exact min_le_right _ _

/-- … and, unless capped by `max_decimals`, it shows one digit beyond the leading digit of the threshold: for a threshold
    10^e ≤ ε < 10^(e+1) with e ≤ 1 the precision is 1 − e -/
theorem decimalPlaces_shows_threshold (e : Int) (m : Nat) (he : e ≤ 1) (hm : -e + 1 ≤ (m : Int)) :
    decimalPlaces e m = 1 - e := by
  unfold decimalPlaces
  rw [min_eq_left hm, max_eq_right (by omega)]; omega

example : decimalPlaces 2 10 = 0 ∧ decimalPlaces (-6) 10 = 7 ∧ decimalPlaces (-30) 10 = 10 := by decide

/-! ### verbosity (`utils.logging.verbosity_to_loguru_level`, `Solver.set_verbosity`) -/

/-- an integer verbosity is accepted exactly on 0..4; anything that is not an integer is a `TypeError`, an integer outside
    the range a `ValueError` -/
theorem loguruLevel_ok_iff (isInt : Bool) (v : Int) :
    (∃ n, loguruLevel isInt v = .ok n) ↔ (isInt = true ∧ 0 ≤ v ∧ v ≤ 4) := by
  unfold loguruLevel
  cases isInt
  · simp
  · by_cases h : v < 0 ∨ v > 4
    · simp only [Bool.not_true, Bool.false_eq_true, if_false, if_pos h]
      constructor
      · rintro ⟨n, hn⟩; cases hn
      · rintro ⟨_, h1, h2⟩; omega
    · simp only [Bool.not_true, Bool.false_eq_true, if_false, if_neg h]
      exact ⟨fun _ => by simp; omega, fun _ => ⟨_, rfl⟩⟩

theorem loguruLevel_error_class (isInt : Bool) (v : Int) (e : CfgErr) (h : loguruLevel isInt v = .error e) :
    (isInt = false ∧ e = .typeError) ∨ (isInt = true ∧ (v < 0 ∨ v > 4) ∧ e = .valueError) := by
  unfold loguruLevel at h
  cases isInt
  · left; simp at h; exact ⟨rfl, h.symm⟩
  · right
    by_cases hv : v < 0 ∨ v > 4
    · simp [hv] at h; exact ⟨rfl, hv, h.symm⟩
    · simp [hv] at h

/-- the five level names are pairwise different, so the mapping level ↦ name loses nothing -/
theorem levelName_injective (v w : Int) (hv : 0 ≤ v ∧ v ≤ 4) (hw : 0 ≤ w ∧ w ≤ 4) (h : levelName v = levelName w) : v = w := by
  obtain ⟨hv0, hv4⟩ := hv; obtain ⟨hw0, hw4⟩ := hw
  interval_cases v <;> interval_cases w <;> first | rfl | (exfalso; revert h; decide)

/-- names and integers denote the same levels: the name installed for level `v` is looked up (in any letter case) as `v` -/
theorem verbosity_name_roundtrip (v : Int) (hv : 0 ≤ v ∧ v ≤ 4) :
    verbosityOfName (levelName v) = .ok v ∧ verbosityOfName ((levelName v).map Char.toLower) = .ok v := by
  obtain ⟨hv0, hv4⟩ := hv
  interval_cases v <;> decide

/-- `set_verbosity(name)` and `set_verbosity(v)` install the same level and store the same integer -/
theorem setVerbosity_name_eq_int (v : Int) (hv : 0 ≤ v ∧ v ≤ 4) :
    setVerbosity (.inl (levelName v)) = setVerbosity (.inr v) ∧ setVerbosity (.inr v) = .ok (v, levelName v) := by
  obtain ⟨hv0, hv4⟩ := hv
  interval_cases v <;> decide

/-- whatever `set_verbosity` accepts ends with a stored integer in 0..4 and the name of that integer -/
theorem setVerbosity_ok (l : List Char ⊕ Int) (v : Int) (n : List Char) (h : setVerbosity l = .ok (v, n)) :
    0 ≤ v ∧ v ≤ 4 ∧ n = levelName v := by
  have key : ∀ w : Int, loguruLevel true w = .ok n → 0 ≤ w ∧ w ≤ 4 ∧ n = levelName w := by
    intro w hw
    have := (loguruLevel_ok_iff true w).mp ⟨n, hw⟩
    unfold loguruLevel at hw
    have hnot : ¬ (w < 0 ∨ w > 4) := by omega
    simp [hnot] at hw
    exact ⟨this.2.1, this.2.2, hw.symm⟩
  cases l with
  | inr w =>
    simp only [setVerbosity, bind, Except.bind] at h
    cases hl : loguruLevel true w with
    | error e => rw [hl] at h; cases h
    | ok n' =>
      rw [hl] at h
      simp only [pure, Except.pure, Except.ok.injEq, Prod.mk.injEq] at h
      obtain ⟨rfl, rfl⟩ := h
      exact key w hl
  | inl name =>
    simp only [setVerbosity, bind, Except.bind] at h
    cases hn : verbosityOfName name with
    | error e => rw [hn] at h; cases h
    | ok w =>
      rw [hn] at h
      simp only at h
      cases hl : loguruLevel true w with
      | error e => rw [hl] at h; cases h
      | ok n' =>
        rw [hl] at h
        simp only [pure, Except.pure, Except.ok.injEq, Prod.mk.injEq] at h
        obtain ⟨rfl, rfl⟩ := h
        exact key w hl

example : setVerbosity (.inl ['t','r','A','c','e']) = .ok (4, levelName 4) := by decide
example : setVerbosity (.inl ['v','e','r','b','o','s','e']) = .error .valueError := by decide
example : setVerbosity (.inr 5) = .error .valueError := by decide

end MdpaxV.C20
