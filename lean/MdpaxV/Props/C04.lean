/-
C04 — Relative value iteration reports the optimal average reward within epsilon.

(g, h) is **any** solution of the average-reward optimality equation `T h = h + g` (for a unichain MDP one exists
and g is the optimal long-run average reward — Puterman Thm 8.4.3, not formalised; the harness exhibits and the
driver verifies such a solution for every generated instance).  (gd, hd) is any solution of the evaluation
equation of the returned policy, so gd is that policy's long-run average reward.
-/
import MdpaxV.Props.C01
import MdpaxV.Theory.Existence
set_option linter.unusedSectionVars false
namespace MdpaxV.C04
open MdpaxV
variable {α : Type} [Field α] [LinearOrder α] [IsStrictOrderedRing α]

theorem toFn_map (n : Nat) (l : List α) (hl : l.length = n) (f : α → α) (i : Fin n) :
    toFn n (l.map f) i = f (toFn n l i) := by
  have hi : i.val < l.length := by rw [hl]; exact i.isLt
  simp [toFn, List.getD_eq_getElem?_getD, List.getElem?_eq_getElem hi]

theorem getLast_eq_toFn (n : Nat) (hn : 0 < n) (l : List α) (hl : l.length = n) :
    (l.getLast?).getD 0 = toFn n l ⟨n - 1, by omega⟩ := by
  have hne : l ≠ [] := by intro e; rw [e] at hl; simp at hl; omega
  rw [List.getLast?_eq_some_getLast hne, List.getLast_eq_getElem]
  have hi : n - 1 < l.length := by omega
  simp only [toFn, List.getD_eq_getElem?_getD, Option.getD_some]
  rw [List.getElem?_eq_getElem hi]
  simp [hl]

variable (P : Problem α) (c : BatchCfg) (ε : α)

/-- after every iteration the stored gain is the last entry of the stored values -/
theorem rvi_gain_invariant (γ : α) (s : SState α) :
    (rviStep P c γ ε s).1.gain = ((rviStep P c γ ε s).1.values.getLast?).getD 0 := by
  simp [rviStep]

/-- a fresh solver satisfies the invariant (the gain is initialised from the last state's initial estimate; before the
    repair recorded in known_findings.json it started at 0 and the invariant held only for a zero estimate) -/
theorem rvi_initial_invariant :
    (rviInit P c).gain = ((rviInit P c).values.getLast?).getD 0 := by
  simp [rviInit]

/-- hence the invariant holds at every state the loop visits -/
theorem rvi_invariant_iterates (γ : α) (j : Nat) (s : SState α) (hinv : s.gain = (s.values.getLast?).getD 0) :
    (iterState (rviStep P c γ ε) j s).gain = ((iterState (rviStep P c γ ε) j s).values.getLast?).getD 0 := by
  cases j with
  | zero => simpa [iterState] using hinv
  | succ j => rw [iterState_succ']; exact rvi_gain_invariant P c ε γ _

theorem rvi_values_length (hv : C02.Valid P c) (γ : α) (j : Nat) (s : SState α) (hs : s.values.length = P.nS) :
    (iterState (rviStep P c γ ε) j s).values.length = P.nS := by
  cases j with
  | zero => simpa [iterState] using hs
  | succ j =>
    rw [iterState_succ']
    simp only [rviStep, List.length_map]
    exact C01.sweep_length P c hv γ _ 0

/-- **RVI at reported convergence** (gain invariant holding at the state `s` before the last iteration):
    the reported gain is within ε of the optimal gain g; the returned relative values solve the optimality equation
    with the reported gain to within ε at every state; the returned (greedy) policy's gain gd satisfies 0 ≤ g − gd < ε -/
theorem rvi_converged (hv : C02.Valid P c) (hA : 0 < P.nA) (hst : Stoch P)
    (s : SState α) (hs : s.values.length = P.nS) (hinv : s.gain = (s.values.getLast?).getD 0)
    (hfire : (rviStep P c 1 ε s).2 = true)
    (h : Fin P.nS → α) (g : α) (hg : ∀ i, Top P 1 h i = h i + g)
    (hdv : Fin P.nS → α) (gd : α)
    (hgd : ∀ i, Tpol P 1 (C01.polFn P.nS (policy P c 1 (rviStep P c 1 ε s).1.values 0)) hdv i = hdv i + gd) :
    |(rviStep P c 1 ε s).1.gain - g| < ε ∧
    (∀ i, |Top P 1 (toFn P.nS (rviStep P c 1 ε s).1.values) i - toFn P.nS (rviStep P c 1 ε s).1.values i
            - (rviStep P c 1 ε s).1.gain| < ε) ∧
    0 ≤ g - gd ∧ g - gd < ε := by
  haveI : Nonempty (Fin P.nS) := ⟨⟨0, hv.1⟩⟩
  set s' := (rviStep P c 1 ε s).1 with hs'
  have hvals : s'.values = (sweep P c 1 s.values 0).map (· - s.gain) := by simp [hs', rviStep]
  have hswl : (sweep P c 1 s.values 0).length = P.nS := C01.sweep_length P c hv 1 _ 0
  have hlen' : s'.values.length = P.nS := by rw [hvals]; simpa using hswl
  have hgain' : s'.gain = toFn P.nS s'.values ⟨P.nS - 1, by have := hv.1; omega⟩ := by
    rw [hs', rvi_gain_invariant, ← hs']; exact getLast_eq_toFn P.nS hv.1 _ hlen'
  obtain ⟨hgreedy, hact⟩ := C01.policy_greedy P c hv hA 1 s'.values hlen'
  have hT := Top_monoShift P 1 (by norm_num) hst hv.1 hA
  have hπ := Tpol_monoShift P 1 (by norm_num) hst hv.1 _ hact
  have hV' : toFn P.nS s'.values = fun i => Top P 1 (toFn P.nS s.values) i - s.gain := by
    funext i
    rw [hvals, toFn_map P.nS _ hswl, sweep_list_eq_Top P c hv 1 s.values hs 0, toFn_ofFn]
  have htest : sp (fun i => toFn P.nS s'.values i - toFn P.nS s.values i) < ε := by
    rw [← spanOf_eq_sp P.nS s'.values s.values hlen' hs, hvals]
    exact (C08.rviStep_done_iff P c 1 ε s).mp hfire
  have := rvi_converged_bounds (Top P 1) (Tpol P 1 _) hT hπ (fun u i => Tpol_le_Top P 1 hA _ hact u i) ε
    (toFn P.nS s.values) (toFn P.nS s'.values) s.gain ⟨P.nS - 1, by have := hv.1; omega⟩
    (by rw [hinv]; exact getLast_eq_toFn P.nS hv.1 _ hs) hV' htest hgreedy h g hg hdv gd hgd
  rw [← hgain'] at this
  exact this

/-- **whole solve call**: whenever `solve(k)` on a fresh solver (or on any state satisfying the invariant, e.g. after
    earlier calls) reports convergence, the reported gain, the returned values and the returned policy satisfy the three
    bounds — for every initial value estimate, every layout, every k -/
theorem rvi_solve_converged (hv : C02.Valid P c) (hA : 0 < P.nA) (hst : Stoch P) (f k : Nat)
    (s : SState α) (hs : s.values.length = P.nS) (hinv : s.gain = (s.values.getLast?).getD 0)
    (hc : (rviSolve P c 1 ε f k s).converged = true)
    (h : Fin P.nS → α) (g : α) (hg : ∀ i, Top P 1 h i = h i + g)
    (pl : List Nat) (hpl : (rviSolve P c 1 ε f k s).state.policy = some pl)
    (hdv : Fin P.nS → α) (gd : α) (hgd : ∀ i, Tpol P 1 (C01.polFn P.nS pl) hdv i = hdv i + gd) :
    |(rviSolve P c 1 ε f k s).state.gain - g| < ε ∧
    (∀ i, |Top P 1 (toFn P.nS (rviSolve P c 1 ε f k s).state.values) i - toFn P.nS (rviSolve P c 1 ε f k s).state.values i
            - (rviSolve P c 1 ε f k s).state.gain| < ε) ∧
    0 ≤ g - gd ∧ g - gd < ε := by
  obtain ⟨h1, h2, _⟩ := C08.solve_first_below (rviStep P c 1 ε) (·.iter) (viFinish P c 1) f k s
  simp only [rviSolve] at hc hpl ⊢
  obtain ⟨hm, hfire, _⟩ := h2 hc
  set m := (solveCall (rviStep P c 1 ε) (fun x => x.iter) (viFinish P c 1) f k s).sweeps with hmdef
  have hm' : m = (m - 1) + 1 := by omega
  set s0 := iterState (rviStep P c 1 ε) (m - 1) s with hs0
  have hstate : iterState (rviStep P c 1 ε) m s = (rviStep P c 1 ε s0).1 := by rw [hm', iterState_succ']
  have hfin : (solveCall (rviStep P c 1 ε) (fun x => x.iter) (viFinish P c 1) f k s).state
      = viFinish P c 1 true (rviStep P c 1 ε s0).1 := by rw [h1, hc, hstate]
  have hple : pl = policy P c 1 (rviStep P c 1 ε s0).1.values 0 := by
    rw [hfin] at hpl; simp only [viFinish] at hpl; exact (Option.some.inj hpl).symm
  have := rvi_converged P c ε hv hA hst s0 (rvi_values_length P c ε hv 1 _ s hs)
    (rvi_invariant_iterates P c ε 1 _ s hinv) hfire h g hg hdv gd (by rw [← hple]; exact hgd)
  rw [hfin]; simpa [viFinish] using this

/-- the gain bracket behind it (no limits, no stationary distribution): for every V,
    min(TV − V) ≤ g ≤ max(TV − V) for every solution (g, h) of the optimality equation -/
theorem gain_bracket (hv : C02.Valid P c) (hA : 0 < P.nA) (hst : Stoch P)
    (h : Fin P.nS → α) (g : α) (hg : ∀ i, Top P 1 h i = h i + g) (V : Fin P.nS → α) :
    haveI : Nonempty (Fin P.nS) := ⟨⟨0, hv.1⟩⟩
    vmin (fun i => Top P 1 V i - V i) ≤ g ∧ g ≤ vmax (fun i => Top P 1 V i - V i) := by
  haveI : Nonempty (Fin P.nS) := ⟨⟨0, hv.1⟩⟩
  exact bracket (Top P 1) (Top_monoShift P 1 (by norm_num) hst hv.1 hA) h g hg V

/-- **the relative values stay bounded instead of growing with the number of iterations**: from any state satisfying the gain
    invariant (in particular a fresh solver), after any number n+1 of iterations every relative value is within
    `sp(V_0 − h)` of `h(i) − h(last) + g`, for every solution (g, h) of the optimality equation — a bound that does not
    depend on n (plain value iteration at γ = 1 grows like n·g) -/
theorem rvi_values_bounded (hv : C02.Valid P c) (hA : 0 < P.nA) (hst : Stoch P)
    (s : SState α) (hs : s.values.length = P.nS) (hinv : s.gain = (s.values.getLast?).getD 0)
    (h : Fin P.nS → α) (g : α) (hg : ∀ i, Top P 1 h i = h i + g) (n : Nat) (i : Fin P.nS) :
    haveI : Nonempty (Fin P.nS) := ⟨⟨0, hv.1⟩⟩
    |toFn P.nS (iterState (rviStep P c 1 ε) (n + 1) s).values i
        - (h i - h ⟨P.nS - 1, by have := hv.1; omega⟩ + g)| ≤ sp (fun j => toFn P.nS s.values j - h j) := by
  haveI : Nonempty (Fin P.nS) := ⟨⟨0, hv.1⟩⟩
  have hT := Top_monoShift P 1 (by norm_num) hst hv.1 hA
  set r : Fin P.nS := ⟨P.nS - 1, by have := hv.1; omega⟩ with hr
  have hrec : ∀ m j, toFn P.nS (iterState (rviStep P c 1 ε) (m + 1) s).values j
      = Top P 1 (toFn P.nS (iterState (rviStep P c 1 ε) m s).values) j - toFn P.nS (iterState (rviStep P c 1 ε) m s).values r := by
    intro m j
    set sm := iterState (rviStep P c 1 ε) m s with hsm
    have hlen : sm.values.length = P.nS := rvi_values_length P c ε hv 1 m s hs
    have hgain : sm.gain = toFn P.nS sm.values r := by
      rw [hsm, rvi_invariant_iterates P c ε 1 m s hinv, ← hsm]; exact getLast_eq_toFn P.nS hv.1 _ hlen
    have hswl : (sweep P c 1 sm.values 0).length = P.nS := C01.sweep_length P c hv 1 _ 0
    rw [iterState_succ']
    have hvals : (rviStep P c 1 ε sm).1.values = (sweep P c 1 sm.values 0).map (· - sm.gain) := by simp [rviStep]
    rw [hvals, toFn_map P.nS _ hswl, sweep_list_eq_Top P c hv 1 sm.values hlen 0, toFn_ofFn, hgain]
  have := rvi_bounded (Top P 1) hT h g hg r (fun m => toFn P.nS (iterState (rviStep P c 1 ε) m s).values) hrec n i
  simpa [iterState] using this

/-! ### what `g` and `gd` are: long-run averages of finite-horizon values, with `g` optimal among all policies

No limit is needed: the statements bound the n-step values for every n in any ordered field. -/

/-- **the gain of a solution of the optimality equation is the optimal long-run average reward**: the optimal expected total
    reward over `n` steps from state `i` (terminal reward `V`), i.e. the n-fold iterate of the optimality operator, is
    `n·g + h(i)` up to the fixed offsets `min(V − h)` and `max(V − h)` — per step it tends to `g` with error `≤ (‖h‖-terms)/n` -/
theorem gain_is_nstep_average (hv : C02.Valid P c) (hA : 0 < P.nA) (hst : Stoch P)
    (h : Fin P.nS → α) (g : α) (hg : ∀ i, Top P 1 h i = h i + g) (V : Fin P.nS → α) (n : Nat) (i : Fin P.nS) :
    haveI : Nonempty (Fin P.nS) := ⟨⟨0, hv.1⟩⟩
    h i + n * g + vmin (fun j => V j - h j) ≤ (Top P 1)^[n] V i ∧
    (Top P 1)^[n] V i ≤ h i + n * g + vmax (fun j => V j - h j) := by
  haveI : Nonempty (Fin P.nS) := ⟨⟨0, hv.1⟩⟩
  exact nstep_bracket (Top P 1) (Top_monoShift P 1 (by norm_num) hst hv.1 hA) h g hg V n i

/-- the same for a fixed policy: `gd` is the long-run average reward of the policy whose evaluation equation `(gd, hd)` solves -/
theorem policy_gain_is_nstep_average (hv : C02.Valid P c) (hst : Stoch P)
    (pol : Fin P.nS → Nat) (hpol : ∀ i, pol i < P.nA)
    (hd : Fin P.nS → α) (gd : α) (hgd : ∀ i, Tpol P 1 pol hd i = hd i + gd) (V : Fin P.nS → α) (n : Nat) (i : Fin P.nS) :
    haveI : Nonempty (Fin P.nS) := ⟨⟨0, hv.1⟩⟩
    hd i + n * gd + vmin (fun j => V j - hd j) ≤ (Tpol P 1 pol)^[n] V i ∧
    (Tpol P 1 pol)^[n] V i ≤ hd i + n * gd + vmax (fun j => V j - hd j) := by
  haveI : Nonempty (Fin P.nS) := ⟨⟨0, hv.1⟩⟩
  exact nstep_bracket (Tpol P 1 pol) (Tpol_monoShift P 1 (by norm_num) hst hv.1 pol hpol) hd gd hgd V n i

/-- no policy has a larger long-run average reward than `g` -/
theorem optimal_gain_dominates (hv : C02.Valid P c) (hA : 0 < P.nA) (hst : Stoch P)
    (h : Fin P.nS → α) (g : α) (hg : ∀ i, Top P 1 h i = h i + g)
    (pol : Fin P.nS → Nat) (hpol : ∀ i, pol i < P.nA)
    (hd : Fin P.nS → α) (gd : α) (hgd : ∀ i, Tpol P 1 pol hd i = hd i + gd) : gd ≤ g := by
  haveI : Nonempty (Fin P.nS) := ⟨⟨0, hv.1⟩⟩
  have hb := (bracket (Tpol P 1 pol) (Tpol_monoShift P 1 (by norm_num) hst hv.1 pol hpol) hd gd hgd h).2
  refine le_trans hb (vmax_le (fun i => ?_))
  have := Tpol_le_Top P 1 hA pol hpol h i
  rw [hg i] at this; linarith

/-- the gain of the optimality equation is unique (whatever the bias) -/
theorem optimal_gain_unique (hv : C02.Valid P c) (hA : 0 < P.nA) (hst : Stoch P)
    (h h' : Fin P.nS → α) (g g' : α) (hg : ∀ i, Top P 1 h i = h i + g) (hg' : ∀ i, Top P 1 h' i = h' i + g') : g = g' := by
  haveI : Nonempty (Fin P.nS) := ⟨⟨0, hv.1⟩⟩
  have hT := Top_monoShift P 1 (by norm_num) hst hv.1 hA
  have hb := bracket (Top P 1) hT h g hg h'
  have e : (fun i => Top P 1 h' i - h' i) = fun _ => g' := by funext i; rw [hg' i]; ring
  rw [e, vmin_const, vmax_const] at hb
  exact le_antisymm hb.2 hb.1

/-- **whole `solve()` call, against every policy**: on reported convergence the returned policy's long-run average reward is
    within ε of that of *every* stationary deterministic policy (that has an evaluation solution) -/
theorem rvi_solve_beats_every_policy (hv : C02.Valid P c) (hA : 0 < P.nA) (hst : Stoch P) (f k : Nat)
    (s : SState α) (hs : s.values.length = P.nS) (hinv : s.gain = (s.values.getLast?).getD 0)
    (hc : (rviSolve P c 1 ε f k s).converged = true)
    (h : Fin P.nS → α) (g : α) (hg : ∀ i, Top P 1 h i = h i + g)
    (pl : List Nat) (hpl : (rviSolve P c 1 ε f k s).state.policy = some pl)
    (hdv : Fin P.nS → α) (gd : α) (hgd : ∀ i, Tpol P 1 (C01.polFn P.nS pl) hdv i = hdv i + gd)
    (pol' : Fin P.nS → Nat) (hpol' : ∀ i, pol' i < P.nA)
    (hd' : Fin P.nS → α) (gd' : α) (hgd' : ∀ i, Tpol P 1 pol' hd' i = hd' i + gd') : gd' - gd < ε := by
  have h1 := (rvi_solve_converged P c ε hv hA hst f k s hs hinv hc h g hg pl hpl hdv gd hgd).2.2.2
  have h2 := optimal_gain_dominates P c hv hA hst h g hg pol' hpol' hd' gd' hgd'
  linarith

end MdpaxV.C04
