/-
C02 — One sweep is the exact Bellman optimality backup; the policy is greedy.
Property theorems only.  `α` is any linearly ordered field (in particular `Rat`, which the driver runs).
-/
import MdpaxV.Theory.Backup
import MdpaxV.Props.C18
set_option linter.unusedSectionVars false
namespace MdpaxV.C02
open MdpaxV
variable {α : Type} [Field α] [LinearOrder α] [IsStrictOrderedRing α]

/-- the layout belongs to the problem: n = number of states ≥ 1, max_batch_size ≥ 1, devices ≥ 1 -/
def Valid (P : Problem α) (c : BatchCfg) : Prop := 0 < P.nS ∧ c.n = P.nS ∧ 0 < c.maxbs ∧ 0 < c.dev
instance (P : Problem α) (c : BatchCfg) : Decidable (Valid P c) := by unfold Valid; infer_instance

theorem valid18 {P : Problem α} {c : BatchCfg} (h : Valid P c) : C18.Valid c := ⟨by rw [h.2.1]; exact h.1, h.2.2.1, h.2.2.2⟩

/-- whatever is computed per slot, the sweep machinery returns it for the states in natural order -/
theorem slots_map {γ' : Type} (P : Problem α) (c : BatchCfg) (h : Valid P c) (f : Nat → γ') (padv : γ') :
    unbatch c (map3 (onSlot f padv) (prepare c none (stateSlots P.nS))) = (List.range P.nS).map f := by
  rw [C18.unbatch_map_prepare c (valid18 h) none _ _ (by simp [stateSlots, h.2.1])]
  simp [stateSlots, onSlot, Function.comp_def]

/-- **every state** — in any batch, on any device, whatever the padding rows compute — receives exactly
    `max_a Σ_e p(e)·(r(e) + γ·V[idx(next(e))])`; no well-formedness of the problem is needed -/
theorem sweep_eq_map_backup (P : Problem α) (c : BatchCfg) (h : Valid P c) (γ : α) (V : List α) (padv : α) :
    sweep P c γ V padv = (List.range P.nS).map (backup P γ (look V)) :=
  slots_map P c h _ padv

theorem policy_eq_map_greedy (P : Problem α) (c : BatchCfg) (h : Valid P c) (γ : α) (V : List α) (padv : Nat) :
    policy P c γ V padv = (List.range P.nS).map (greedyIdx P γ (look V)) :=
  slots_map P c h _ padv

/-- the action value is the textbook expectation Σ_e (r + γ·v(idx next))·p -/
theorem qval_textbook (P : Problem α) (γ : α) (v : Int → α) (s a : Nat) :
    qval P γ v s a = ((List.range P.nE).map fun e => (P.rew s a e + γ * v (P.nxt s a e)) * P.prob s a e).sum :=
  qval_eq_sum P γ v s a

/-- `backup` is the maximum over the action space: an upper bound that is attained -/
theorem backup_is_max (P : Problem α) (γ : α) (v : Int → α) (s : Nat) (hA : 0 < P.nA) :
    (∀ a, a < P.nA → qval P γ v s a ≤ backup P γ v s) ∧ ∃ a, a < P.nA ∧ qval P γ v s a = backup P γ v s := by
  unfold backup qrow
  constructor
  · intro a ha
    exact le_maxList_of_mem _ _ (List.mem_map.mpr ⟨a, List.mem_range.mpr ha, rfl⟩)
  · have := maxList_mem ((List.range P.nA).map (qval P γ v s)) (by simp; omega)
    obtain ⟨a, ha, he⟩ := List.mem_map.mp this
    exact ⟨a, List.mem_range.mp ha, he⟩

/-- the extracted action is in the action space, attains the maximum, and is the *first* maximiser -/
theorem policy_attains (P : Problem α) (γ : α) (v : Int → α) (s : Nat) (hA : 0 < P.nA) :
    greedyIdx P γ v s < P.nA ∧ qval P γ v s (greedyIdx P γ v s) = backup P γ v s ∧
    ∀ a, a < greedyIdx P γ v s → qval P γ v s a < backup P γ v s := by
  unfold greedyIdx backup
  have hlen : (qrow P γ v s).length = P.nA := by unfold qrow; simp
  have hq : ∀ j, j < P.nA → (qrow P γ v s)[j]? = some (qval P γ v s j) := by
    intro j hj; unfold qrow; rw [List.getElem?_map, List.getElem?_range hj]; rfl
  have hne : qrow P γ v s ≠ [] := by
    intro h0; rw [h0] at hlen; simp at hlen; omega
  obtain ⟨h1, _, h3⟩ := argmaxList_spec (qrow P γ v s) hne
  have hlt : argmaxList (qrow P γ v s) < P.nA := by
    by_contra hc
    rw [List.getElem?_eq_none (by rw [hlen]; omega)] at h1; simp at h1
  refine ⟨hlt, ?_, ?_⟩
  · rw [hq _ hlt] at h1; exact Option.some.inj h1
  · intro a ha
    exact h3 a _ ha (hq a (by omega))

/-- monotone: V ≤ V' pointwise ⇒ sweep V ≤ sweep V' pointwise (γ ≥ 0, probabilities ≥ 0) -/
theorem sweep_mono (P : Problem α) (c : BatchCfg) (h : Valid P c) (γ : α) (hγ : 0 ≤ γ) (hst : Stoch P)
    (U V : List α) (hU : U.length = P.nS) (hUV : List.Forall₂ (· ≤ ·) U V) (padv : α) :
    List.Forall₂ (· ≤ ·) (sweep P c γ U padv) (sweep P c γ V padv) := by
  rw [sweep_eq_map_backup P c h, sweep_eq_map_backup P c h]
  apply forall₂_map_of_mem
  intro s hs
  apply backup_mono P γ hγ s (fun a e ha he => hst.1 s a e (List.mem_range.mp hs) ha he)
  exact look_forall₂ _ U V hUV (by rw [hU]; exact h.1)

/-- shift: adding a constant c to every value adds γ·c to every swept value (rows sum to one) -/
theorem sweep_shift (P : Problem α) (c : BatchCfg) (h : Valid P c) (γ : α) (hst : Stoch P) (hA : 0 < P.nA)
    (V : List α) (hV : V.length = P.nS) (k : α) (padv : α) :
    sweep P c γ (V.map (· + k)) padv = (sweep P c γ V padv).map (· + γ * k) := by
  rw [sweep_eq_map_backup P c h, sweep_eq_map_backup P c h, List.map_map]
  apply List.map_congr_left
  intro s hs
  have : look (V.map (· + k)) = fun j => look V j + k := by
    funext j; exact look_map_add V (by rw [hV]; exact h.1) k j
  rw [this]
  exact backup_shift P γ s hA (fun a ha => hst.2 s a (List.mem_range.mp hs) ha) (look V) k

/-- γ-contraction in the sup norm: ‖U − V‖ ≤ δ ⇒ ‖sweep U − sweep V‖ ≤ γ·δ, for γ ∈ [0, 1] (indeed any γ ≥ 0) -/
theorem sweep_contraction (P : Problem α) (c : BatchCfg) (h : Valid P c) (γ : α) (hγ : 0 ≤ γ) (hst : Stoch P) (hA : 0 < P.nA)
    (U V : List α) (hU : U.length = P.nS) (δ : α) (hUV : List.Forall₂ (fun a b => |a - b| ≤ δ) U V) (padv : α) :
    List.Forall₂ (fun a b => |a - b| ≤ γ * δ) (sweep P c γ U padv) (sweep P c γ V padv) := by
  rw [sweep_eq_map_backup P c h, sweep_eq_map_backup P c h]
  apply forall₂_map_of_mem
  intro s hs
  have hs' := List.mem_range.mp hs
  have hlook : ∀ i, |look U i - look V i| ≤ δ := look_forall₂ _ U V hUV (by rw [hU]; exact h.1)
  have hp := fun a e ha he => hst.1 s a e hs' ha he
  have hsum := fun a ha => hst.2 s a hs' ha
  have h1 : backup P γ (look U) s ≤ backup P γ (look V) s + γ * δ := by
    rw [← backup_shift P γ s hA hsum (look V) δ]
    apply backup_mono P γ hγ s hp
    intro i; have := abs_le.mp (hlook i); linarith
  have h2 : backup P γ (look V) s ≤ backup P γ (look U) s + γ * δ := by
    rw [← backup_shift P γ s hA hsum (look U) δ]
    apply backup_mono P γ hγ s hp
    intro i; have := abs_le.mp (hlook i); linarith
  rw [abs_le]; constructor <;> linarith

/-! non-vacuity: a 2-state, 2-action (one tie), 2-event problem over ℚ satisfies all hypotheses -/
def exP : Problem Rat :=
  { nS := 2, nA := 2, nE := 2, nxt := fun s _ e => if e = 0 then s else 1 - s, rew := fun s _ e => (s : Rat) + e,
    prob := fun _ _ _ => 1/2, sidx := fun s => s, zidx := 0, initVal := fun _ => 0 }
example : Valid exP ⟨2, 1, 2⟩ := by decide
example : Stoch exP := by
  refine ⟨fun _ _ _ _ _ _ => by simp [exP], fun _ _ _ _ => by simp [exP]; norm_num⟩

end MdpaxV.C02

#print axioms MdpaxV.C02.sweep_eq_map_backup
#print axioms MdpaxV.C02.policy_eq_map_greedy
#print axioms MdpaxV.C02.qval_textbook
#print axioms MdpaxV.C02.backup_is_max
#print axioms MdpaxV.C02.policy_attains
#print axioms MdpaxV.C02.sweep_mono
#print axioms MdpaxV.C02.sweep_shift
#print axioms MdpaxV.C02.sweep_contraction
