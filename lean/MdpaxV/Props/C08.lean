/-
C08 — Stopping rule, iteration accounting and composability of solve().
Generic theorems about the `solve` loop, then their instances for the five solvers.
-/
import MdpaxV.Theory.Loop
import MdpaxV.Theory.Backup
import MdpaxV.Model.Solvers
import MdpaxV.Props.C02
set_option linter.unusedSectionVars false
namespace MdpaxV.C08
open MdpaxV

section generic
variable {σ : Type} (step : σ → σ × Bool) (iter : σ → Nat) (finish : Bool → σ → σ)

/-- `solve(k)` performs at most `k` iterations -/
theorem solve_at_most (f k : Nat) (s : σ) : (solveCall step iter finish f k s).sweeps ≤ k := by
  obtain ⟨m, h1, h2, _⟩ := loopBody_spec step iter f k s 0 []
  simp only [solveCall, solveLoop]; omega

/-- it stops at the **first** iteration whose test fires: with m iterations performed,
    converged ⇒ the test fired at iteration m and at no earlier one; not converged ⇒ m = k and it never fired.
    The state is the m-th iterate (then `finish`). -/
theorem solve_first_below (f k : Nat) (s : σ) :
    let r := solveCall step iter finish f k s
    r.state = finish r.converged (iterState step r.sweeps s) ∧
    (r.converged = true → 1 ≤ r.sweeps ∧ (step (iterState step (r.sweeps - 1) s)).2 = true ∧
        ∀ j, j + 1 < r.sweeps → (step (iterState step j s)).2 = false) ∧
    (r.converged = false → r.sweeps = k ∧ ∀ j, j < r.sweeps → (step (iterState step j s)).2 = false) := by
  obtain ⟨m, h1, _, h3, h4, h5⟩ := loopBody_spec step iter f k s 0 []
  simp only [solveCall, solveLoop]
  have hm : (loopBody step iter f k s 0 []).sweeps = m := by omega
  rw [hm]
  exact ⟨by rw [h3], h4, h5⟩

/-- the iteration counter always equals the counter before the call plus the iterations performed -/
theorem solve_iteration_counts (hinc : ∀ s, iter (step s).1 = iter s + 1) (hfin : ∀ c s, iter (finish c s) = iter s)
    (f k : Nat) (s : σ) :
    iter (solveCall step iter finish f k s).state = iter s + (solveCall step iter finish f k s).sweeps := by
  have := loopBody_iter step iter hinc f k s 0 []
  simp only [solveCall, solveLoop, hfin]; omega

/-- computed results never depend on the checkpoint frequency -/
theorem solve_indep_of_frequency (f f' k : Nat) (s : σ) :
    (solveCall step iter finish f k s).state = (solveCall step iter finish f' k s).state ∧
    (solveCall step iter finish f k s).converged = (solveCall step iter finish f' k s).converged ∧
    (solveCall step iter finish f k s).sweeps = (solveCall step iter finish f' k s).sweeps := by
  have := loopBody_state_indep step iter f f' k s 0 0 [] []
  simp only [solveCall, solveLoop]
  refine ⟨by rw [this.1, this.2.1], this.2.1, by omega⟩

end generic

section instances
variable {α : Type} [Field α] [LinearOrder α] [IsStrictOrderedRing α]

/-- everything `step` reads, i.e. every field except the stored policy -/
def SameCore (a b : SState α) : Prop :=
  a.values = b.values ∧ a.iter = b.iter ∧ a.gain = b.gain ∧ a.hist = b.hist ∧ a.hidx = b.hidx

/-- documented thresholds: ε(1−γ)/γ for 0 < γ < 1 (span and max_diff alike), ε when γ = 1 (and when γ = 0, where one
    sweep is exact) -/
theorem threshold_def (γ ε : α) :
    (γ = 1 → threshold γ ε = some ε) ∧ (γ ≠ 1 → γ ≠ 0 → threshold γ ε = some (ε * (1 - γ) / γ)) ∧
    (γ = 0 → threshold γ ε = some ε) := by
  unfold threshold
  refine ⟨fun h => by simp [h], fun h1 h0 => by simp [h1, h0], fun h => by simp [h]⟩

/-- initial values are the problem's own estimates, per state in natural order, for every layout -/
theorem initValues_def (P : Problem α) (c : BatchCfg) (h : C02.Valid P c) (padv : α) :
    initValues P c padv = (List.range P.nS).map P.initVal :=
  C02.slots_map P c h _ padv

/-- never a false convergence (strict `<`), value-iteration: the test fires iff measure < threshold -/
theorem viStep_done_iff (P : Problem α) (c : BatchCfg) (γ thr : α) (t : ConvTest) (s : SState α) :
    (viStep P c γ thr t s).2 = true ↔ convMeasure t (sweep P c γ s.values 0) s.values < thr := by
  simp [viStep]

theorem rviStep_done_iff (P : Problem α) (c : BatchCfg) (γ ε : α) (s : SState α) :
    (rviStep P c γ ε s).2 = true ↔ spanOf ((sweep P c γ s.values 0).map (· - s.gain)) s.values < ε := by
  simp [rviStep]

theorem semiStep_done_iff (P : Problem α) (c : BatchCfg) (γ thr : α) (t : ConvTest) (perms : Nat → Option (List Nat))
    (choose : Nat → Bool) (s : SState α) :
    (semiStep P c γ thr t perms choose s).2 = true ↔
      convMeasure t (semiSweep P c γ s.values (perms (s.iter + 1)) choose 0) s.values < thr := by
  simp [semiStep]

theorem periodicStep_done_iff (P : Problem α) (c : BatchCfg) (γ ε : α) (period : Nat) (s : SState α) :
    (periodicStep P c γ ε period s).2 = true ↔
      ∃ m, periodicMeasureNext P c γ period s = some m ∧ m < ε := by
  simp only [periodicStep, periodicMeasureNext]
  split <;> simp_all

/-- policy iteration stops iff no state's action changed -/
theorem piStep_done_iff (P : Problem α) (c : BatchCfg) (γ thr : α) (t : ConvTest) (budget : Nat) (reset : Option (List α))
    (s : SState α) :
    (piStep P c γ thr t budget reset s).2 = true ↔
      nChanged (policy P c γ (evaluate P c γ thr t (s.policy.getD []) budget (reset.getD s.values)) 0) (s.policy.getD []) = 0 := by
  simp [piStep]

/-- value iteration: values after `j` iterations are `j` sweeps of the starting values, iteration counter + j -/
theorem vi_iterState (P : Problem α) (c : BatchCfg) (γ thr : α) (t : ConvTest) (j : Nat) (s : SState α) :
    (iterState (viStep P c γ thr t) j s).values = (fun V => sweep P c γ V 0)^[j] s.values ∧
    (iterState (viStep P c γ thr t) j s).iter = s.iter + j := by
  induction j generalizing s with
  | zero => simp [iterState]
  | succ j ih =>
    rw [iterState_succ]
    obtain ⟨h1, h2⟩ := ih (viStep P c γ thr t s).1
    rw [h1, h2]
    simp [viStep, Function.iterate_succ_apply]; omega

/-- the reported iteration count is the number of reference backups applied to the problem's initial estimates -/
theorem vi_values_are_backups (P : Problem α) (c : BatchCfg) (hv : C02.Valid P c) (γ thr : α) (t : ConvTest) (f k : Nat) :
    let r := viSolve P c γ thr t f k (initState P c)
    r.state.iter = r.sweeps ∧
    r.state.values = (fun V => (List.range P.nS).map (backup P γ (look V)))^[r.state.iter] ((List.range P.nS).map P.initVal) := by
  have h := solve_first_below (viStep P c γ thr t) (·.iter) (viFinish P c γ) f k (initState P c)
  obtain ⟨h1, h2⟩ := vi_iterState P c γ thr t (viSolve P c γ thr t f k (initState P c)).sweeps (initState P c)
  simp only [viSolve] at h h1 h2 ⊢
  have hsw : (fun V => sweep P c γ V (0 : α)) = fun V => (List.range P.nS).map (backup P γ (look V)) := by
    funext V; exact C02.sweep_eq_map_backup P c hv γ V 0
  refine ⟨?_, ?_⟩
  · rw [h.1]; simp only [viFinish]; rw [h2]; simp [initState]
  · rw [h.1]; simp only [viFinish]; rw [h1, h2, hsw]
    simp [initState, initValues_def P c hv]

theorem sameCore_refl (a : SState α) : SameCore a a := ⟨rfl, rfl, rfl, rfl, rfl⟩

/-- solve(k₁); solve(k₂) = solve(k₁+k₂) — value iteration -/
theorem vi_compose (P : Problem α) (c : BatchCfg) (γ thr : α) (t : ConvTest) (f k1 k2 : Nat) (s : SState α)
    (h : (viSolve P c γ thr t f k1 s).converged = false) :
    let r1 := viSolve P c γ thr t f k1 s
    let r2 := viSolve P c γ thr t f k2 r1.state
    let r := viSolve P c γ thr t f (k1 + k2) s
    r2.state = r.state ∧ r2.converged = r.converged ∧ r.sweeps = r1.sweeps + r2.sweeps := by
  apply solveCall_compose SameCore _ _ _ _ _ _ f k1 k2 s h
  · rintro a b ⟨h1, h2, h3, h4, h5⟩
    simp only [viStep, SameCore, h1, h2, h3, h4, h5]; simp
  · intro a; simp [viFinish, SameCore]
  · rintro c' a b ⟨h1, h2, h3, h4, h5⟩
    cases a; cases b; simp_all [viFinish]

/-- … relative value iteration -/
theorem rvi_compose (P : Problem α) (c : BatchCfg) (γ ε : α) (f k1 k2 : Nat) (s : SState α)
    (h : (rviSolve P c γ ε f k1 s).converged = false) :
    let r1 := rviSolve P c γ ε f k1 s
    let r2 := rviSolve P c γ ε f k2 r1.state
    let r := rviSolve P c γ ε f (k1 + k2) s
    r2.state = r.state ∧ r2.converged = r.converged ∧ r.sweeps = r1.sweeps + r2.sweeps := by
  apply solveCall_compose SameCore _ _ _ _ _ _ f k1 k2 s h
  · rintro a b ⟨h1, h2, h3, h4, h5⟩
    simp only [rviStep, SameCore, h1, h2, h3, h4, h5]; simp
  · intro a; simp [viFinish, SameCore]
  · rintro c' a b ⟨h1, h2, h3, h4, h5⟩
    cases a; cases b; simp_all [viFinish]

/-- … semi-asynchronous value iteration (for any fixed assignment of permutations to iteration numbers) -/
theorem semi_compose (P : Problem α) (c : BatchCfg) (γ thr : α) (t : ConvTest) (perms : Nat → Option (List Nat))
    (choose : Nat → Bool) (f k1 k2 : Nat) (s : SState α)
    (h : (semiSolve P c γ thr t perms choose f k1 s).converged = false) :
    let r1 := semiSolve P c γ thr t perms choose f k1 s
    let r2 := semiSolve P c γ thr t perms choose f k2 r1.state
    let r := semiSolve P c γ thr t perms choose f (k1 + k2) s
    r2.state = r.state ∧ r2.converged = r.converged ∧ r.sweeps = r1.sweeps + r2.sweeps := by
  apply solveCall_compose SameCore _ _ _ _ _ _ f k1 k2 s h
  · rintro a b ⟨h1, h2, h3, h4, h5⟩
    simp only [semiStep, SameCore, h1, h2, h3, h4, h5]; simp
  · intro a; simp [viFinish, SameCore]
  · rintro c' a b ⟨h1, h2, h3, h4, h5⟩
    cases a; cases b; simp_all [viFinish]

/-- … periodic value iteration -/
theorem periodic_compose (P : Problem α) (c : BatchCfg) (γ ε : α) (period : Nat) (clear : Bool) (f k1 k2 : Nat) (s : SState α)
    (h : (periodicSolve P c γ ε period clear f k1 s).converged = false) :
    let r1 := periodicSolve P c γ ε period clear f k1 s
    let r2 := periodicSolve P c γ ε period clear f k2 r1.state
    let r := periodicSolve P c γ ε period clear f (k1 + k2) s
    r2.state = r.state ∧ r2.converged = r.converged ∧ r.sweeps = r1.sweeps + r2.sweeps := by
  apply solveCall_compose SameCore _ _ _ _ _ _ f k1 k2 s h
  · rintro a b ⟨h1, h2, h3, h4, h5⟩
    simp only [periodicStep, SameCore, h1, h2, h3, h4, h5]; simp
  · intro a; simp [periodicFinish, viFinish, SameCore]
  · rintro c' a b ⟨h1, h2, h3, h4, h5⟩
    cases a; cases b; simp_all [periodicFinish, viFinish]

/-- … policy iteration (stops by `n_changed = 0`) -/
theorem pi_compose (P : Problem α) (c : BatchCfg) (γ thr : α) (t : ConvTest) (budget : Nat) (reset : Option (List α))
    (f k1 k2 : Nat) (s : SState α)
    (h : (piSolve P c γ thr t budget reset f k1 s).converged = false) :
    let r1 := piSolve P c γ thr t budget reset f k1 s
    let r2 := piSolve P c γ thr t budget reset f k2 r1.state
    let r := piSolve P c γ thr t budget reset f (k1 + k2) s
    r2.state = r.state ∧ r2.converged = r.converged ∧ r.sweeps = r1.sweeps + r2.sweeps := by
  apply solveCall_compose Eq _ _ _ _ _ _ f k1 k2 s h
  · rintro a b rfl; exact ⟨rfl, rfl⟩
  · intro a; rfl
  · rintro c' a b rfl; rfl

/-! non-vacuity: the model loop on a concrete problem performs 3 non-converged sweeps and then composes -/
example : (viSolve C02.exP ⟨2, 1, 1⟩ (1/2 : Rat) (1/1000) .span 0 1 (initState C02.exP ⟨2, 1, 1⟩)).converged = false := by
  decide +kernel

end instances
end MdpaxV.C08
