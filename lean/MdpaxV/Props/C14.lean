/-
C14 — Shipped problems are closed and their state index is consistent.
For every parameterisation (no bound on useful life, lead time, limits) and **every** listed event — not only the
positive-probability ones — the successor is a listed state and the index function points back to exactly that vector.
-/
import MdpaxV.Props.C19
import MdpaxV.Theory.Issue
import Mathlib.Tactic.Positivity
set_option linter.unusedSectionVars false
namespace MdpaxV.C14
open MdpaxV

/-- box membership for a zero lower corner, coordinatewise -/
def Within (v maxs : List Int) : Prop := List.Forall₂ (fun x M => 0 ≤ x ∧ x ≤ M) v maxs

theorem inBox_of_within (v maxs : List Int) (h : Within v maxs) :
    C19.InBox (List.replicate maxs.length 0) (dimsOf (List.replicate maxs.length 0) maxs) v := by
  induction h with
  | nil => simp [dimsOf, C19.InBox]
  | cons hab _ ih =>
    simp only [List.length_cons, List.replicate_succ, dimsOf, C19.InBox]
    refine ⟨hab.1, by omega, ih⟩

theorem within_of_inBox (v maxs : List Int) (hM : ∀ M ∈ maxs, 0 ≤ M)
    (h : C19.InBox (List.replicate maxs.length 0) (dimsOf (List.replicate maxs.length 0) maxs) v) : Within v maxs := by
  induction maxs generalizing v with
  | nil => cases v <;> simp_all [dimsOf, C19.InBox, Within]
  | cons M Ms ih =>
    cases v with
    | nil => simp [dimsOf, C19.InBox] at h
    | cons x xs =>
      simp only [List.length_cons, List.replicate_succ, dimsOf, C19.InBox] at h
      have hM0 := hM M (by simp)
      exact List.Forall₂.cons ⟨h.1, by omega⟩ (ih xs (fun M' h' => hM M' (by simp [h'])) h.2.2)

theorem dims_len (maxs : List Int) : (List.replicate maxs.length (0:Int)).length = (dimsOf (List.replicate maxs.length 0) maxs).length := by
  induction maxs with
  | nil => simp [dimsOf]
  | cons M Ms ih => simp [List.replicate_succ, dimsOf] at ih ⊢; exact ih

/-- a vector within the bounds is a listed row, and the index function points back to exactly that vector:
    nothing is clipped onto a different state -/
theorem listed_and_index_back (v maxs : List Int) (h : Within v maxs) :
    v ∈ rangeSpace (List.replicate maxs.length 0) maxs ∧
    (rangeSpace (List.replicate maxs.length 0) maxs)[indexFn (List.replicate maxs.length 0) maxs v]? = some v := by
  have hb := inBox_of_within v maxs h
  exact ⟨(C19.space_mem _ _ (dims_len maxs) v).mpr hb, C19.space_ravel _ _ v hb⟩

theorem within_of_mem (v maxs : List Int) (hM : ∀ M ∈ maxs, 0 ≤ M) (h : v ∈ rangeSpace (List.replicate maxs.length 0) maxs) : Within v maxs :=
  within_of_inBox v maxs hM ((C19.space_mem _ _ (dims_len maxs) v).mp h)

theorem within_replicate_iff (v : List Int) (n : Nat) (Q : Int) :
    Within v (List.replicate n Q) ↔ v.length = n ∧ ∀ x ∈ v, 0 ≤ x ∧ x ≤ Q := by
  induction v generalizing n with
  | nil => cases n <;> simp [Within, List.replicate_succ]
  | cons x xs ih =>
    cases n with
    | zero => simp [Within]
    | succ n =>
      simp only [Within, List.replicate_succ, List.forall₂_cons, List.length_cons, List.mem_cons, forall_eq_or_imp]
      rw [show List.Forall₂ (fun x M => 0 ≤ x ∧ x ≤ M) xs (List.replicate n Q) ↔ Within xs (List.replicate n Q) from Iff.rfl, ih n]
      constructor
      · rintro ⟨h1, h2, h3⟩; exact ⟨by omega, h1, h3⟩
      · rintro ⟨h1, h2, h3⟩; exact ⟨h2, by omega, h3⟩

/-- remaining stock after issuing stays within [0, Q] slot by slot -/
theorem issue_within (fifo : Bool) (d : Int) (hd : 0 ≤ d) (xs : List Int) (Q : Int) (hx : ∀ x ∈ xs, 0 ≤ x ∧ x ≤ Q) :
    ∀ r ∈ (if fifo then issueRev d xs else issueFwd d xs), 0 ≤ r ∧ r ≤ Q := by
  have hb : List.Forall₂ (fun r x => 0 ≤ r ∧ r ≤ x) (if fifo then issueRev d xs else issueFwd d xs) xs := by
    split
    · exact issueRev_bounds d hd xs (fun x h => (hx x h).1)
    · exact issueFwd_bounds d hd xs (fun x h => (hx x h).1)
  intro r hr
  obtain ⟨k, hk, rfl⟩ := List.getElem_of_mem hr
  have hlen := hb.length_eq
  have := (List.forall₂_iff_get.mp hb).2 k hk (by omega)
  simp only [List.get_eq_getElem] at this
  have hxk := hx _ (List.getElem_mem (show k < xs.length by omega))
  exact ⟨this.1, by omega⟩

variable {α : Type} [Add α] [Mul α] [Zero α] [One α] [Neg α] [Sub α] [IntCast α]

/-- **De Moor is closed** for every useful life m ≥ 1, lead time L ≥ 1, order limit Q, both issuing policies and every
    demand event: the successor of a listed state under a listed action is a listed state whose index points back to it -/
theorem demoor_closed (c : DeMoorCfg α) (hm : 1 ≤ c.m) (hL : 1 ≤ c.L) (s a e : List Int)
    (hs : s ∈ deMoorStates c) (ha : a ∈ deMoorActions c) (he : e ∈ deMoorEvents c) :
    (deMoorTrans c s a e).1 ∈ deMoorStates c ∧
    (deMoorStates c)[(deMoorIdx c (deMoorTrans c s a e).1).toNat]? = some (deMoorTrans c s a e).1 := by
  unfold deMoorStates deMoorIdx at *
  set n := deMoorDim c with hn
  have hlenrep : (List.replicate n (c.Q : Int)).length = n := by simp
  have hsW : Within s (List.replicate n (c.Q : Int)) := by
    apply within_of_mem s _ (by intro M hM; rw [List.eq_of_mem_replicate hM]; omega)
    rw [hlenrep]; exact hs
  obtain ⟨hslen, hsb⟩ := (within_replicate_iff s n c.Q).mp hsW
  obtain ⟨qa, hqa, rfl⟩ := List.mem_map.mp ha
  obtain ⟨qd, hqd, rfl⟩ := List.mem_map.mp he
  have hqa' : qa ≤ c.Q := by have := List.mem_range.mp hqa; omega
  have hW : Within (deMoorTrans c s [(qa : Int)] [(qd : Int)]).1 (List.replicate n (c.Q : Int)) := by
    rw [within_replicate_iff]
    have hstock_len : ((s.drop (c.L - 1)).take c.m).length = c.m := by
      simp only [List.length_take, List.length_drop, hslen, hn, deMoorDim]; omega
    have hstock_b : ∀ x ∈ (s.drop (c.L - 1)).take c.m, 0 ≤ x ∧ x ≤ (c.Q : Int) :=
      fun x hx => hsb x (List.mem_of_mem_drop (List.mem_of_mem_take hx))
    have hafter := issue_within c.fifo (qd : Int) (by omega) _ (c.Q : Int) hstock_b
    have hafter_len : (if c.fifo then issueRev (qd : Int) ((s.drop (c.L - 1)).take c.m) else issueFwd (qd : Int) ((s.drop (c.L - 1)).take c.m)).length = c.m := by
      split
      · rw [issueRev_length]; exact hstock_len
      · rw [issueFwd_length]; exact hstock_len
    have hpipe_b : ∀ x ∈ [(qa : Int)] ++ s.take (c.L - 1), 0 ≤ x ∧ x ≤ (c.Q : Int) := by
      intro x hx
      rcases List.mem_append.mp hx with h | h
      · simp at h; subst h; exact ⟨by omega, by exact_mod_cast hqa'⟩
      · exact hsb x (List.mem_of_mem_take h)
    have hpipe_len : ([(qa : Int)] ++ s.take (c.L - 1)).length = c.L := by
      simp only [List.length_append, List.length_cons, List.length_nil, List.length_take, hslen, hn, deMoorDim]; omega
    constructor
    · simp only [deMoorTrans, List.headD_cons, List.length_append, List.length_take, List.length_cons, hpipe_len, hafter_len, hn, deMoorDim]
      omega
    · intro x hx
      simp only [deMoorTrans, List.headD_cons] at hx
      rcases List.mem_append.mp hx with h | h
      · exact hpipe_b x (List.mem_of_mem_take h)
      · rcases List.mem_cons.mp h with h | h
        · rw [h]
          have hne : [(qa : Int)] ++ s.take (c.L - 1) ≠ [] := by simp
          rw [List.getLastD_eq_getLast?, List.getLast?_eq_some_getLast hne]
          exact hpipe_b _ (List.getLast_mem hne)
        · exact hafter x (List.mem_of_mem_take h)
  have := listed_and_index_back _ _ hW
  rw [hlenrep] at this
  refine ⟨this.1, ?_⟩
  simpa using this.2

/-- **Forest is closed**: the successor is a listed state and its index is its own position -/
theorem forest_closed (c : ForestCfg α) (s a e : List Int) (hs : s ∈ forestStates c) :
    (forestTrans c s a e).1 ∈ forestStates c ∧
    (forestStates c)[(forestIdx (forestTrans c s a e).1).toNat]? = some (forestTrans c s a e).1 := by
  obtain ⟨i, hi, rfl⟩ := List.mem_map.mp hs
  have hi' := List.mem_range.mp hi
  simp only [forestTrans, forestStates, forestIdx, List.headD_cons]
  have key : ∀ z : Int, 0 ≤ z → z < c.S → [z] ∈ (List.range c.S).map (fun (i : Nat) => [(i : Int)]) ∧
      ((List.range c.S).map (fun (i : Nat) => [(i : Int)]))[z.toNat]? = some [z] := by
    intro z h0 h1
    refine ⟨List.mem_map.mpr ⟨z.toNat, List.mem_range.mpr (by omega), by simp [Int.toNat_of_nonneg h0]⟩, ?_⟩
    rw [List.getElem?_map, List.getElem?_range (by omega)]
    simp [Int.toNat_of_nonneg h0]
  split
  · exact key 0 (by omega) (by omega)
  · exact key _ (by omega) (by omega)

theorem within_append_split (v A B : List Int) (h : Within v (A ++ B)) :
    Within (v.take A.length) A ∧ Within (v.drop A.length) B := by
  induction A generalizing v with
  | nil => simpa [Within] using h
  | cons M A ih =>
    cases v with
    | nil => simp [Within] at h
    | cons x xs =>
      simp only [Within, List.cons_append, List.forall₂_cons] at h
      obtain ⟨h1, h2⟩ := ih xs h.2
      exact ⟨List.Forall₂.cons h.1 h1, h2⟩

theorem within_mem_bounds (v : List Int) (n : Nat) (Q : Int) (h : Within v (List.replicate n Q)) : ∀ x ∈ v, 0 ≤ x ∧ x ≤ Q :=
  ((within_replicate_iff v n Q).mp h).2

/-- closing stock of one product: `order :: remaining without the expiring class` stays within [0, Q]^m -/
theorem closing_within (m : Nat) (hm : 1 ≤ m) (Q : Nat) (stock : List Int) (hW : Within stock (List.replicate m (Q : Int)))
    (order : Int) (ho : 0 ≤ order ∧ order ≤ Q) (d : Int) (hd : 0 ≤ d) :
    Within (order :: (issueRev d stock).take (m - 1)) (List.replicate m (Q : Int)) := by
  obtain ⟨hlen, hb⟩ := (within_replicate_iff stock m Q).mp hW
  rw [within_replicate_iff]
  have hafter := issue_within true d hd stock (Q : Int) hb
  simp only [if_true] at hafter
  constructor
  · simp [issueRev_length, hlen]; omega
  · intro x hx
    rcases List.mem_cons.mp hx with h | h
    · rw [h]; exact ho
    · exact hafter x (List.mem_of_mem_take h)

/-- **Hendrix is closed**: each product's closing stock is `order :: remaining without the expiring class` -/
theorem hendrix_closed (c : HendrixCfg α) (hm : 1 ≤ c.m) (s a e : List Int)
    (hs : s ∈ hendrixStates c) (ha : a ∈ hendrixActions c) (he : e ∈ hendrixEvents c) :
    (hendrixTrans c s a e).1 ∈ hendrixStates c ∧
    (hendrixStates c)[(hendrixIdx c (hendrixTrans c s a e).1).toNat]? = some (hendrixTrans c s a e).1 := by
  unfold hendrixStates hendrixIdx at *
  have hml : (hendrixMaxs c).length = 2 * c.m := by simp [hendrixMaxs]; omega
  have hMnn : ∀ M ∈ hendrixMaxs c, 0 ≤ M := by
    intro M hM
    simp only [hendrixMaxs, List.mem_append] at hM
    rcases hM with h | h <;> rw [List.eq_of_mem_replicate h] <;> omega
  have hsW : Within s (hendrixMaxs c) := within_of_mem s _ hMnn (by rw [hml]; exact hs)
  obtain ⟨hA, hB⟩ := within_append_split s _ _ hsW
  simp only [List.length_replicate] at hA hB
  have hB' : Within ((s.drop c.m).take c.m) (List.replicate c.m (c.Qb : Int)) := by
    have : (s.drop c.m).length = c.m := by rw [hB.length_eq]; simp
    rwa [List.take_of_length_le (by omega)]
  -- the action and event are vectors of two non-negative bounded integers
  have haW : Within a [(c.Qa : Int), (c.Qb : Int)] := by
    apply within_of_mem a [(c.Qa : Int), (c.Qb : Int)] (by intro M hM; simp at hM; rcases hM with h | h <;> omega)
    simpa [hendrixActions] using ha
  have heW : Within e [((c.Qa * c.m : Nat) : Int), ((c.Qb * c.m : Nat) : Int)] := by
    apply within_of_mem e _ (by intro M hM; simp at hM; rcases hM with h | h <;> rw [h] <;> positivity)
    simpa [hendrixEvents] using he
  obtain ⟨oa, ob, rfl, hoa, hob⟩ : ∃ oa ob, a = [oa, ob] ∧ (0 ≤ oa ∧ oa ≤ c.Qa) ∧ (0 ≤ ob ∧ ob ≤ c.Qb) := by
    match a, haW with
    | [x, y], h => simp only [Within, List.forall₂_cons] at h; exact ⟨x, y, rfl, h.1, h.2.1⟩
  obtain ⟨ia, ib, rfl, hia, hib⟩ : ∃ ia ib, e = [ia, ib] ∧ 0 ≤ ia ∧ 0 ≤ ib := by
    match e, heW with
    | [x, y], h => simp only [Within, List.forall₂_cons] at h; exact ⟨x, y, rfl, h.1.1, h.2.1.1⟩
  have hW : Within (hendrixTrans c s [oa, ob] [ia, ib]).1 (hendrixMaxs c) := by
    simp only [hendrixTrans, hendrixMaxs, Within]
    apply List.rel_append
    · exact closing_within c.m hm c.Qa _ hA oa hoa ia hia
    · exact closing_within c.m hm c.Qb _ hB' ob hob ib hib
  have := listed_and_index_back _ _ hW
  rw [hml] at this
  exact ⟨this.1, by simpa using this.2⟩

/-- **Mirjalili is closed**: stock is clipped at Q per age class after delivery, then issued oldest first;
    the weekday advances modulo 7 -/
theorem mirjalili_closed (c : MirjaliliCfg α) (hm : 1 ≤ c.m) (s a e : List Int) (hs : s ∈ mirjaliliStates c)
    (hd : 0 ≤ e.headD 0) (hrec : ((e.drop 1).take c.m).length = c.m) :
    (mirjaliliTrans c s a e).1 ∈ mirjaliliStates c ∧
    (mirjaliliStates c)[(mirjaliliIdx c (mirjaliliTrans c s a e).1).toNat]? = some (mirjaliliTrans c s a e).1 := by
  unfold mirjaliliStates mirjaliliIdx at *
  have hml : (mirjaliliMaxs c).length = c.m := by simp [mirjaliliMaxs]; omega
  have hMnn : ∀ M ∈ mirjaliliMaxs c, 0 ≤ M := by
    intro M hM
    simp only [mirjaliliMaxs, List.mem_cons] at hM
    rcases hM with h | h
    · omega
    · rw [List.eq_of_mem_replicate h]; omega
  have hsW : Within s (mirjaliliMaxs c) := within_of_mem s _ hMnn (by rw [hml]; exact hs)
  have hslen : s.length = c.m := by rw [hsW.length_eq, hml]
  -- weekday component
  obtain ⟨w, rest, rfl⟩ : ∃ w rest, s = w :: rest := by
    cases s with
    | nil => simp at hslen; omega
    | cons w rest => exact ⟨w, rest, rfl⟩
  have hw : 0 ≤ w ∧ w ≤ 6 := by
    simp only [mirjaliliMaxs, Within, List.forall₂_cons] at hsW; exact hsW.1
  have hW : Within (mirjaliliTrans c (w :: rest) a e).1 (mirjaliliMaxs c) := by
    simp only [mirjaliliTrans, mirjaliliMaxs, Within, List.headD_cons, List.drop_succ_cons, List.drop_zero]
    refine List.Forall₂.cons ⟨Int.emod_nonneg _ (by omega), by omega⟩ ?_
    show Within _ (List.replicate (c.m - 1) (c.Q : Int))
    rw [within_replicate_iff]
    set opening := (zipAdd (0 :: rest.take (c.m - 1)) ((e.drop 1).take c.m)).map fun x => min (max x 0) (c.Q : Int) with hop
    have hopb : ∀ x ∈ opening, 0 ≤ x ∧ x ≤ (c.Q : Int) := by
      intro x hx
      obtain ⟨y, _, rfl⟩ := List.mem_map.mp hx
      constructor <;> omega
    have hoplen : opening.length = c.m := by
      have hz : ∀ (l1 l2 : List Int), (zipAdd l1 l2).length = min l1.length l2.length := by
        intro l1
        induction l1 with
        | nil => intro l2; simp [zipAdd]
        | cons x xs ih => intro l2; cases l2 <;> simp [zipAdd, ih]
      simp only [hop, List.length_map, hz, List.length_cons, List.length_take, hrec]
      simp at hslen; omega
    have hafter := issue_within true (e.headD 0) hd opening (c.Q : Int) hopb
    simp only [if_true] at hafter
    constructor
    · simp [issueRev_length, hoplen]
    · intro x hx; exact hafter x (List.mem_of_mem_take hx)
  have := listed_and_index_back _ _ hW
  rw [hml] at this
  exact ⟨this.1, by simpa using this.2⟩

/-- sizes and uniqueness of the state spaces: the documented products, no duplicate rows -/
theorem state_space_sizes (c : DeMoorCfg α) (h : HendrixCfg α) (mj : MirjaliliCfg α) :
    (deMoorStates c).length = (dimsOf (List.replicate (deMoorDim c) 0) (List.replicate (deMoorDim c) (c.Q : Int))).prod ∧ (deMoorStates c).Nodup ∧
    (hendrixStates h).length = (dimsOf (List.replicate (2 * h.m) 0) (hendrixMaxs h)).prod ∧ (hendrixStates h).Nodup ∧
    (mirjaliliStates mj).length = (dimsOf (List.replicate mj.m 0) (mirjaliliMaxs mj)).prod ∧ (mirjaliliStates mj).Nodup := by
  refine ⟨?_, C19.space_nodup _ _, ?_, C19.space_nodup _ _, ?_, C19.space_nodup _ _⟩
  · have := dims_len (List.replicate (deMoorDim c) (c.Q : Int))
    simp only [List.length_replicate] at this
    exact C19.space_length _ _ (by simpa using this)
  · have := dims_len (hendrixMaxs h)
    have hml : (hendrixMaxs h).length = 2 * h.m := by simp [hendrixMaxs]; omega
    rw [hml] at this
    exact C19.space_length _ _ (by simpa using this)
  · by_cases hm : 1 ≤ mj.m
    · have := dims_len (mirjaliliMaxs mj)
      have hml : (mirjaliliMaxs mj).length = mj.m := by simp [mirjaliliMaxs]; omega
      rw [hml] at this
      exact C19.space_length _ _ (by simpa using this)
    · have : mj.m = 0 := by omega
      simp [mirjaliliStates, rangeSpace, this, dimsOf, space]

/-- per-coordinate size: a zero-based coordinate with upper bound Q ≥ 0 has Q + 1 values (so e.g. De Moor has
    (Q+1)^(m+L−1) states) -/
theorem dims_replicate (n : Nat) (Q : Nat) : dimsOf (List.replicate n 0) (List.replicate n (Q : Int)) = List.replicate n (Q + 1) := by
  induction n with
  | zero => rfl
  | succ n ih => simp only [List.replicate_succ, dimsOf, ih]; congr 1

/-- the Mirjalili event space has no duplicate rows and `(max_demand + 1)` events per received-order combination -/
theorem mirjalili_events_nodup_size (c : MirjaliliCfg α) :
    (mirjaliliEvents c).Nodup ∧
    (mirjaliliEvents c).length =
      ((rangeSpace (List.replicate c.m 0) (List.replicate c.m (c.Q : Int))).filter fun k => decide (sumI k ≤ (c.Q : Int))).length * (c.maxDemand + 1) := by
  unfold mirjaliliEvents
  set combos := (rangeSpace (List.replicate c.m 0) (List.replicate c.m (c.Q : Int))).filter fun k => decide (sumI k ≤ (c.Q : Int)) with hc
  have hnd : combos.Nodup := (C19.space_nodup _ _).filter _
  constructor
  · rw [List.nodup_flatMap]
    constructor
    · intro k _
      apply List.Nodup.map _ List.nodup_range
      intro a b h
      simp only [List.cons.injEq, Nat.cast_inj, and_true] at h
      exact h
    · refine List.Pairwise.imp_of_mem ?_ hnd
      intro a b _ _ hab
      simp only [Function.onFun, List.disjoint_left, List.mem_map]
      rintro x ⟨d, _, rfl⟩ ⟨d', _, h⟩
      simp only [List.cons.injEq] at h
      exact hab h.2.symm
  · rw [List.length_flatMap]
    simp only [List.length_map, List.length_range, List.map_const', List.sum_replicate]
    rfl

end MdpaxV.C14
