/-
C06 — Semi-asynchronous sweep is block Gauss–Seidel in the documented order.

Model recap (`Model/SemiAsync.lean`): the states, in natural order or in the order of the sweep's permutation, are
prepared into devices × batches × slots (padding = `none`); each device scans its batches with the value vector as
carry, every batch computing `backup` from the carry and scattering its results to `state_to_index(row)`, padding
rows writing back the carried value, duplicate targets resolved arbitrarily (`choose`); un-batch; un-permute.
`specRun` is the padding-free block Gauss–Seidel recursion over the same batches.
-/
import MdpaxV.Theory.SemiAsync
import MdpaxV.Theory.GaussSeidel
import MdpaxV.Props.C01
set_option linter.unusedSectionVars false
namespace MdpaxV.C06
open MdpaxV
variable {α : Type} [Field α] [LinearOrder α] [IsStrictOrderedRing α]
variable (P : Problem α) (c : BatchCfg) (γ : α)

/-- the order in which states are laid out for a sweep -/
def orderOf (n : Nat) (perm : Option (List Nat)) : List Nat := perm.getD (List.range n)

/-- the block Gauss–Seidel specification of one sweep: per device the padding-free recursion `specRun`, results
    un-batched and returned in natural state order -/
def gsSweep (V : List α) (perm : Option (List Nat)) (padv : α) : List α :=
  let flat := unbatch c ((prepare c none ((orderOf P.nS perm).map some)).map (specRun P γ padv V))
  match perm with
  | none => flat
  | some p => (List.range P.nS).map fun j => flat.getD (p.idxOf j) 0

/-- **the sweep is the specification for every schedule the solver can produce**: every partition (batch size ×
    device count), every permutation, **every** resolution of duplicate scatter targets and wherever the padding
    vector's index points — padding can only undo an update inside the last real batch of a device, whose carry is
    used by all-padding batches only -/
theorem semiasync_eq_gs (hv : C18.Valid c) (V : List α) (perm : Option (List Nat)) (choose : Nat → Bool) (padv : α) :
    semiSweep P c γ V perm choose padv = gsSweep P c γ V perm padv := by
  unfold semiSweep gsSweep orderOf
  have : (prepare c none ((perm.getD (List.range P.nS)).map some)).map (deviceRun P γ choose padv V) =
      (prepare c none ((perm.getD (List.range P.nS)).map some)).map (specRun P γ padv V) := by
    apply List.map_congr_left
    intro d hd
    exact deviceRun_eq_specRun P γ choose padv V d (prepare_padTail c hv _ d hd)
  simp only [this]
  rfl

/-- in particular the result does not depend on how the hardware resolves colliding writes -/
theorem semiasync_resolution_indep (hv : C18.Valid c) (V : List α) (perm : Option (List Nat)) (ch ch' : Nat → Bool) (padv : α) :
    semiSweep P c γ V perm ch padv = semiSweep P c γ V perm ch' padv := by
  rw [semiasync_eq_gs P c γ hv, semiasync_eq_gs P c γ hv]

/-- with one batch per device nothing is "already updated": the sweep is the synchronous sweep -/
theorem semiasync_single_batch_is_sync (hv : C02.Valid P c) (h1 : nb c = 1) (V : List α) (choose : Nat → Bool) (padv : α) :
    semiSweep P c γ V none choose padv = sweep P c γ V padv := by
  unfold semiSweep sweep
  simp only [Option.getD_none]
  have hshape := C18.prepare_shape c (C02.valid18 hv) (none : Option Nat) ((List.range P.nS).map some) (by simp [hv.2.1])
  have : (prepare c none ((List.range P.nS).map some)).map (deviceRun P γ choose padv V) =
      map3 (onSlot (backup P γ (look V)) padv) (prepare c none ((List.range P.nS).map some)) := by
    unfold map3
    apply List.map_congr_left
    intro d hd
    have hl := (hshape.2 d hd).1
    rw [h1] at hl
    match d, hl with
    | [b], _ => simp [deviceRun]
  rw [this]; rfl

/-- states named by the slots of a batch are real states with a consistent index -/
def SlotsOK (n : Nat) (b : List (Option Nat)) : Prop := ∀ s, some s ∈ b → s < n ∧ P.sidx s = (s : Int)

theorem scatterPos_cast (n s : Nat) (h : s < n) : scatterPos n (s : Int) = some s := by
  unfold scatterPos; simp only []
  split <;> split <;> (try split) <;> simp_all <;> omega

/-- at a fixed point of the synchronous operator the carry never changes -/
theorem specScatter_fixed (V : List α) (b : List (Option Nat)) (hb : SlotsOK P V.length b)
    (hfix : ∀ s, s < V.length → backup P γ (look V) s = V.getD s 0) (padv : α) :
    specScatter P V b (b.map (onSlot (backup P γ (look V)) padv)) = V := by
  unfold specScatter
  apply List.ext_getElem
  · simp
  · intro i h1 h2
    simp only [List.getElem_mapIdx]
    cases hf : (b.zip (b.map (onSlot (backup P γ (look V)) padv))).find?
        (fun p => p.1.isSome && scatterPos V.length (slotTarget P p.1) == some i) with
    | none => rfl
    | some p =>
      simp only
      have hmem := List.mem_of_find?_eq_some hf
      have hprop := List.find?_some hf
      rw [List.zip_map_right] at hmem
      obtain ⟨q, hq, hqe⟩ := List.mem_map.mp hmem
      obtain ⟨q1, q2⟩ := q
      have hq12 := List.of_mem_zip hq   -- q1 ∈ b ∧ q2 ∈ b
      have hzip : q1 = q2 := by
        have := List.mem_iff_getElem.mp hq
        obtain ⟨k, hk, hke⟩ := this
        simp [List.getElem_zip] at hke
        rw [← hke.1, ← hke.2]
      subst hzip
      simp only [Prod.map_apply, id] at hqe
      rw [← hqe] at hprop ⊢
      simp only at hprop ⊢
      cases q1 with
      | none => simp at hprop
      | some s =>
        obtain ⟨hs, hidx⟩ := hb s hq12.1
        simp only [slotTarget, hidx, scatterPos_cast _ _ hs, Option.isSome_some, Bool.true_and, beq_iff_eq, Option.some.injEq] at hprop
        subst hprop
        simp only [onSlot, hfix s hs]
        simp [List.getD_eq_getElem?_getD, List.getElem?_eq_getElem hs]

theorem specRun_fixed (V : List α) (bs : List (List (Option Nat))) (hb : ∀ b ∈ bs, SlotsOK P V.length b)
    (hfix : ∀ s, s < V.length → backup P γ (look V) s = V.getD s 0) (padv : α) :
    specRun P γ padv V bs = bs.map (fun b => b.map (onSlot (backup P γ (look V)) padv)) := by
  induction bs with
  | nil => rfl
  | cons b bs ih =>
    simp only [specRun, List.map_cons]
    rw [specScatter_fixed P γ V b (hb b (by simp)) hfix padv]
    congr 1
    exact ih (fun b' hb' => hb b' (by simp [hb']))

/-- **same fixed point as synchronous value iteration, for every order and every seed** (⇐ direction): a fixed point
    of the Bellman operator is left unchanged by every semi-asynchronous sweep and is returned in natural order -/
theorem semiasync_fixed_point (hv : C02.Valid P c) (hw : C01.IdxWF P) (V : List α) (hV : V.length = P.nS)
    (hfix : (List.range P.nS).map (backup P γ (look V)) = V)
    (perm : Option (List Nat)) (hperm : ∀ p, perm = some p → p.Perm (List.range P.nS))
    (choose : Nat → Bool) (padv : α) :
    semiSweep P c γ V perm choose padv = V := by
  have hfix' : ∀ s, s < V.length → backup P γ (look V) s = V.getD s 0 := by
    intro s hs
    have : ((List.range P.nS).map (backup P γ (look V))).getD s 0 = V.getD s 0 := by rw [hfix]
    rw [hV] at hs
    simpa [List.getD_eq_getElem?_getD, List.getElem?_range hs] using this
  have hord : (orderOf P.nS perm).Perm (List.range P.nS) := by
    unfold orderOf
    cases perm with
    | none => exact List.Perm.refl _
    | some p => exact hperm p rfl
  have hordlen : (orderOf P.nS perm).length = c.n := by rw [hord.length_eq]; simp [hv.2.1]
  rw [semiasync_eq_gs P c γ (C02.valid18 hv)]
  unfold gsSweep
  have hmap : (prepare c none ((orderOf P.nS perm).map some)).map (specRun P γ padv V) =
      map3 (onSlot (backup P γ (look V)) padv) (prepare c none ((orderOf P.nS perm).map some)) := by
    unfold map3
    apply List.map_congr_left
    intro d hd
    apply specRun_fixed P γ V d _ hfix' padv
    intro b hb s hs
    -- every real slot of the layout is a member of the order, hence a state number
    have hmem : some s ∈ (prepare c none ((orderOf P.nS perm).map some)).flatten.flatten :=
      List.mem_flatten.mpr ⟨b, List.mem_flatten.mpr ⟨d, hd, hb⟩, hs⟩
    rw [C18.prepare_layout c (C02.valid18 hv)] at hmem
    have : s ∈ orderOf P.nS perm := by
      rcases List.mem_append.mp hmem with h | h
      · simpa using h
      · simp [List.mem_replicate] at h
    have hs' : s < P.nS := List.mem_range.mp (hord.mem_iff.mp this)
    exact ⟨by rw [hV]; exact hs', hw s hs'⟩
  simp only [hmap]
  rw [C18.unbatch_map_prepare c (C02.valid18 hv) none _ _ (by simpa using hordlen)]
  have hflat : ((orderOf P.nS perm).map some).map (onSlot (backup P γ (look V)) padv) =
      (orderOf P.nS perm).map (backup P γ (look V)) := by
    simp [onSlot, Function.comp_def]
  rw [hflat]
  cases perm with
  | none => simpa [orderOf] using hfix
  | some p =>
    simp only [orderOf, Option.getD_some]
    refine Eq.trans ?_ hfix
    apply List.map_congr_left
    intro j hj
    have hjp : j ∈ p := (hperm p rfl).mem_iff.mpr hj
    have hidx : p.idxOf j < p.length := List.idxOf_lt_length_iff.mpr hjp
    simp [List.getD_eq_getElem?_getD, List.getElem?_map, List.getElem?_eq_getElem hidx, List.getElem_idxOf hidx]

/-- **same fixed point as synchronous value iteration, both directions**: for every partition, every permutation and every
    collision resolution, a vector is left unchanged by the semi-asynchronous sweep iff it is a fixed point of the Bellman
    optimality operator -/
theorem semiasync_fixed_point_iff (hv : C02.Valid P c) (hw : C01.IdxWF P) (V : List α) (hV : V.length = P.nS)
    (perm : Option (List Nat)) (hperm : ∀ p, perm = some p → p.Perm (List.range P.nS))
    (choose : Nat → Bool) (padv : α) :
    semiSweep P c γ V perm choose padv = V ↔ (List.range P.nS).map (backup P γ (look V)) = V := by
  constructor
  · intro hsw
    have hperm' : (orderOf' c.n perm).Perm (List.range c.n) := by
      unfold orderOf'
      rw [hv.2.1]
      cases perm with
      | none => exact List.Perm.refl _
      | some p => exact hperm p rfl
    have := semiSweep_fixed_conv P c (C02.valid18 hv) hv.2.1 hw γ V hV perm hperm' choose padv hsw
    apply List.ext_getElem
    · simp [hV]
    · intro i h1 h2
      have hi : i < P.nS := by simpa using h1
      simp only [List.getElem_map, List.getElem_range]
      rw [this i hi]
      simp [List.getD_eq_getElem?_getD, List.getElem?_eq_getElem h2]
  · intro hfix
    exact semiasync_fixed_point P c γ hv hw V hV hfix perm hperm choose padv

/-- **Gauss–Seidel contraction towards the fixed point**: for every schedule, a sweep of a vector within δ of a fixed
    point `Wst` of the Bellman operator is within γ·δ of it (0 ≤ γ ≤ 1) — so the iteration converges to the same solution
    as synchronous value iteration whatever the order and the seed -/
theorem gs_contraction (hv : C02.Valid P c) (hw : C01.IdxWF P) (hγ0 : 0 ≤ γ) (hγ1 : γ ≤ 1) (hst : Stoch P) (hA : 0 < P.nA)
    (Wst : List α) (hWl : Wst.length = P.nS) (hfix : (List.range P.nS).map (backup P γ (look Wst)) = Wst)
    (V : List α) (hV : V.length = P.nS) (δ : α) (hδ : 0 ≤ δ) (hclose : ∀ i, i < P.nS → |V.getD i 0 - Wst.getD i 0| ≤ δ)
    (perm : Option (List Nat)) (hperm : ∀ p, perm = some p → p.Perm (List.range P.nS)) (choose : Nat → Bool) (padv : α)
    (s : Nat) (hs : s < P.nS) :
    |(semiSweep P c γ V perm choose padv).getD s 0 - Wst.getD s 0| ≤ γ * δ := by
  have hperm' : (orderOf' c.n perm).Perm (List.range c.n) := by
    unfold orderOf'
    rw [hv.2.1]
    cases perm with
    | none => exact List.Perm.refl _
    | some p => exact hperm p rfl
  have hfix' : ∀ t, t < P.nS → backup P γ (look Wst) t = Wst.getD t 0 := by
    intro t ht
    have : ((List.range P.nS).map (backup P γ (look Wst))).getD t 0 = Wst.getD t 0 := by rw [hfix]
    simpa [List.getD_eq_getElem?_getD, List.getElem?_range ht] using this
  exact semiSweep_contracts P c (C02.valid18 hv) hv.2.1 hw γ hγ0 hγ1 hst hA Wst hWl hfix' V hV δ hδ hclose perm hperm' choose padv s hs

/-! ### reproducibility from the seed -/

/-- the PRNG is abstract: `split` and `permutation` are arbitrary functions.  The solver holds one key, splits it exactly
    once per sweep and nothing else reads it; so the k-th permutation is a function of the seed key and k only. -/
def keyAfter {κ : Type} (split : κ → κ × κ) (k0 : κ) : Nat → κ
  | 0 => k0
  | n+1 => (split (keyAfter split k0 n)).1

def permOfSweep {κ : Type} (split : κ → κ × κ) (permutation : κ → List Nat) (k0 : κ) (n : Nat) : List Nat :=
  permutation (split (keyAfter split k0 n)).2

theorem perm_sequence_deterministic {κ : Type} (split : κ → κ × κ) (permutation : κ → List Nat) (k0 k0' : κ) (h : k0 = k0') (n : Nat) :
    permOfSweep split permutation k0 n = permOfSweep split permutation k0' n := by rw [h]

end MdpaxV.C06
