/-
C01 — Discounted solvers return near-optimal policies (and values) on convergence.

`W` is any fixed point of the Bellman optimality operator `Top` (defined from the executable `backup`),
`U` any fixed point of the evaluation operator `Tpol` of the returned policy (its exact discounted value).
The bounds are theorems about what the *model loop* returns when it reports convergence.
-/
import MdpaxV.Theory.Bridge
import MdpaxV.Theory.GaussSeidel
import MdpaxV.Theory.PolicyValue
import MdpaxV.Props.C08
set_option linter.unusedSectionVars false
namespace MdpaxV.C01
open MdpaxV
variable {α : Type} [Field α] [LinearOrder α] [IsStrictOrderedRing α]

/-- standing assumptions: a valid layout, at least one action, stochastic rows, 0 < γ < 1 -/
structure Setting (P : Problem α) (c : BatchCfg) (γ : α) : Prop where
  valid : C02.Valid P c
  hA : 0 < P.nA
  stoch : Stoch P
  hγ0 : 0 < γ
  hγ1 : γ < 1

/-- the policy function of a list of action indices -/
def polFn (n : Nat) (pl : List Nat) : Fin n → Nat := fun i => pl.getD i.val 0

theorem sweep_length (P : Problem α) (c : BatchCfg) (h : C02.Valid P c) (γ : α) (V : List α) (padv : α) :
    (sweep P c γ V padv).length = P.nS := by
  rw [C02.sweep_eq_map_backup P c h]; simp

/-- the greedy policy list extracted by the model at `V1`, read as a function, attains `Top` at `V1`
    and only uses actions of the action space -/
theorem policy_greedy (P : Problem α) (c : BatchCfg) (h : C02.Valid P c) (hA : 0 < P.nA) (γ : α) (V1 : List α)
    (hV1 : V1.length = P.nS) :
    Tpol P γ (polFn P.nS (policy P c γ V1 0)) (toFn P.nS V1) = Top P γ (toFn P.nS V1) ∧
    ∀ i, polFn P.nS (policy P c γ V1 0) i < P.nA := by
  have hp : ∀ i : Fin P.nS, polFn P.nS (policy P c γ V1 0) i = greedyIdx P γ (look V1) i.val := by
    intro i
    rw [C02.policy_eq_map_greedy P c h]
    simp [polFn, List.getD_eq_getElem?_getD, List.getElem?_range i.isLt]
  constructor
  · apply Tpol_greedy P γ hA
    intro i; rw [hp i, ofFn_toFn _ _ hV1]
  · intro i; rw [hp i]; exact (C02.policy_attains P γ _ i.val hA).1

/-- shape of a converged value-iteration result: the returned values are one sweep of some `V0` of the right
    length whose test is below the threshold, and the returned policy is extracted from the *returned* values -/
theorem vi_converged_shape (P : Problem α) (c : BatchCfg) (h : C02.Valid P c) (γ thr : α) (t : ConvTest) (f k : Nat) (s : SState α)
    (hs : s.values.length = P.nS)
    (hc : (viSolve P c γ thr t f k s).converged = true) :
    ∃ V0 : List α, V0.length = P.nS ∧
      (viSolve P c γ thr t f k s).state.values = sweep P c γ V0 0 ∧
      convMeasure t (sweep P c γ V0 0) V0 < thr ∧
      (viSolve P c γ thr t f k s).state.policy = some (policy P c γ (viSolve P c γ thr t f k s).state.values 0) := by
  obtain ⟨h1, h2, _⟩ := C08.solve_first_below (viStep P c γ thr t) (·.iter) (viFinish P c γ) f k s
  simp only [viSolve] at hc ⊢
  obtain ⟨hm, hfire, _⟩ := h2 hc
  set m := (solveCall (viStep P c γ thr t) (fun x => x.iter) (viFinish P c γ) f k s).sweeps with hmdef
  have hm' : m = (m - 1) + 1 := by omega
  set s0 := iterState (viStep P c γ thr t) (m - 1) s with hs0
  have hlen : s0.values.length = P.nS := by
    rcases Nat.eq_zero_or_pos (m - 1) with h0 | h0
    · rw [hs0, h0]; simpa [iterState] using hs
    · have : m - 1 = (m - 1 - 1) + 1 := by omega
      rw [hs0, this, iterState_succ']
      simp only [viStep]; exact sweep_length P c h γ _ 0
  have hstate : iterState (viStep P c γ thr t) m s = (viStep P c γ thr t s0).1 := by
    rw [hm', iterState_succ']
  refine ⟨s0.values, hlen, ?_, ?_, ?_⟩
  · rw [h1, hstate]; simp [viFinish, viStep]
  · exact (C08.viStep_done_iff P c γ thr t s0).mp hfire
  · rw [h1]; simp [viFinish]

variable (P : Problem α) (c : BatchCfg) (γ ε : α)

/-- **Value iteration, span test**: on reported convergence the returned policy is ε-optimal at every state -/
theorem vi_span_near_optimal (S : Setting P c γ) (f k : Nat) (s : SState α) (hs : s.values.length = P.nS)
    (hc : (viSolve P c γ (ε * (1 - γ) / γ) .span f k s).converged = true)
    (pl : List Nat) (hpl : (viSolve P c γ (ε * (1 - γ) / γ) .span f k s).state.policy = some pl)
    (W U : Fin P.nS → α) (hW : Top P γ W = W) (hU : Tpol P γ (polFn P.nS pl) U = U) (i : Fin P.nS) :
    0 ≤ W i - U i ∧ W i - U i < ε := by
  haveI : Nonempty (Fin P.nS) := ⟨⟨0, S.valid.1⟩⟩
  obtain ⟨V0, hV0, hvals, htest, hpol⟩ := vi_converged_shape P c S.valid γ _ .span f k s hs hc
  set V1 := (viSolve P c γ (ε * (1 - γ) / γ) .span f k s).state.values with hV1def
  have hV1len : V1.length = P.nS := by rw [hvals]; exact sweep_length P c S.valid γ _ 0
  have hple : pl = policy P c γ V1 0 := by rw [hpl] at hpol; exact Option.some.inj hpol
  obtain ⟨hgreedy, hact⟩ := policy_greedy P c S.valid S.hA γ V1 hV1len
  rw [← hple] at hgreedy hact
  have hT := Top_monoShift P γ S.hγ0.le S.stoch S.valid.1 S.hA
  have hπ := Tpol_monoShift P γ S.hγ0.le S.stoch S.valid.1 (polFn P.nS pl) hact
  have hV1eq : toFn P.nS V1 = Top P γ (toFn P.nS V0) := by
    rw [hvals, sweep_list_eq_Top P c S.valid γ V0 hV0 0, toFn_ofFn]
  apply vi_span_bound (Top P γ) (Tpol P γ (polFn P.nS pl)) γ ε hT hπ S.hγ0 S.hγ1
    (fun u i => Tpol_le_Top P γ S.hA _ hact u i) (toFn P.nS V0) (toFn P.nS V1) W U hV1eq hgreedy hW hU
  rw [← spanOf_eq_sp P.nS V1 V0 hV1len hV0, hvals]
  exact htest

/-- **Value iteration, max_diff test**: the returned values are within ε of the optimal values, and the returned
    policy is 2ε-optimal -/
theorem vi_maxdiff_near_optimal (S : Setting P c γ) (f k : Nat) (s : SState α) (hs : s.values.length = P.nS)
    (hc : (viSolve P c γ (ε * (1 - γ) / γ) .maxDiff f k s).converged = true)
    (pl : List Nat) (hpl : (viSolve P c γ (ε * (1 - γ) / γ) .maxDiff f k s).state.policy = some pl)
    (W U : Fin P.nS → α) (hW : Top P γ W = W) (hU : Tpol P γ (polFn P.nS pl) U = U) (i : Fin P.nS) :
    |toFn P.nS (viSolve P c γ (ε * (1 - γ) / γ) .maxDiff f k s).state.values i - W i| < ε ∧
    0 ≤ W i - U i ∧ W i - U i < 2 * ε := by
  haveI : Nonempty (Fin P.nS) := ⟨⟨0, S.valid.1⟩⟩
  obtain ⟨V0, hV0, hvals, htest, hpol⟩ := vi_converged_shape P c S.valid γ _ .maxDiff f k s hs hc
  set V1 := (viSolve P c γ (ε * (1 - γ) / γ) .maxDiff f k s).state.values with hV1def
  have hV1len : V1.length = P.nS := by rw [hvals]; exact sweep_length P c S.valid γ _ 0
  have hple : pl = policy P c γ V1 0 := by rw [hpl] at hpol; exact Option.some.inj hpol
  obtain ⟨hgreedy, hact⟩ := policy_greedy P c S.valid S.hA γ V1 hV1len
  rw [← hple] at hgreedy hact
  have hT := Top_monoShift P γ S.hγ0.le S.stoch S.valid.1 S.hA
  have hπ := Tpol_monoShift P γ S.hγ0.le S.stoch S.valid.1 (polFn P.nS pl) hact
  have hV1eq : toFn P.nS V1 = Top P γ (toFn P.nS V0) := by
    rw [hvals, sweep_list_eq_Top P c S.valid γ V0 hV0 0, toFn_ofFn]
  have htest' : vnorm (fun i => toFn P.nS V1 i - toFn P.nS V0 i) < ε * (1 - γ) / γ := by
    rw [← maxDiff_eq_vnorm P.nS V1 V0 hV1len hV0, hvals]; exact htest
  exact ⟨vi_maxdiff_values (Top P γ) γ ε hT S.hγ0 S.hγ1 _ _ W hV1eq hW htest' i,
    vi_maxdiff_policy (Top P γ) (Tpol P γ (polFn P.nS pl)) γ ε hT hπ S.hγ0 S.hγ1
      (fun u i => Tpol_le_Top P γ S.hA _ hact u i) _ _ W U hV1eq hgreedy hW hU htest' i⟩

/-! ### policy iteration -/

theorem nChanged_eq_zero (a b : List Nat) (h : a.length = b.length) (h0 : nChanged a b = 0) : a = b := by
  induction a generalizing b with
  | nil => cases b <;> simp_all
  | cons x xs ih =>
    cases b with
    | nil => simp at h
    | cons y ys =>
      simp only [nChanged] at h0
      have hxy : x = y := by by_contra hne; simp [hne] at h0
      have := ih ys (by simpa using h) (by simp [hxy] at h0; exact h0)
      rw [hxy, this]

/-- well-formed state index: `state_to_index(state_i) = i` (defined in Theory/Bridge) -/
abbrev IdxWF (P : Problem α) : Prop := MdpaxV.IdxWF P

theorem clampIdx_cast (n s : Nat) (h : s < n) : clampIdx n (s : Int) = s := MdpaxV.clampIdx_cast n s h

/-- the evaluation sweep on lists *is* `Tpol` of the policy list -/
theorem evalSweep_eq_Tpol (hv : C02.Valid P c) (hw : IdxWF P) (pl : List Nat) (hpl : pl.length = P.nS)
    (V : List α) (hV : V.length = P.nS) :
    evalSweep P c γ pl V 0 = List.ofFn (Tpol P γ (polFn P.nS pl) (toFn P.nS V)) := by
  unfold evalSweep
  rw [C02.slots_map P c hv, map_range_eq_ofFn]
  congr 1; funext i
  simp only [Tpol, polFn, ofFn_toFn _ _ hV]
  rw [hw i.val i.isLt, hpl, clampIdx_cast _ _ i.isLt, List.getD_eq_getElem?_getD]

/-- **Policy iteration**: when it stops because no action changed, the returned policy is greedy for the returned
    values; *if the last evaluation met its test* (hypothesis `heval`; the code does not check this — see DESIGN §9-F2)
    the policy is ε/γ-optimal under span, 2ε/γ-optimal under max_diff, and under max_diff the values are within ε/γ of
    the policy's own value -/
theorem pi_near_optimal (S : Setting P c γ) (hw : IdxWF P) (t : ConvTest) (budget : Nat) (reset : Option (List α))
    (s : SState α) (pl : List Nat) (hsp : s.policy = some pl) (hpll : pl.length = P.nS)
    (hstop : (piStep P c γ (ε * (1 - γ) / γ) t budget reset s).2 = true)
    (V : List α) (hVdef : V = (piStep P c γ (ε * (1 - γ) / γ) t budget reset s).1.values) (hV : V.length = P.nS)
    (heval : convMeasure t (evalSweep P c γ pl V 0) V < ε * (1 - γ) / γ)
    (W U : Fin P.nS → α) (hW : Top P γ W = W) (hU : Tpol P γ (polFn P.nS pl) U = U) (i : Fin P.nS) :
    (piStep P c γ (ε * (1 - γ) / γ) t budget reset s).1.policy = some pl ∧
    pl = policy P c γ V 0 ∧
    0 ≤ W i - U i ∧
    (t = .span → W i - U i < ε / γ) ∧
    (t = .maxDiff → W i - U i < 2 * ε / γ ∧ |toFn P.nS V i - U i| < ε / γ) := by
  haveI : Nonempty (Fin P.nS) := ⟨⟨0, S.valid.1⟩⟩
  have hnc := (C08.piStep_done_iff P c γ _ t budget reset s).mp hstop
  simp only [hsp, Option.getD_some] at hnc
  have hVv : V = evaluate P c γ (ε * (1 - γ) / γ) t pl budget (reset.getD s.values) := by
    rw [hVdef]; simp [piStep, hsp]
  rw [← hVv] at hnc
  have hpeq : policy P c γ V 0 = pl := by
    apply nChanged_eq_zero _ _ _ hnc
    rw [C02.policy_eq_map_greedy P c S.valid]; simp [hpll]
  have hnew : (piStep P c γ (ε * (1 - γ) / γ) t budget reset s).1.policy = some pl := by
    simp only [piStep, hsp, Option.getD_some, ← hVv, hpeq]
  obtain ⟨hgreedy, hact⟩ := policy_greedy P c S.valid S.hA γ V hV
  rw [hpeq] at hgreedy hact
  have hT := Top_monoShift P γ S.hγ0.le S.stoch S.valid.1 S.hA
  have hπ := Tpol_monoShift P γ S.hγ0.le S.stoch S.valid.1 (polFn P.nS pl) hact
  have hes := evalSweep_eq_Tpol P c γ S.valid hw pl hpll V hV
  have hesl : (evalSweep P c γ pl V 0).length = P.nS := by rw [hes]; simp
  have hfn : toFn P.nS (evalSweep P c γ pl V 0) = Tpol P γ (polFn P.nS pl) (toFn P.nS V) := by
    rw [hes, toFn_ofFn]
  refine ⟨hnew, hpeq.symm, ?_, ?_, ?_⟩
  · have hmin : 0 ≤ vmin (fun j => Top P γ U j - U j) := le_vmin (fun j => by
      have := Tpol_le_Top P γ S.hA _ hact U j; rw [hU] at this; linarith)
    have := fixed_ge (Top P γ) γ hT S.hγ0.le S.hγ1 W hW U i
    have h5 : 0 < 1 - γ := by linarith [S.hγ1]
    have : 0 ≤ vmin (fun j => Top P γ U j - U j) / (1 - γ) := div_nonneg hmin h5.le
    linarith
  · intro ht
    rw [ht] at heval
    simp only [convMeasure] at heval
    rw [spanOf_eq_sp P.nS _ V hesl hV, hfn] at heval
    exact (pi_span_bound (Top P γ) (Tpol P γ (polFn P.nS pl)) γ ε hT hπ S.hγ0 S.hγ1
      (fun u i => Tpol_le_Top P γ S.hA _ hact u i) (toFn P.nS V) W U hgreedy hW hU heval i).2
  · intro ht
    rw [ht] at heval
    simp only [convMeasure] at heval
    rw [maxDiff_eq_vnorm P.nS _ V hesl hV, hfn] at heval
    exact ⟨(pi_maxdiff_bound (Top P γ) (Tpol P γ (polFn P.nS pl)) γ ε hT hπ S.hγ0 S.hγ1
      (fun u i => Tpol_le_Top P γ S.hA _ hact u i) (toFn P.nS V) W U hgreedy hW hU heval i).2,
      eval_maxdiff_values (Tpol P γ (polFn P.nS pl)) γ ε hπ S.hγ0 S.hγ1 (toFn P.nS V) U hU heval i⟩

/-- `evaluate` either returns an iterate at which the test is met, or has exhausted its budget -/
theorem evaluate_returns (thr : α) (t : ConvTest) (pl : List Nat) (budget : Nat) (V0 : List α) :
    let V := evaluate P c γ thr t pl budget V0
    (convMeasure t (evalSweep P c γ pl V 0) V < thr) ∨
    (V = (fun X => evalSweep P c γ pl X 0)^[budget] V0 ∧
      ∀ j, j < budget → ¬ convMeasure t (evalSweep P c γ pl ((fun X => evalSweep P c γ pl X 0)^[j] V0) 0)
          ((fun X => evalSweep P c γ pl X 0)^[j] V0) < thr) := by
  induction budget generalizing V0 with
  | zero => right; simp [evaluate]
  | succ b ih =>
    simp only [evaluate]
    split
    · left; assumption
    · rename_i hnot
      rcases ih (evalSweep P c γ pl V0 0) with h | ⟨h1, h2⟩
      · left; exact h
      · right
        refine ⟨by rw [h1, Function.iterate_succ_apply], ?_⟩
        intro j hj
        cases j with
        | zero => simpa using hnot
        | succ j => rw [Function.iterate_succ_apply]; exact h2 j (by omega)

/-! ### semi-asynchronous value iteration -/

/-- a semi-asynchronous sweep returns one value per state -/
theorem semiSweep_length (hvalid : C02.Valid P c) (V0 : List α) (perm : Option (List Nat))
    (hperm : (orderOf' c.n perm).Perm (List.range c.n)) (choose : Nat → Bool) (padv : α) :
    (semiSweep P c γ V0 perm choose padv).length = P.nS := by
  have hv18 := C02.valid18 hvalid
  have hn := hvalid.2.1
  rw [semiSweep_eq_assemble P c hv18 hn]
  unfold assemble
  have hub : ∀ r : List (List (List α)), r.flatten.flatten.length = slots c → (unbatch c r).length = c.n := by
    intro r hr
    rw [C18.unbatch_take c hv18 r hr, List.length_take, hr]
    exact Nat.min_eq_left (slots_ge c hv18.1 hv18.2.1 hv18.2.2)
  have hlen2 : (((prepare c none ((orderOf' c.n perm).map some)).map (specRun P γ padv V0)).flatten.flatten).length = slots c := by
    rw [flatten_outs_length _ _ (fun d _ => specRun_length P γ padv V0 d), C18.prepare_layout c hv18]
    have := C18.slots_eq c hv18
    simp [hperm.length_eq]; unfold npad at this ⊢; omega
  cases perm with
  | none => simp only; rw [hub _ hlen2, hn]
  | some p => simp [hn]

/-- **Semi-asynchronous sweep, max_diff test** — for every partition (batch size × device count), every permutation of the
    states and every resolution of colliding writes: if one sweep `V1 = G V0` changes no value by ε(1−γ)/γ or more, then `V1`
    is within ε of the optimal values and the greedy policy for `V1` is within 2γε/(1−γ) of optimal at every state -/
theorem semiasync_maxdiff_near_optimal (S : Setting P c γ) (hw : IdxWF P)
    (perm : Option (List Nat)) (hperm : (orderOf' c.n perm).Perm (List.range c.n)) (choose : Nat → Bool)
    (V0 : List α) (hV0 : V0.length = P.nS)
    (htest : maxDiff (semiSweep P c γ V0 perm choose 0) V0 < ε * (1 - γ) / γ)
    (W U : Fin P.nS → α) (hW : Top P γ W = W)
    (hU : Tpol P γ (polFn P.nS (policy P c γ (semiSweep P c γ V0 perm choose 0) 0)) U = U) (i : Fin P.nS) :
    |toFn P.nS (semiSweep P c γ V0 perm choose 0) i - W i| < ε ∧
    0 ≤ W i - U i ∧ W i - U i < 2 * γ * ε / (1 - γ) := by
  haveI : Nonempty (Fin P.nS) := ⟨⟨0, S.valid.1⟩⟩
  have hv18 := C02.valid18 S.valid
  have hn := S.valid.2.1
  have h5 : 0 < 1 - γ := by linarith [S.hγ1]
  set V1 := semiSweep P c γ V0 perm choose 0 with hV1
  -- the optimal values as a list
  set Wst := List.ofFn W with hWst
  have hWl : Wst.length = P.nS := by simp [hWst]
  have hWget : ∀ s (hs : s < P.nS), Wst.getD s 0 = W ⟨s, hs⟩ := by
    intro s hs; simp [hWst, List.getD_eq_getElem?_getD, hs]
  have hfix : ∀ s, s < P.nS → backup P γ (look Wst) s = Wst.getD s 0 := by
    intro s hs
    have := congrFun hW ⟨s, hs⟩
    simp only [Top] at this
    rw [hWget s hs]; exact this
  -- distance of V0 from the optimum
  set δ0 := vnorm (fun j => toFn P.nS V0 j - W j) with hδ0
  have hδ0nn : 0 ≤ δ0 := le_trans (abs_nonneg _) (abs_le_vnorm (fun j => toFn P.nS V0 j - W j) i)
  have hclose : ∀ s, s < P.nS → |V0.getD s 0 - Wst.getD s 0| ≤ δ0 := by
    intro s hs
    rw [hWget s hs]
    exact abs_le_vnorm (fun j => toFn P.nS V0 j - W j) ⟨s, hs⟩
  have hcontr : ∀ s (hs : s < P.nS), |V1.getD s 0 - W ⟨s, hs⟩| ≤ γ * δ0 := by
    intro s hs
    rw [← hWget s hs]
    exact semiSweep_contracts P c hv18 hn hw γ S.hγ0.le S.hγ1.le S.stoch S.hA Wst hWl hfix V0 hV0 δ0 hδ0nn hclose perm hperm choose 0 s hs
  -- length of V1 and the measure as a sup norm
  have hV1len : V1.length = P.nS := semiSweep_length P c γ S.valid V0 perm hperm choose 0
  set m := maxDiff V1 V0 with hm
  have hmnorm : m = vnorm (fun j => toFn P.nS V1 j - toFn P.nS V0 j) := maxDiff_eq_vnorm P.nS V1 V0 hV1len hV0
  -- δ0 ≤ m + γ δ0
  obtain ⟨k, hk⟩ := exists_eq_vmax (fun j => |toFn P.nS V0 j - W j|)
  have hδ0le : δ0 ≤ m + γ * δ0 := by
    have h1 : |toFn P.nS V1 k - toFn P.nS V0 k| ≤ m := by rw [hmnorm]; exact abs_le_vnorm (fun j => toFn P.nS V1 j - toFn P.nS V0 j) k
    have h2 := hcontr k.val k.isLt
    have h3 : |toFn P.nS V0 k - W k| = δ0 := hk
    have htri : |toFn P.nS V0 k - W k| ≤ |toFn P.nS V1 k - toFn P.nS V0 k| + |toFn P.nS V1 k - W k| := by
      have := abs_sub_le (toFn P.nS V0 k) (toFn P.nS V1 k) (W k)
      rw [abs_sub_comm (toFn P.nS V0 k) (toFn P.nS V1 k)] at this
      exact this
    have h2' : |toFn P.nS V1 k - W k| ≤ γ * δ0 := h2
    linarith
  have hδ0bound : δ0 ≤ m / (1 - γ) := by rw [le_div_iff₀ h5]; nlinarith
  have hγm : γ * (m / (1 - γ)) < ε := by
    have hmlt : m < ε * (1 - γ) / γ := htest
    have h1 : γ * m < ε * (1 - γ) := by
      have := mul_lt_mul_of_pos_left hmlt S.hγ0
      have hγne : γ ≠ 0 := ne_of_gt S.hγ0
      have e : γ * (ε * (1 - γ) / γ) = ε * (1 - γ) := by
        rw [mul_div_assoc', mul_comm γ (ε * (1 - γ)), mul_div_assoc, div_self hγne, mul_one]
      rw [e] at this; exact this
    have e2 : γ * (m / (1 - γ)) = γ * m / (1 - γ) := by ring
    rw [e2, div_lt_iff₀ h5]; exact h1
  -- values clause
  have hvals : ∀ j : Fin P.nS, |toFn P.nS V1 j - W j| ≤ γ * (m / (1 - γ)) := by
    intro j
    have := hcontr j.val j.isLt
    have h2 : γ * δ0 ≤ γ * (m / (1 - γ)) := mul_le_mul_of_nonneg_left hδ0bound S.hγ0.le
    exact le_trans this h2
  -- policy clause via greedy loss
  obtain ⟨hgreedy, hact⟩ := policy_greedy P c S.valid S.hA γ V1 hV1len
  have hT := Top_monoShift P γ S.hγ0.le S.stoch S.valid.1 S.hA
  have hπ := Tpol_monoShift P γ S.hγ0.le S.stoch S.valid.1 _ hact
  have hloss := greedy_loss (Top P γ) (Tpol P γ _) γ (γ * (m / (1 - γ))) hT hπ S.hγ0.le S.hγ1
    (fun u j => Tpol_le_Top P γ S.hA _ hact u j) (toFn P.nS V1) W U hgreedy hW hU hvals i
  refine ⟨lt_of_le_of_lt (hvals i) hγm, hloss.1, lt_of_le_of_lt hloss.2 ?_⟩
  rw [div_lt_div_iff_of_pos_right h5]
  have : 2 * γ * (γ * (m / (1 - γ))) < 2 * γ * ε := by
    apply mul_lt_mul_of_pos_left hγm; linarith [S.hγ0]
  exact this

/-- shape of a converged semi-asynchronous result: the returned values are one semi-asynchronous sweep (with the permutation
    drawn for that iteration) of some `V0` of the right length whose test is below the threshold, and the returned policy is
    extracted from the returned values -/
theorem semi_converged_shape (hvalid : C02.Valid P c) (thr : α) (t : ConvTest) (perms : Nat → Option (List Nat))
    (hperms : ∀ n, (orderOf' c.n (perms n)).Perm (List.range c.n)) (choose : Nat → Bool) (f k : Nat) (s : SState α)
    (hs : s.values.length = P.nS)
    (hc : (semiSolve P c γ thr t perms choose f k s).converged = true) :
    ∃ (V0 : List α) (n : Nat), V0.length = P.nS ∧
      (semiSolve P c γ thr t perms choose f k s).state.values = semiSweep P c γ V0 (perms n) choose 0 ∧
      convMeasure t (semiSweep P c γ V0 (perms n) choose 0) V0 < thr ∧
      (semiSolve P c γ thr t perms choose f k s).state.policy =
        some (policy P c γ (semiSolve P c γ thr t perms choose f k s).state.values 0) := by
  obtain ⟨h1, h2, _⟩ := C08.solve_first_below (semiStep P c γ thr t perms choose) (·.iter) (viFinish P c γ) f k s
  simp only [semiSolve] at hc ⊢
  obtain ⟨hm, hfire, _⟩ := h2 hc
  set m := (solveCall (semiStep P c γ thr t perms choose) (fun x => x.iter) (viFinish P c γ) f k s).sweeps with hmdef
  have hm' : m = (m - 1) + 1 := by omega
  set s0 := iterState (semiStep P c γ thr t perms choose) (m - 1) s with hs0
  have hlen : s0.values.length = P.nS := by
    rcases Nat.eq_zero_or_pos (m - 1) with h0 | h0
    · rw [hs0, h0]; simpa [iterState] using hs
    · have : m - 1 = (m - 1 - 1) + 1 := by omega
      rw [hs0, this, iterState_succ']
      simp only [semiStep]; exact semiSweep_length P c γ hvalid _ _ (hperms _) choose 0
  have hstate : iterState (semiStep P c γ thr t perms choose) m s = (semiStep P c γ thr t perms choose s0).1 := by
    rw [hm', iterState_succ']
  refine ⟨s0.values, s0.iter + 1, hlen, ?_, ?_, ?_⟩
  · rw [h1, hstate]; simp [viFinish, semiStep]
  · exact (C08.semiStep_done_iff P c γ thr t perms choose s0).mp hfire
  · rw [h1]; simp [viFinish]

/-- **Semi-asynchronous value iteration, max_diff test, whole `solve()` call** — for every partition, every sequence of
    per-sweep permutations, every resolution of colliding writes, every checkpoint frequency, iteration budget and starting
    state: if `solve` reports convergence, the returned values are within ε of optimal and the returned policy's exact value
    is within 2γε/(1−γ) of optimal at every state -/
theorem semiasync_solve_near_optimal (S : Setting P c γ) (hw : IdxWF P) (perms : Nat → Option (List Nat))
    (hperms : ∀ n, (orderOf' c.n (perms n)).Perm (List.range c.n)) (choose : Nat → Bool) (f k : Nat) (s : SState α)
    (hs : s.values.length = P.nS)
    (hc : (semiSolve P c γ (ε * (1 - γ) / γ) .maxDiff perms choose f k s).converged = true)
    (pl : List Nat) (hpl : (semiSolve P c γ (ε * (1 - γ) / γ) .maxDiff perms choose f k s).state.policy = some pl)
    (W U : Fin P.nS → α) (hW : Top P γ W = W) (hU : Tpol P γ (polFn P.nS pl) U = U) (i : Fin P.nS) :
    |toFn P.nS (semiSolve P c γ (ε * (1 - γ) / γ) .maxDiff perms choose f k s).state.values i - W i| < ε ∧
    0 ≤ W i - U i ∧ W i - U i < 2 * γ * ε / (1 - γ) := by
  obtain ⟨V0, n, hV0, hvals, htest, hpol⟩ :=
    semi_converged_shape P c γ S.valid (ε * (1 - γ) / γ) .maxDiff perms hperms choose f k s hs hc
  rw [hpol] at hpl
  have hpl' := (Option.some.inj hpl).symm
  rw [hvals] at hpl' ⊢
  subst hpl'
  exact semiasync_maxdiff_near_optimal P c γ ε S hw (perms n) (hperms n) choose V0 hV0 htest W U hW hU i

/-! ### closed forms: the optimal value function and every policy's value exist (in every ordered field)

The theorems above quantify over *every* fixed point `W` of the optimality operator and `U` of the returned policy's
evaluation operator.  The following discharge that quantification: `W` and `U` exist, are unique, `W` dominates the value of
every stationary deterministic policy and is attained by one — so `W` *is* the optimal value function and `U` *is* the exact
discounted value of the returned policy. -/

/-- `W` is the optimal value function: a fixed point of the optimality operator that dominates every policy's value and is the
    value of some policy -/
def IsOptimalValue (W : Fin P.nS → α) : Prop :=
  Top P γ W = W ∧
  (∀ pol : Fin P.nS → Nat, (∀ i, pol i < P.nA) → ∀ U, Tpol P γ pol U = U → ∀ i, U i ≤ W i) ∧
  ∃ pol : Fin P.nS → Nat, (∀ i, pol i < P.nA) ∧ Tpol P γ pol W = W

/-- the optimal value function exists and is unique -/
theorem optimal_value_exists_unique (S : Setting P c γ) : ∃! W, IsOptimalValue P γ W := by
  obtain ⟨W, hW, pol, hpol, hpW⟩ := optimal_value_exists P γ S.hγ0.le S.hγ1 S.stoch S.valid.1 S.hA
  refine ⟨W, ⟨hW, fun pol' hpol' U hU i => optimal_dominates P γ S.hγ0.le S.hγ1 S.stoch S.valid.1 S.hA W hW pol' hpol' U hU i,
    pol, hpol, hpW⟩, ?_⟩
  intro W' hW'
  exact optimal_value_unique P γ S.hγ0.le S.hγ1 S.stoch S.valid.1 S.hA W' W hW'.1 hW

/-- every policy with valid action indices has exactly one discounted value function -/
theorem policy_value_exists_unique (S : Setting P c γ) (pol : Fin P.nS → Nat) (hpol : ∀ i, pol i < P.nA) :
    ∃! U, Tpol P γ pol U = U := by
  obtain ⟨U, hU⟩ := policy_value_exists P γ S.hγ0.le S.hγ1 S.stoch S.valid.1 pol hpol
  exact ⟨U, hU, fun U' hU' => policy_value_unique P γ S.hγ0.le S.hγ1 S.stoch S.valid.1 pol hpol U' U hU' hU⟩

theorem fixed_points_exist (S : Setting P c γ) (pol : Fin P.nS → Nat) (hpol : ∀ i, pol i < P.nA) :
    ∃ W U, IsOptimalValue P γ W ∧ Tpol P γ pol U = U := by
  obtain ⟨W, hW, _⟩ := optimal_value_exists_unique P c γ S
  obtain ⟨U, hU, _⟩ := policy_value_exists_unique P c γ S pol hpol
  exact ⟨W, U, hW, hU⟩

/-- **Value iteration, span test, closed form**: on reported convergence the optimal value function `W` and the exact value
    `U` of the returned policy exist, and `0 ≤ W − U < ε` at every state; in particular no policy is better than the returned
    one by ε or more anywhere -/
theorem vi_span_near_optimal_closed (S : Setting P c γ) (f k : Nat) (s : SState α) (hs : s.values.length = P.nS)
    (hc : (viSolve P c γ (ε * (1 - γ) / γ) .span f k s).converged = true)
    (pl : List Nat) (hpl : (viSolve P c γ (ε * (1 - γ) / γ) .span f k s).state.policy = some pl) :
    ∃ W U, IsOptimalValue P γ W ∧ Tpol P γ (polFn P.nS pl) U = U ∧ (∀ i, 0 ≤ W i - U i ∧ W i - U i < ε) ∧
      ∀ pol' : Fin P.nS → Nat, (∀ i, pol' i < P.nA) → ∀ U', Tpol P γ pol' U' = U' → ∀ i, U' i - U i < ε := by
  obtain ⟨V0, hV0, hvals, htest, hpol⟩ := vi_converged_shape P c S.valid γ _ .span f k s hs hc
  have hV1len : (viSolve P c γ (ε * (1 - γ) / γ) .span f k s).state.values.length = P.nS := by
    rw [hvals]; exact sweep_length P c S.valid γ _ 0
  have hple : pl = policy P c γ (viSolve P c γ (ε * (1 - γ) / γ) .span f k s).state.values 0 := by
    rw [hpl] at hpol; exact Option.some.inj hpol
  obtain ⟨_, hact⟩ := policy_greedy P c S.valid S.hA γ _ hV1len
  rw [← hple] at hact
  obtain ⟨W, U, hW, hU⟩ := fixed_points_exist P c γ S (polFn P.nS pl) hact
  have hb := fun i => vi_span_near_optimal P c γ ε S f k s hs hc pl hpl W U hW.1 hU i
  refine ⟨W, U, hW, hU, hb, fun pol' hpol' U' hU' i => ?_⟩
  have := hW.2.1 pol' hpol' U' hU' i
  have := (hb i).2
  linarith

/-- **Value iteration, max_diff test, closed form** -/
theorem vi_maxdiff_near_optimal_closed (S : Setting P c γ) (f k : Nat) (s : SState α) (hs : s.values.length = P.nS)
    (hc : (viSolve P c γ (ε * (1 - γ) / γ) .maxDiff f k s).converged = true)
    (pl : List Nat) (hpl : (viSolve P c γ (ε * (1 - γ) / γ) .maxDiff f k s).state.policy = some pl) :
    ∃ W U, IsOptimalValue P γ W ∧ Tpol P γ (polFn P.nS pl) U = U ∧
      ∀ i, |toFn P.nS (viSolve P c γ (ε * (1 - γ) / γ) .maxDiff f k s).state.values i - W i| < ε ∧
        0 ≤ W i - U i ∧ W i - U i < 2 * ε := by
  obtain ⟨V0, hV0, hvals, htest, hpol⟩ := vi_converged_shape P c S.valid γ _ .maxDiff f k s hs hc
  have hV1len : (viSolve P c γ (ε * (1 - γ) / γ) .maxDiff f k s).state.values.length = P.nS := by
    rw [hvals]; exact sweep_length P c S.valid γ _ 0
  have hple : pl = policy P c γ (viSolve P c γ (ε * (1 - γ) / γ) .maxDiff f k s).state.values 0 := by
    rw [hpl] at hpol; exact Option.some.inj hpol
  obtain ⟨_, hact⟩ := policy_greedy P c S.valid S.hA γ _ hV1len
  rw [← hple] at hact
  obtain ⟨W, U, hW, hU⟩ := fixed_points_exist P c γ S (polFn P.nS pl) hact
  exact ⟨W, U, hW, hU, fun i => vi_maxdiff_near_optimal P c γ ε S f k s hs hc pl hpl W U hW.1 hU i⟩

/-- **Policy iteration, closed form** (same explicit hypothesis on the last evaluation as `pi_near_optimal`) -/
theorem pi_near_optimal_closed (S : Setting P c γ) (hw : IdxWF P) (t : ConvTest) (budget : Nat) (reset : Option (List α))
    (s : SState α) (pl : List Nat) (hsp : s.policy = some pl) (hpll : pl.length = P.nS)
    (hstop : (piStep P c γ (ε * (1 - γ) / γ) t budget reset s).2 = true)
    (V : List α) (hVdef : V = (piStep P c γ (ε * (1 - γ) / γ) t budget reset s).1.values) (hV : V.length = P.nS)
    (heval : convMeasure t (evalSweep P c γ pl V 0) V < ε * (1 - γ) / γ) :
    ∃ W U, IsOptimalValue P γ W ∧ Tpol P γ (polFn P.nS pl) U = U ∧ ∀ i,
      0 ≤ W i - U i ∧
      (t = .span → W i - U i < ε / γ) ∧
      (t = .maxDiff → W i - U i < 2 * ε / γ ∧ |toFn P.nS V i - U i| < ε / γ) := by
  have hnc := (C08.piStep_done_iff P c γ _ t budget reset s).mp hstop
  simp only [hsp, Option.getD_some] at hnc
  have hVv : V = evaluate P c γ (ε * (1 - γ) / γ) t pl budget (reset.getD s.values) := by
    rw [hVdef]; simp [piStep, hsp]
  rw [← hVv] at hnc
  have hpeq : policy P c γ V 0 = pl := by
    apply nChanged_eq_zero _ _ _ hnc
    rw [C02.policy_eq_map_greedy P c S.valid]; simp [hpll]
  obtain ⟨_, hact⟩ := policy_greedy P c S.valid S.hA γ V hV
  rw [hpeq] at hact
  obtain ⟨W, U, hW, hU⟩ := fixed_points_exist P c γ S (polFn P.nS pl) hact
  refine ⟨W, U, hW, hU, fun i => ?_⟩
  exact (pi_near_optimal P c γ ε S hw t budget reset s pl hsp hpll hstop V hVdef hV heval W U hW.1 hU i).2.2

/-- **Semi-asynchronous value iteration, max_diff test, whole `solve()` call, closed form** -/
theorem semiasync_solve_near_optimal_closed (S : Setting P c γ) (hw : IdxWF P) (perms : Nat → Option (List Nat))
    (hperms : ∀ n, (orderOf' c.n (perms n)).Perm (List.range c.n)) (choose : Nat → Bool) (f k : Nat) (s : SState α)
    (hs : s.values.length = P.nS)
    (hc : (semiSolve P c γ (ε * (1 - γ) / γ) .maxDiff perms choose f k s).converged = true)
    (pl : List Nat) (hpl : (semiSolve P c γ (ε * (1 - γ) / γ) .maxDiff perms choose f k s).state.policy = some pl) :
    ∃ W U, IsOptimalValue P γ W ∧ Tpol P γ (polFn P.nS pl) U = U ∧ ∀ i,
      |toFn P.nS (semiSolve P c γ (ε * (1 - γ) / γ) .maxDiff perms choose f k s).state.values i - W i| < ε ∧
      0 ≤ W i - U i ∧ W i - U i < 2 * γ * ε / (1 - γ) := by
  obtain ⟨V0, n, hV0, hvals, htest, hpol⟩ :=
    semi_converged_shape P c γ S.valid (ε * (1 - γ) / γ) .maxDiff perms hperms choose f k s hs hc
  have hV1len : (semiSolve P c γ (ε * (1 - γ) / γ) .maxDiff perms choose f k s).state.values.length = P.nS := by
    rw [hvals]; exact semiSweep_length P c γ S.valid V0 _ (hperms n) choose 0
  have hple : pl = policy P c γ (semiSolve P c γ (ε * (1 - γ) / γ) .maxDiff perms choose f k s).state.values 0 := by
    rw [hpl] at hpol; exact Option.some.inj hpol
  obtain ⟨_, hact⟩ := policy_greedy P c S.valid S.hA γ _ hV1len
  rw [← hple] at hact
  obtain ⟨W, U, hW, hU⟩ := fixed_points_exist P c γ S (polFn P.nS pl) hact
  exact ⟨W, U, hW, hU, fun i => semiasync_solve_near_optimal P c γ ε S hw perms hperms choose f k s hs hc pl hpl W U hW.1 hU i⟩

/-! non-vacuity: the 2-state example is a `Setting`; its optimal value is an explicit fixed point over ℚ -/
example : Setting C02.exP ⟨2, 1, 1⟩ (1/2 : Rat) :=
  ⟨by decide, by decide, ⟨fun _ _ _ _ _ _ => by simp [C02.exP], fun _ _ _ _ => by simp [C02.exP]; norm_num⟩, by norm_num, by norm_num⟩

end MdpaxV.C01
