/-
C03 — Results are independent of batch size, device count and padding.
-/
import MdpaxV.Props.C02
import MdpaxV.Props.C08
import MdpaxV.Props.C01
set_option linter.unusedSectionVars false
namespace MdpaxV.C03
open MdpaxV
variable {α : Type} [Field α] [LinearOrder α] [IsStrictOrderedRing α]

/-- padding slots are computed and never observable: any per-slot computation, under any valid layout,
    yields exactly one result per real state in natural order, whatever the padding slots produce -/
theorem padding_never_observable {γ' : Type} (P : Problem α) (c : BatchCfg) (h : C02.Valid P c) (f : Nat → γ') (padv padv' : γ') :
    unbatch c (map3 (onSlot f padv) (prepare c none (stateSlots P.nS))) = (List.range P.nS).map f ∧
    (unbatch c (map3 (onSlot f padv) (prepare c none (stateSlots P.nS)))).length = P.nS ∧
    unbatch c (map3 (onSlot f padv) (prepare c none (stateSlots P.nS))) =
      unbatch c (map3 (onSlot f padv') (prepare c none (stateSlots P.nS))) := by
  rw [C02.slots_map P c h f padv, C02.slots_map P c h f padv']
  simp

theorem sweep_layout_indep (P : Problem α) (c c' : BatchCfg) (h : C02.Valid P c) (h' : C02.Valid P c') (γ : α) (V : List α) (p p' : α) :
    sweep P c γ V p = sweep P c' γ V p' := by
  rw [C02.sweep_eq_map_backup P c h, C02.sweep_eq_map_backup P c' h']

theorem policy_layout_indep (P : Problem α) (c c' : BatchCfg) (h : C02.Valid P c) (h' : C02.Valid P c') (γ : α) (V : List α) (p p' : Nat) :
    policy P c γ V p = policy P c' γ V p' := by
  rw [C02.policy_eq_map_greedy P c h, C02.policy_eq_map_greedy P c' h']

theorem evalSweep_layout_indep (P : Problem α) (c c' : BatchCfg) (h : C02.Valid P c) (h' : C02.Valid P c') (γ : α)
    (pol : List Nat) (V : List α) (p p' : α) :
    evalSweep P c γ pol V p = evalSweep P c' γ pol V p' := by
  unfold evalSweep
  rw [C02.slots_map P c h, C02.slots_map P c' h']

theorem initValues_layout_indep (P : Problem α) (c c' : BatchCfg) (h : C02.Valid P c) (h' : C02.Valid P c') (p p' : α) :
    initValues P c p = initValues P c' p' := by
  rw [C08.initValues_def P c h, C08.initValues_def P c' h']

/-- value iteration: the *whole* result of any solve call (values after every number of sweeps, the iteration at
    which convergence is declared, the policy, the save labels) is the same for every two layouts -/
theorem vi_solve_layout_indep (P : Problem α) (c c' : BatchCfg) (h : C02.Valid P c) (h' : C02.Valid P c') (γ thr : α) (t : ConvTest)
    (f k : Nat) (s : SState α) :
    viSolve P c γ thr t f k s = viSolve P c' γ thr t f k s := by
  have hs : viStep P c γ thr t = viStep P c' γ thr t := by
    funext s; simp only [viStep, sweep_layout_indep P c c' h h' γ s.values 0 0]
  have hf : viFinish P c γ = viFinish P c' γ := by
    funext b s; simp only [viFinish, policy_layout_indep P c c' h h' γ s.values 0 0]
  simp only [viSolve, hs, hf]

theorem vi_init_layout_indep (P : Problem α) (c c' : BatchCfg) (h : C02.Valid P c) (h' : C02.Valid P c') :
    initState P c = initState P c' := by
  simp only [initState, initValues_layout_indep P c c' h h' 0 0]

/-- relative value iteration, including the gain -/
theorem rvi_solve_layout_indep (P : Problem α) (c c' : BatchCfg) (h : C02.Valid P c) (h' : C02.Valid P c') (γ ε : α)
    (f k : Nat) (s : SState α) :
    rviSolve P c γ ε f k s = rviSolve P c' γ ε f k s := by
  have hs : rviStep P c γ ε = rviStep P c' γ ε := by
    funext s; simp only [rviStep, sweep_layout_indep P c c' h h' γ s.values 0 0]
  have hf : viFinish P c γ = viFinish P c' γ := by
    funext b s; simp only [viFinish, policy_layout_indep P c c' h h' γ s.values 0 0]
  simp only [rviSolve, hs, hf]

/-- periodic value iteration, including value history and index -/
theorem periodic_solve_layout_indep (P : Problem α) (c c' : BatchCfg) (h : C02.Valid P c) (h' : C02.Valid P c') (γ ε : α)
    (period : Nat) (clear : Bool) (f k : Nat) (s : SState α) :
    periodicSolve P c γ ε period clear f k s = periodicSolve P c' γ ε period clear f k s ∧
    periodicInit P c period = periodicInit P c' period := by
  have hs : periodicStep P c γ ε period = periodicStep P c' γ ε period := by
    funext s; simp only [periodicStep, sweep_layout_indep P c c' h h' γ s.values 0 0]
  have hf : periodicFinish P c γ clear = periodicFinish P c' γ clear := by
    funext b s; simp only [periodicFinish, viFinish, policy_layout_indep P c c' h h' γ s.values 0 0]
  refine ⟨by simp only [periodicSolve, hs, hf], ?_⟩
  simp only [periodicInit, initValues_layout_indep P c c' h h' 0 0]

/-- policy iteration: evaluation sweeps (whose padded-row policy lookup is clamped and stripped), improvement,
    stopping and the initial policy -/
theorem pi_solve_layout_indep (P : Problem α) (c c' : BatchCfg) (h : C02.Valid P c) (h' : C02.Valid P c') (γ thr : α) (t : ConvTest)
    (budget : Nat) (reset : Option (List α)) (initPol : Option (List Nat)) (f k : Nat) (s : SState α) :
    piSolve P c γ thr t budget reset f k s = piSolve P c' γ thr t budget reset f k s ∧
    piInit P c γ initPol = piInit P c' γ initPol := by
  have he : ∀ pol b V, evaluate P c γ thr t pol b V = evaluate P c' γ thr t pol b V := by
    intro pol b
    induction b with
    | zero => intro V; rfl
    | succ b ih =>
      intro V
      simp only [evaluate, evalSweep_layout_indep P c c' h h' γ pol V 0 0, ih]
  have hs : piStep P c γ thr t budget reset = piStep P c' γ thr t budget reset := by
    funext s; simp only [piStep, he, policy_layout_indep P c c' h h' γ _ 0 0]
  refine ⟨by simp only [piSolve, hs], ?_⟩
  cases initPol <;>
    simp only [piInit, initValues_layout_indep P c c' h h' 0 0, policy_layout_indep P c c' h h' γ _ 0 0]

/-- **the semi-asynchronous solver, whose sweep legitimately depends on the partition, still meets its error bound for every
    partition**: for *every* valid layout `c` (batch size × device count × padding), every per-sweep permutation sequence and
    every resolution of padded writes, a `solve()` call that reports convergence under the max_diff test returns values within ε
    of optimal and a policy within 2γε/(1−γ) of optimal.  (Restates `C01.semiasync_solve_near_optimal`, universally
    quantified over the layout, next to the layout-independence theorems of the fixed-order solvers.) -/
theorem semiasync_bound_every_partition (P : Problem α) (γ ε : α) :
    ∀ (c : BatchCfg) (_S : C01.Setting P c γ) (_hw : C01.IdxWF P) (perms : Nat → Option (List Nat))
      (_hperms : ∀ n, (orderOf' c.n (perms n)).Perm (List.range c.n)) (choose : Nat → Bool) (f k : Nat) (s : SState α)
      (_hs : s.values.length = P.nS)
      (_hc : (semiSolve P c γ (ε * (1 - γ) / γ) .maxDiff perms choose f k s).converged = true)
      (pl : List Nat) (_hpl : (semiSolve P c γ (ε * (1 - γ) / γ) .maxDiff perms choose f k s).state.policy = some pl)
      (W U : Fin P.nS → α) (_hW : Top P γ W = W) (_hU : Tpol P γ (C01.polFn P.nS pl) U = U) (i : Fin P.nS),
      |toFn P.nS (semiSolve P c γ (ε * (1 - γ) / γ) .maxDiff perms choose f k s).state.values i - W i| < ε ∧
      0 ≤ W i - U i ∧ W i - U i < 2 * γ * ε / (1 - γ) :=
  fun c S hw perms hperms choose f k s hs hc pl hpl W U hW hU i =>
    C01.semiasync_solve_near_optimal P c γ ε S hw perms hperms choose f k s hs hc pl hpl W U hW hU i

/-- closed form of the same statement: for every partition the optimal value function `W` and the returned policy's exact value `U`
    exist (uniquely, `C01.IsOptimalValue`), and the bound holds for them -/
theorem semiasync_bound_every_partition_closed (P : Problem α) (γ ε : α) :
    ∀ (c : BatchCfg) (_S : C01.Setting P c γ) (_hw : C01.IdxWF P) (perms : Nat → Option (List Nat))
      (_hperms : ∀ n, (orderOf' c.n (perms n)).Perm (List.range c.n)) (choose : Nat → Bool) (f k : Nat) (s : SState α)
      (_hs : s.values.length = P.nS)
      (_hc : (semiSolve P c γ (ε * (1 - γ) / γ) .maxDiff perms choose f k s).converged = true)
      (pl : List Nat) (_hpl : (semiSolve P c γ (ε * (1 - γ) / γ) .maxDiff perms choose f k s).state.policy = some pl),
      ∃ W U, C01.IsOptimalValue P γ W ∧ Tpol P γ (C01.polFn P.nS pl) U = U ∧ ∀ i,
        |toFn P.nS (semiSolve P c γ (ε * (1 - γ) / γ) .maxDiff perms choose f k s).state.values i - W i| < ε ∧
        0 ≤ W i - U i ∧ W i - U i < 2 * γ * ε / (1 - γ) :=
  fun c S hw perms hperms choose f k s hs hc pl hpl =>
    C01.semiasync_solve_near_optimal_closed P c γ ε S hw perms hperms choose f k s hs hc pl hpl

/-- non-vacuity: two different valid layouts of the same 2-state problem (1 device × 2 batches of 1; 3 devices, 190 padding slots) -/
example : C02.Valid C02.exP ⟨2, 1, 1⟩ ∧ C02.Valid C02.exP ⟨2, 1024, 3⟩ ∧ npad ⟨2, 1024, 3⟩ = 190 ∧ npad ⟨2, 1, 1⟩ = 0 := by decide

end MdpaxV.C03
