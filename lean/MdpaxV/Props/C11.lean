/-
C11 — A crash at any moment leaves a restorable, untorn, correctly labelled checkpoint.
A crash = any prefix of the filesystem event sequence of a checkpoint directory (`Model/Crash.lean`).
Assumed of Orbax/OS and *checked on every run by the harness*: the observed operation log of the real run is accepted by the
executable recogniser `accepts` (a step's content is written inside `<k>.orbax-checkpoint-tmp` and becomes visible as `<k>`
only by one rename; a step is deleted only while a newer one is committed).  Proved: for every accepted sequence and
**every** prefix of it, what `restore()` would pick is a fully committed step, never a temporary or half-deleted
directory, and never older than the last completed save.
-/
import MdpaxV.Model.Crash
import MdpaxV.Props.C12
import MdpaxV.Props.C09
import Mathlib.Data.List.Pairwise
set_option linter.unusedSectionVars false
namespace MdpaxV.C11
open MdpaxV

/-- directory invariant: committed labels ascending; everything being deleted is committed and strictly older than the
    latest committed step; temporary directories are not committed -/
structure Inv (fs : Fs) : Prop where
  asc : fs.committed.Pairwise (· < ·)
  del : ∀ j ∈ fs.deleting, j ∈ fs.committed ∧ ∃ l, fs.latest = some l ∧ j < l
  tmp : ∀ t ∈ fs.tmp, t ∉ fs.committed

theorem latest_mem (fs : Fs) (l : Nat) (h : fs.latest = some l) : l ∈ fs.committed := List.mem_of_getLast? h

/-- what restore picks is a committed directory that is neither temporary nor being deleted -/
theorem restorable_is_clean (fs : Fs) (h : Inv fs) (l : Nat) (hl : fs.latest = some l) :
    l ∈ fs.committed ∧ l ∉ fs.deleting ∧ l ∉ fs.tmp := by
  refine ⟨latest_mem fs l hl, ?_, ?_⟩
  · intro hd
    obtain ⟨_, l', hl', hlt⟩ := h.del l hd
    rw [hl] at hl'; cases hl'; omega
  · intro ht; exact h.tmp l ht (latest_mem fs l hl)

theorem getLast?_filter_keep (l : List Nat) (x : Nat) (p : Nat → Bool) (h : l.getLast? = some x) (hp : p x = true) :
    (l.filter p).getLast? = some x := by
  have hne : l ≠ [] := by intro h0; rw [h0] at h; simp at h
  have hx : l.getLast hne = x := by
    rw [List.getLast?_eq_some_getLast hne] at h; exact Option.some.inj h
  have hl : l = l.dropLast ++ [x] := by rw [← hx]; exact (List.dropLast_append_getLast hne).symm
  rw [hl, List.filter_append]
  simp [hp]

theorem pairwise_last_max (l : List Nat) (h : l.Pairwise (· < ·)) (x : Nat) (hx : l.getLast? = some x) : ∀ y ∈ l, y ≤ x := by
  have hne : l ≠ [] := by intro h0; rw [h0] at hx; simp at hx
  have hx' : l.getLast hne = x := by
    rw [List.getLast?_eq_some_getLast hne] at hx; exact Option.some.inj hx
  have hl : l = l.dropLast ++ [x] := by rw [← hx']; exact (List.dropLast_append_getLast hne).symm
  intro y hy
  rw [hl] at h hy
  rcases List.mem_append.mp hy with h1 | h1
  · have := (List.pairwise_append.mp h).2.2 y h1 x (by simp); omega
  · simp at h1; omega

/-- **one allowed event preserves the invariant and never moves `latest` backwards**; a commit moves it to the new label -/
theorem step_preserves (fs : Fs) (h : Inv fs) (e : FsEvent) (hok : okEvent fs e = true) :
    Inv (fs.step e) ∧
    (∀ l, fs.latest = some l → ∃ l', (fs.step e).latest = some l' ∧ l ≤ l') ∧
    (∀ k, e = .commit k → (fs.step e).latest = some k) := by
  cases e with
  | mkTmp k =>
    simp only [okEvent, List.all_eq_true, decide_eq_true_eq] at hok
    refine ⟨⟨h.asc, h.del, ?_⟩, fun l hl => ⟨l, hl, Nat.le_refl _⟩, fun k' hk' => by cases hk'⟩
    intro t ht
    have hcases : t ∈ fs.tmp ∨ t = k := by
      simp only [Fs.step] at ht
      split at ht
      · left; exact ht
      · simpa using ht
    rcases hcases with ht | rfl
    · exact h.tmp t ht
    · intro hc; have := hok t hc; omega
  | commit k =>
    simp only [okEvent, Bool.and_eq_true, List.all_eq_true, decide_eq_true_eq, List.contains_eq_mem] at hok
    have hlat : (fs.step (.commit k)).latest = some k := by simp [Fs.step, Fs.latest]
    refine ⟨⟨?_, ?_, ?_⟩, ?_, fun k' hk' => by cases hk'; exact hlat⟩
    · simp only [Fs.step]
      rw [List.pairwise_append]
      exact ⟨h.asc, List.pairwise_singleton _ _, fun a ha b hb => by simp at hb; rw [hb]; exact hok.2 a ha⟩
    · intro j hj
      simp only [Fs.step] at hj
      obtain ⟨hjc, _⟩ := h.del j hj
      exact ⟨by simp [Fs.step, hjc], k, hlat, hok.2 j hjc⟩
    · intro t ht
      simp only [Fs.step, List.mem_filter, decide_eq_true_eq] at ht
      simp only [Fs.step, List.mem_append, List.mem_singleton, not_or]
      exact ⟨h.tmp t ht.1, ht.2⟩
    · intro l hl
      exact ⟨k, hlat, Nat.le_of_lt (hok.2 l (latest_mem fs l hl))⟩
  | delStart j =>
    simp only [okEvent, Bool.and_eq_true, List.contains_eq_mem] at hok
    obtain ⟨hjc, hlt⟩ := hok
    have hlatest : (fs.step (.delStart j)).latest = fs.latest := rfl
    refine ⟨⟨h.asc, ?_, h.tmp⟩, fun l hl => ⟨l, by rw [hlatest]; exact hl, Nat.le_refl _⟩, fun k hk => by cases hk⟩
    intro j' hj'
    have hcases : j' ∈ fs.deleting ∨ j' = j := by
      simp only [Fs.step] at hj'
      split at hj'
      · left; exact hj'
      · simpa using hj'
    rcases hcases with hj'' | rfl
    · exact h.del j' hj''
    · refine ⟨by simpa [Fs.step] using hjc, ?_⟩
      rw [hlatest]
      cases hl : fs.latest with
      | none => rw [hl] at hlt; simp at hlt
      | some l => rw [hl] at hlt; exact ⟨l, rfl, by simpa using hlt⟩
  | delDone j =>
    simp only [okEvent, List.contains_eq_mem] at hok
    have hjd : j ∈ fs.deleting := by simpa using hok
    obtain ⟨hjc, l, hl, hjl⟩ := h.del j hjd
    have hlatest : (fs.step (.delDone j)).latest = some l := by
      simp only [Fs.step, Fs.latest]
      exact getLast?_filter_keep fs.committed l _ hl (by simp; omega)
    refine ⟨⟨?_, ?_, ?_⟩, ?_, fun k hk => by cases hk⟩
    · exact h.asc.filter _
    · intro j' hj'
      simp only [Fs.step, List.mem_filter, decide_eq_true_eq] at hj'
      obtain ⟨hj'c, l', hl', hlt'⟩ := h.del j' hj'.1
      rw [hl] at hl'; cases hl'
      exact ⟨by simp [Fs.step, hj'c, hj'.2], l, hlatest, hlt'⟩
    · intro t ht hc
      simp only [Fs.step, List.mem_filter] at hc
      exact h.tmp t ht hc.1
    · intro l0 hl0
      rw [hl] at hl0; cases hl0
      exact ⟨l, hlatest, Nat.le_refl _⟩

/-- **crash safety**: if the observed operation sequence is accepted from a good directory state, then after *every*
    prefix (= crash point) the directory is good: what a later `restore()` picks is a fully committed step, never a
    temporary directory, never one that is being deleted -/
theorem crash_safe (fs : Fs) (h : Inv fs) (evs : List FsEvent) (hacc : accepts fs evs = true) (n : Nat) :
    Inv (fs.run (evs.take n)) := by
  induction evs generalizing fs n with
  | nil => simpa [Fs.run] using h
  | cons e es ih =>
    cases n with
    | zero => simpa [Fs.run] using h
    | succ n =>
      simp only [accepts, Bool.and_eq_true] at hacc
      simp only [List.take_succ_cons, Fs.run, List.foldl_cons]
      exact ih (fs.step e) (step_preserves fs h e hacc.1).1 hacc.2 n

/-- **never older than the last completed save**: if `commit k` is among the first n operations, what restore picks after a
    crash at n is a label ≥ k -/
theorem restored_not_older (fs : Fs) (h : Inv fs) (evs : List FsEvent) (hacc : accepts fs evs = true) (n : Nat) (k : Nat)
    (hk : FsEvent.commit k ∈ evs.take n) :
    ∃ l, (fs.run (evs.take n)).latest = some l ∧ k ≤ l := by
  induction evs generalizing fs n with
  | nil => simp at hk
  | cons e es ih =>
    cases n with
    | zero => simp at hk
    | succ n =>
      simp only [accepts, Bool.and_eq_true] at hacc
      simp only [List.take_succ_cons, Fs.run, List.foldl_cons, List.mem_cons] at hk ⊢
      obtain ⟨hinv, hmono, hcommit⟩ := step_preserves fs h e hacc.1
      rcases hk with rfl | hk
      · -- the commit is this very event: latest = k now, and it never moves backwards afterwards
        have hl := hcommit k rfl
        have : ∀ (fs' : Fs) (es' : List FsEvent), Inv fs' → accepts fs' es' = true → ∀ l, fs'.latest = some l →
            ∃ l', (es'.foldl Fs.step fs').latest = some l' ∧ l ≤ l' := by
          intro fs' es'
          induction es' generalizing fs' with
          | nil => intro _ _ l hl'; exact ⟨l, hl', Nat.le_refl _⟩
          | cons e' es' ih' =>
            intro hi ha l hl'
            simp only [accepts, Bool.and_eq_true] at ha
            obtain ⟨hi2, hm2, _⟩ := step_preserves fs' hi e' ha.1
            obtain ⟨l2, hl2, hle⟩ := hm2 l hl'
            obtain ⟨l3, hl3, hle3⟩ := ih' (fs'.step e') hi2 ha.2 l2 hl2
            exact ⟨l3, hl3, by omega⟩
        -- acceptance of a prefix
        have hpre : ∀ (fs' : Fs) (es' : List FsEvent) (n' : Nat), accepts fs' es' = true → accepts fs' (es'.take n') = true := by
          intro fs' es'
          induction es' generalizing fs' with
          | nil => intro n' _; simp [accepts]
          | cons e' es' ih' =>
            intro n' ha
            cases n' with
            | zero => simp [accepts]
            | succ n' =>
              simp only [accepts, Bool.and_eq_true, List.take_succ_cons] at ha ⊢
              exact ⟨ha.1, ih' _ n' ha.2⟩
        exact this (fs.step (.commit k)) (es.take n) hinv (hpre _ es n hacc.2) k hl
      · exact ih (fs.step e) hinv hacc.2 n hk

/-- the empty directory is good -/
theorem inv_empty : Inv {} := ⟨List.Pairwise.nil, fun j hj => by simp at hj, fun t ht => by simp at ht⟩

/-! non-vacuity: the protocol sequence generated for labels 1,2,3 with max_to_keep = 2 is accepted, and a torn sequence
    (deleting the latest step) is rejected -/
example : accepts {} (protoTrace 2 [] [1, 2, 3]) = true := by decide
example : protoTrace 2 [] [1, 2, 3] = [.mkTmp 1, .commit 1, .mkTmp 2, .commit 2, .mkTmp 3, .commit 3, .delStart 1, .delDone 1] := by decide
example : accepts {} [.mkTmp 1, .commit 1, .delStart 1] = false := by decide

end MdpaxV.C11
