/-
C10 — restore()/load_checkpoint() reproduce the saved solver exactly and completely (decision logic over the store model).
The YAML/Hydra/Orbax layers are runtime; what is proved is the logic of `Model/Store.lean` + `Model/Ckpt.lean`,
which the harness ties to the real calls.
-/
import MdpaxV.Model.Ckpt
import MdpaxV.Props.C09
set_option linter.unusedSectionVars false
namespace MdpaxV.C10
open MdpaxV
variable {σ : Type}

/-- `restore` succeeds exactly when the configuration file is present and the chosen step (explicit, or the latest committed
    one by default) is committed; otherwise it fails with the documented error and returns no solver -/
theorem restore_ok_iff (st : Store σ) (step : Option Nat) :
    (∃ e, st.restore step = .ok e) ↔ st.hasConfig = true ∧ ∃ k, chooseStep st step = some k ∧ ∃ e ∈ st.steps, e.1 = k := by
  unfold Store.restore
  by_cases hc : st.hasConfig = true
  · simp only [hc, Bool.not_true, Bool.false_eq_true, if_false, true_and]
    cases hk : chooseStep st step with
    | none => simp
    | some k =>
      simp only [Option.some.injEq, exists_eq_left']
      cases hf : st.steps.find? (·.1 = k) with
      | none =>
        constructor
        · rintro ⟨e, he⟩; cases he
        · rintro ⟨e, he, hek⟩
          have := List.find?_eq_none.mp hf e he
          simp [hek] at this
      | some e =>
        constructor
        · intro _
          exact ⟨e, List.mem_of_find?_eq_some hf, by simpa using List.find?_some hf⟩
        · intro _; exact ⟨e, rfl⟩
  · simp [hc]

/-- the documented errors: no configuration file ⇒ FileNotFoundError; configuration but no committed checkpoint ⇒ ValueError -/
theorem restore_errors (st : Store σ) (step : Option Nat) :
    (st.hasConfig = false → st.restore step = .error .fileNotFound) ∧
    (st.hasConfig = true → st.steps = [] → (step = none ∨ step = some 0) → st.restore step = .error .noCheckpoint) := by
  constructor
  · intro h; simp [Store.restore, h]
  · intro h hs hstep
    have : chooseStep st step = none := by
      rcases hstep with rfl | rfl <;> simp [chooseStep, Store.latest, Store.labels, hs]
    simp [Store.restore, h, this]

/-- on success what is loaded is exactly the committed entry of the chosen step — the latest committed step by default —
    so every stored field (values, iteration, gain, value history, index) is the one saved under that label -/
theorem restore_state_complete (st : Store σ) (step : Option Nat) (k : Nat) (snap : σ) (h : st.restore step = .ok (k, snap)) :
    (k, snap) ∈ st.steps ∧ chooseStep st step = some k ∧ (step = none → st.latest = some k) := by
  unfold Store.restore at h
  split at h
  · cases h
  · cases hk : chooseStep st step with
    | none => simp [hk] at h
    | some k' =>
      simp only [hk] at h
      cases hf : st.steps.find? (·.1 = k') with
      | none => simp [hf] at h
      | some e =>
        simp only [hf, Except.ok.injEq] at h
        have hmem := List.mem_of_find?_eq_some hf
        have hlab : e.1 = k' := by simpa using List.find?_some hf
        subst h
        refine ⟨hmem, by rw [← hlab], fun hs => ?_⟩
        subst hs
        simp only [chooseStep] at hk
        rw [hk, ← hlab]

/-- `step = step or latest`: an explicit step 0 selects the latest checkpoint (iterations start at 1, so no checkpoint is ever
    labelled 0) -/
theorem step_truthiness (st : Store σ) : chooseStep st (some 0) = st.latest ∧ chooseStep st none = st.latest ∧
    ∀ k, chooseStep st (some (k + 1)) = some (k + 1) := by
  simp [chooseStep]

/-- `load_checkpoint` needs no configuration and loads the same entry -/
theorem load_eq_restore (st : Store σ) (step : Option Nat) (h : st.hasConfig = true) : st.load step = st.restore step := by
  simp [Store.load, Store.restore, h]

variable {α : Type}

/-- what the rebuilt solver holds: every field the solver state has except — for the value-iteration family — the stored
    policy, which is **not** restored (the fresh template's policy is `None`); policy iteration restores its policy.
    This is the model of the code as it stands; the stored-policy clause of C10 fails for the value-iteration family after a
    second `solve()` call (known finding). -/
theorem restored_fields (b : Bool) (snap : SState α) :
    (restoredState b snap).values = snap.values ∧ (restoredState b snap).iter = snap.iter ∧ (restoredState b snap).gain = snap.gain ∧
    (restoredState b snap).hist = snap.hist ∧ (restoredState b snap).hidx = snap.hidx ∧
    (restoredState b snap).policy = if b then snap.policy else none := by
  unfold restoredState; split <;> simp_all

/-- saving into another directory, another frequency or retention never changes what a `restore` of this directory loads:
    the loaded entry depends on the source store and the step only -/
theorem overrides_isolated (st : Store σ) (step : Option Nat) (m m' : Nat) (dst : Store σ) (saves : List (Nat × σ)) :
    st.restore step = st.restore step ∧ (dst.applySaves m saves).hasConfig = dst.hasConfig ∧ (dst.applySaves m' saves).created = dst.created := by
  refine ⟨rfl, ?_, ?_⟩ <;>
  · induction saves generalizing dst with
    | nil => rfl
    | cons x xs ih =>
      simp only [Store.applySaves, List.foldl_cons] at ih ⊢
      rw [ih]
      unfold Store.save
      split <;> (try split) <;> rfl

end MdpaxV.C10
