/-
C17 — Explicit matrices describe the same MDP as the functional description.
-/
import MdpaxV.Model.Matrices
import MdpaxV.Props.C02
set_option linter.unusedSectionVars false
namespace MdpaxV.C17
open MdpaxV
variable {α : Type} [Field α] [LinearOrder α] [IsStrictOrderedRing α]
variable (P : Problem α)

theorem foldl_add_eq_sum (l : List α) : l.foldl (· + ·) 0 = l.sum := (List.sum_eq_foldl).symm

/-- the (action, state, successor) entry before normalisation is the **total probability of the events leading there**
    (several events into one entry accumulate) -/
theorem P_entry (a s s' : Nat) :
    rawP P a s s' = (((List.range P.nE).filter fun e => scatterPos P.nS (P.nxt s a e) = some s').map (P.prob s a)).sum := by
  unfold rawP
  generalize List.range P.nE = l
  suffices h : ∀ (acc : α), l.foldl (fun acc e => if scatterPos P.nS (P.nxt s a e) = some s' then acc + P.prob s a e else acc) acc
      = acc + ((l.filter fun e => scatterPos P.nS (P.nxt s a e) = some s').map (P.prob s a)).sum by
    simpa using h 0
  induction l with
  | nil => intro acc; simp
  | cons e l ih =>
    intro acc
    simp only [List.foldl_cons, List.filter_cons]
    by_cases h : scatterPos P.nS (P.nxt s a e) = some s'
    · simp only [h, if_true, decide_true, ih, List.map_cons, List.sum_cons]; ring
    · simp only [h, if_false, decide_false, ih]; simp

/-- the reward entry is the expected immediate reward -/
theorem R_entry (s a : Nat) : rewardR P s a = ((List.range P.nE).map fun e => P.prob s a e * P.rew s a e).sum := by
  unfold rewardR; exact foldl_add_eq_sum _

theorem rowSum_eq (a s : Nat) : rowSum P a s = ((List.range P.nS).map (rawP P a s)).sum := by
  unfold rowSum; exact foldl_add_eq_sum _

/-- a ValueError is raised **iff** some row deviates from one by more than the tolerance -/
theorem error_iff (tol : α) :
    (∃ s a r, buildMatrices P tol = .error s a r) ↔ tol < maxList (deviations P) := by
  unfold buildMatrices
  simp only []
  split
  · rename_i h; exact ⟨fun _ => h, fun _ => ⟨_, _, _, rfl⟩⟩
  · rename_i h
    constructor
    · rintro ⟨s, a, r, he⟩; cases he
    · intro h'; exact absurd h' h

/-- the pair named in the error is the first maximiser of |row sum − 1| in (action, state) order, and the reported
    row sum is that pair's -/
theorem error_names_first_max (tol : α) (s a : Nat) (r : α) (hS : 0 < P.nS) (hA : 0 < P.nA)
    (h : buildMatrices P tol = .error s a r) :
    (deviations P)[a * P.nS + s]? = some (maxList (deviations P)) ∧ s < P.nS ∧ r = rowSum P a s ∧
    tol < maxList (deviations P) ∧
    ∀ j v, j < a * P.nS + s → (deviations P)[j]? = some v → v < maxList (deviations P) := by
  unfold buildMatrices at h
  simp only [] at h
  split at h
  · rename_i hlt
    injection h with hs ha hr
    have hne : deviations P ≠ [] := by
      unfold deviations
      intro h0
      have : ((List.range P.nA).flatMap fun a => (List.range P.nS).map fun s => absv (rowSum P a s - 1)).length = 0 := by rw [h0]; rfl
      simp [List.length_flatMap] at this
      rcases this with h1 | h1 <;> omega
    obtain ⟨h1, _, h3⟩ := argmaxList_spec (deviations P) hne
    have hk : argmaxList (deviations P) = a * P.nS + s := by
      rw [← hs, ← ha]; exact (Nat.div_add_mod' _ _).symm
    rw [← hk]
    refine ⟨h1, by rw [← hs]; exact Nat.mod_lt _ hS, by rw [← hr, ← hs, ← ha], hlt, h3⟩
  · cases h

theorem sum_map_div (l : List α) (d : α) : (l.map (· / d)).sum = l.sum / d := by
  induction l with
  | nil => simp
  | cons x xs ih => simp only [List.map_cons, List.sum_cons, ih]; ring

/-- on success every deviation is within the tolerance and every returned row with positive mass sums to exactly one,
    being the raw row scaled by 1/rowsum -/
theorem rows_sum_one (tol : α) (Pm : List (List (List α))) (Rm : List (List α)) (h : buildMatrices P tol = .ok Pm Rm)
    (a s : Nat) (ha : a < P.nA) (hs : s < P.nS) :
    |rowSum P a s - 1| ≤ tol ∧
    ((Pm.getD a []).getD s []) = (List.range P.nS).map (fun s' => rawP P a s s' / (if 0 < rowSum P a s then rowSum P a s else 1)) ∧
    (0 < rowSum P a s → ((Pm.getD a []).getD s []).sum = 1) ∧
    (Rm.getD s []).getD a 0 = rewardR P s a := by
  unfold buildMatrices at h
  simp only [] at h
  split at h
  · cases h
  · rename_i hnot
    injection h with hP hR
    have hrow : (Pm.getD a []).getD s [] = (List.range P.nS).map (fun s' => rawP P a s s' / (if 0 < rowSum P a s then rowSum P a s else 1)) := by
      rw [← hP]
      simp [List.getD_eq_getElem?_getD, List.getElem?_map, List.getElem?_range ha, List.getElem?_range hs]
    refine ⟨?_, hrow, ?_, ?_⟩
    · have hmem : absv (rowSum P a s - 1) ∈ deviations P := by
        unfold deviations
        exact List.mem_flatMap.mpr ⟨a, List.mem_range.mpr ha, List.mem_map.mpr ⟨s, List.mem_range.mpr hs, rfl⟩⟩
      have := le_maxList_of_mem _ _ hmem
      rw [absv_eq_abs'] at this
      exact le_trans this (not_lt.mp hnot)
    · intro hpos
      rw [hrow, if_pos hpos]
      have : (fun s' => rawP P a s s' / rowSum P a s) = (· / rowSum P a s) ∘ (rawP P a s) := rfl
      rw [this, ← List.map_map, sum_map_div, ← rowSum_eq]
      exact div_self (ne_of_gt hpos)
    · rw [← hR]
      simp [List.getD_eq_getElem?_getD, List.getElem?_map, List.getElem?_range ha, List.getElem?_range hs]
where
  absv_eq_abs' {x : α} : absv x = |x| := by
    unfold absv
    split
    · rw [abs_of_neg ‹_›]
    · rw [abs_of_nonneg (not_lt.mp ‹_›)]

theorem sum_map_mul_left' {β : Type} (l : List β) (f : β → α) (c : α) : (l.map fun x => c * f x).sum = c * (l.map f).sum := by
  induction l with
  | nil => simp
  | cons x xs ih => simp only [List.map_cons, List.sum_cons, ih]; ring

/-- exchanging the order of summation: Σ_{s'} P[a,s,s']·w(s') = Σ_e p(e)·w(idx next(e)) when every successor index is in range -/
theorem sum_P_mul (a s : Nat) (w : Nat → α) (hin : ∀ e, e < P.nE → ∃ t, t < P.nS ∧ scatterPos P.nS (P.nxt s a e) = some t) :
    ((List.range P.nS).map fun s' => rawP P a s s' * w s').sum =
    ((List.range P.nE).map fun e => P.prob s a e * w ((scatterPos P.nS (P.nxt s a e)).getD 0)).sum := by
  simp only [P_entry]
  have key : ∀ (l : List Nat), (∀ e ∈ l, ∃ t, t < P.nS ∧ scatterPos P.nS (P.nxt s a e) = some t) →
      ((List.range P.nS).map fun s' => ((l.filter fun e => scatterPos P.nS (P.nxt s a e) = some s').map (P.prob s a)).sum * w s').sum =
      (l.map fun e => P.prob s a e * w ((scatterPos P.nS (P.nxt s a e)).getD 0)).sum := by
    intro l
    induction l with
    | nil => intro _; simp
    | cons e l ih =>
      intro hl
      obtain ⟨t, ht, he⟩ := hl e (by simp)
      have ih' := ih (fun e' he' => hl e' (by simp [he']))
      simp only [List.map_cons, List.sum_cons, ← ih', List.filter_cons, he, Option.getD_some]
      -- split the indicator of s' = t
      have hsplit : ∀ s', ((if decide (some t = some s') = true then e :: l.filter (fun e => scatterPos P.nS (P.nxt s a e) = some s')
            else l.filter (fun e => scatterPos P.nS (P.nxt s a e) = some s')).map (P.prob s a)).sum * w s' =
          (if s' = t then P.prob s a e * w t else 0) +
            ((l.filter (fun e => scatterPos P.nS (P.nxt s a e) = some s')).map (P.prob s a)).sum * w s' := by
        intro s'
        by_cases hst : s' = t
        · subst hst; simp; ring
        · have : ¬ (some t = some s') := fun h => hst (Option.some.inj h).symm
          simp [this, hst]
      simp only [hsplit, List.sum_map_add]
      congr 1
      -- Σ_{s' < n} [s' = t] c = c
      have hind : ∀ n, t < n → ((List.range n).map fun s' => if s' = t then P.prob s a e * w t else 0).sum = P.prob s a e * w t := by
        intro n
        induction n with
        | zero => intro h; omega
        | succ n ihn =>
          intro h
          rw [List.range_succ, List.map_append, List.sum_append]
          by_cases hn : t < n
          · rw [ihn hn]; have : n ≠ t := by omega
            simp [this]
          · have hnt : n = t := by omega
            have hz : ((List.range n).map fun s' => if s' = t then P.prob s a e * w t else 0).sum = 0 := by
              apply List.sum_eq_zero
              intro x hx
              simp only [List.mem_map, List.mem_range] at hx
              obtain ⟨y, hy, rfl⟩ := hx
              have : y ≠ t := by omega
              simp [this]
            rw [hz]; simp [hnt]
      exact hind P.nS ht
  exact key (List.range P.nE) (fun e he => hin e (List.mem_range.mp he))

/-- **same MDP**: when the raw rows sum to one and every successor index is a valid row, the matrix form of the
    action value `R[s,a] + γ Σ_{s'} P[a,s,s'] V[s']` equals the functional action value, for every V; hence the
    matrix Bellman operator is `backup` and both descriptions have the same fixed points / optimal values -/
theorem matrix_backup_eq (γ : α) (V : List α) (hV : V.length = P.nS) (s a : Nat)
    (hin : ∀ e, e < P.nE → ∃ t, t < P.nS ∧ P.nxt s a e = (t : Int)) :
    rewardR P s a + γ * ((List.range P.nS).map fun s' => rawP P a s s' * V.getD s' 0).sum = qval P γ (look V) s a := by
  have hin' : ∀ e, e < P.nE → ∃ t, t < P.nS ∧ scatterPos P.nS (P.nxt s a e) = some t := by
    intro e he; obtain ⟨t, ht, hte⟩ := hin e he
    exact ⟨t, ht, by rw [hte]; exact C06_scatterPos_cast _ _ ht⟩
  rw [sum_P_mul P a s (fun s' => V.getD s' 0) hin', R_entry, C02.qval_textbook, ← sum_map_mul_left', ← List.sum_map_add]
  congr 1
  apply List.map_congr_left
  intro e he
  obtain ⟨t, ht, hte⟩ := hin e (List.mem_range.mp he)
  have hl : look V (P.nxt s a e) = V.getD t 0 := by
    rw [hte]; unfold look
    rw [hV, C01_clampIdx_cast _ _ ht, List.getD_eq_getElem?_getD]
  rw [hl, hte, C06_scatterPos_cast _ _ ht]
  simp only [Option.getD_some]
  ring
where
  C06_scatterPos_cast (n s : Nat) (h : s < n) : scatterPos n (s : Int) = some s := by
    unfold scatterPos; simp only []
    split <;> split <;> (try split) <;> simp_all <;> omega
  C01_clampIdx_cast (n s : Nat) (h : s < n) : clampIdx n (s : Int) = s := by
    unfold clampIdx; simp only []
    split <;> split <;> (try split) <;> omega

end MdpaxV.C17
