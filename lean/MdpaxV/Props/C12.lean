/-
C12 — Checkpoint cadence and retention follow frequency and max_checkpoints.
Statements about the save events issued by the generic `solve` loop and about the store model (`Model/Store.lean`).
-/
import MdpaxV.Model.Store
import MdpaxV.Theory.Loop
set_option linter.unusedSectionVars false
namespace MdpaxV.C12
open MdpaxV
variable {σ : Type}

/-- with frequency 0 nothing is written: no directory, no configuration file, and the loop issues no save event -/
theorem f0_writes_nothing (st : Store σ) (cfg : Bool) (step : σ → σ × Bool) (iter : σ → Nat) (finish : Bool → σ → σ) (k : Nat) (s : σ) :
    st.setup 0 cfg = st ∧ (solveCall step iter finish 0 k s).saves = [] := by
  refine ⟨by simp [Store.setup], ?_⟩
  simp only [solveCall, solveLoop]
  have : ∀ k s n, (loopBody step iter 0 k s n []).saves = [] := by
    intro k
    induction k with
    | zero => intro s n; rfl
    | succ k ih => intro s n; simp only [loopBody]; split <;> simp [ih]
  simp [this]

/-- the directory exists iff the frequency is positive; the configuration file is present exactly when, in addition,
    solver and problem are reconstructible from configuration -/
theorem config_file_iff (f : Nat) (cfg : Bool) :
    (({} : Store σ).setup f cfg).created = decide (f ≠ 0) ∧ (({} : Store σ).setup f cfg).hasConfig = (decide (f ≠ 0) && cfg) := by
  by_cases h : f = 0 <;> simp [Store.setup, h]

/-- every save event of the loop carries the snapshot taken **at that moment**: its label is the iteration counter of the
    snapshot (never a different iteration's state), the snapshot is an iterate reached by this call, and the label is a
    multiple of the frequency -/
theorem loop_saves_spec (step : σ → σ × Bool) (iter : σ → Nat) (f k : Nat) (s : σ) (n : Nat) (sv : List (Nat × σ)) :
    ∀ e ∈ (loopBody step iter f k s n sv).saves, e ∈ sv ∨
      (∃ j, 1 ≤ j ∧ j ≤ k ∧ e = (iter (iterState step j s), iterState step j s) ∧ f ≠ 0 ∧ iter (iterState step j s) % f = 0) := by
  induction k generalizing s n sv with
  | zero => intro e he; left; simpa [loopBody] using he
  | succ k ih =>
    intro e he
    simp only [loopBody] at he
    split at he
    · left; exact he
    · rcases ih _ _ _ e he with h | ⟨j, hj1, hjk, hje, hf⟩
      · split at h
        · rename_i hcond
          rcases List.mem_append.mp h with h' | h'
          · left; exact h'
          · right
            refine ⟨1, Nat.le_refl _, by omega, ?_, hcond.1, ?_⟩
            · simp only [List.mem_singleton] at h'; rw [h']; simp [iterState]
            · simpa [iterState] using hcond.2
        · left; exact h
      · right
        refine ⟨j + 1, by omega, by omega, ?_, hf.1, ?_⟩
        · rw [iterState_succ]; exact hje
        · rw [iterState_succ]; exact hf.2

/-- the last iteration of a `solve()` call is **always** saved (when checkpointing is on), labelled with its own
    iteration number and holding the state reached by the loop (before policy extraction) -/
theorem final_always_saved (step : σ → σ × Bool) (iter : σ → Nat) (finish : Bool → σ → σ) (f k : Nat) (hf : f ≠ 0) (s : σ) :
    (solveCall step iter finish f k s).saves.getLast? =
      some (iter (solveLoop step iter f k s).state, (solveLoop step iter f k s).state) := by
  simp [solveCall, solveLoop, hf]

/-- every save event of a whole call is label-consistent -/
theorem call_saves_label_consistent (step : σ → σ × Bool) (iter : σ → Nat) (finish : Bool → σ → σ) (f k : Nat) (s : σ) :
    ∀ e ∈ (solveCall step iter finish f k s).saves, e.1 = iter e.2 := by
  intro e he
  simp only [solveCall, solveLoop] at he
  split at he
  · rcases List.mem_append.mp he with h | h
    · rcases loop_saves_spec step iter f k s 0 [] e h with h' | ⟨j, _, _, hje, _⟩
      · simp at h'
      · rw [hje]
    · simp only [List.mem_singleton] at h; rw [h]
  · rcases loop_saves_spec step iter f k s 0 [] e he with h' | ⟨j, _, _, hje, _⟩
    · simp at h'
    · rw [hje]

theorem keepNewest_length {β : Type} (m : Nat) (l : List β) : (keepNewest m l).length ≤ m := by
  simp [keepNewest]; omega

theorem keepNewest_mem {β : Type} (m : Nat) (l : List β) (x : β) (h : x ∈ keepNewest m l) : x ∈ l :=
  List.mem_of_mem_drop h

theorem keepNewest_last {β : Type} (m : Nat) (hm : 1 ≤ m) (l : List β) (x : β) : x ∈ keepNewest m (l ++ [x]) := by
  unfold keepNewest
  have : (l ++ [x]).drop ((l ++ [x]).length - m) = (l.drop ((l ++ [x]).length - m)) ++ [x] := by
    rw [List.drop_append_of_le_length (by simp; omega)]
  rw [this]; simp

/-- one `save`: skipped iff the step is not newer than the latest committed one; otherwise the step is committed and
    exactly the `m` newest steps are retained — the new one among them -/
theorem save_spec (m : Nat) (hm : 1 ≤ m) (st : Store σ) (k : Nat) (snap : σ) :
    (∀ l, st.latest = some l → k ≤ l → st.save m k snap = st) ∧
    ((st.latest = none ∨ ∃ l, st.latest = some l ∧ l < k) →
        (st.save m k snap).steps = keepNewest m (st.steps ++ [(k, snap)]) ∧ (k, snap) ∈ (st.save m k snap).steps ∧
        (st.save m k snap).steps.length ≤ m) := by
  constructor
  · intro l hl hk; simp [Store.save, hl, hk]
  · intro h
    have hs : (st.save m k snap).steps = keepNewest m (st.steps ++ [(k, snap)]) := by
      rcases h with h | ⟨l, hl, hlt⟩
      · simp [Store.save, h]
      · simp [Store.save, hl, Nat.not_le.mpr hlt]
    rw [hs]
    exact ⟨rfl, keepNewest_last m hm _ _, keepNewest_length m _⟩

/-- retention never exceeds `m` and never invents content: whatever is retained after a call was either there before or
    is one of the call's (label-consistent) save events -/
theorem applySaves_spec (m : Nat) (st : Store σ) (saves : List (Nat × σ)) (hlen : st.steps.length ≤ m) :
    (st.applySaves m saves).steps.length ≤ m ∧
    ∀ e ∈ (st.applySaves m saves).steps, e ∈ st.steps ∨ e ∈ saves := by
  induction saves generalizing st with
  | nil => exact ⟨hlen, fun e he => Or.inl he⟩
  | cons x xs ih =>
    simp only [Store.applySaves, List.foldl_cons]
    have hstep : (st.save m x.1 x.2).steps.length ≤ m ∧ ∀ e ∈ (st.save m x.1 x.2).steps, e ∈ st.steps ∨ e = x := by
      unfold Store.save
      split
      · split
        · exact ⟨hlen, fun e he => Or.inl he⟩
        · refine ⟨keepNewest_length m _, fun e he => ?_⟩
          have := keepNewest_mem m _ e he
          simpa using this
      · refine ⟨keepNewest_length m _, fun e he => ?_⟩
        have := keepNewest_mem m _ e he
        simpa using this
    obtain ⟨h1, h2⟩ := ih (st.save m x.1 x.2) hstep.1
    refine ⟨h1, fun e he => ?_⟩
    rcases h2 e he with h | h
    · rcases hstep.2 e h with h' | h'
      · exact Or.inl h'
      · exact Or.inr (by rw [h']; simp)
    · exact Or.inr (by simp [h])

/-- the save events Orbax accepts: those whose label is newer than everything committed so far -/
def accepted : Option Nat → List (Nat × σ) → List (Nat × σ)
  | _, [] => []
  | none, e :: es => e :: accepted (some e.1) es
  | some l, e :: es => if e.1 ≤ l then accepted (some l) es else e :: accepted (some e.1) es

theorem keepNewest_append {β : Type} (m : Nat) (a b : List β) :
    keepNewest m (keepNewest m a ++ b) = keepNewest m (a ++ b) := by
  unfold keepNewest
  by_cases h : a.length ≤ m
  · have : a.length - m = 0 := by omega
    simp [this]
  · have hk : a.length - m ≤ a.length := by omega
    have e1 : (List.drop (a.length - m) a ++ b).length - m = b.length := by simp; omega
    have e2 : (a ++ b).length - m = (a.length - m) + b.length := by simp; omega
    rw [e1, e2, ← List.drop_drop, List.drop_append_of_le_length hk]

theorem keepNewest_of_le {β : Type} (m : Nat) (l : List β) (h : l.length ≤ m) : keepNewest m l = l := by
  unfold keepNewest; have : l.length - m = 0 := by omega
  simp [this]

theorem keepNewest_getLast {β : Type} (m : Nat) (hm : 1 ≤ m) (l : List β) (x : β) :
    (keepNewest m (l ++ [x])).getLast? = some x := by
  unfold keepNewest
  rw [List.getLast?_drop]
  simp; omega

theorem latest_after_accept (m : Nat) (hm : 1 ≤ m) (st : Store σ) (e : Nat × σ) :
    ({ st with steps := keepNewest m (st.steps ++ [e]) } : Store σ).latest = some e.1 := by
  simp only [Store.latest, Store.labels, List.getLast?_map, keepNewest_getLast m hm, Option.map_some]

/-- **exact retention**: after any sequence of save events the directory holds exactly the `m` most recent of
    (what it held before) ++ (the accepted save events), in order -/
theorem applySaves_exact (m : Nat) (hm : 1 ≤ m) (st : Store σ) (saves : List (Nat × σ)) (hlen : st.steps.length ≤ m) :
    (st.applySaves m saves).steps = keepNewest m (st.steps ++ accepted st.latest saves) := by
  induction saves generalizing st with
  | nil => simp [Store.applySaves, accepted, keepNewest_of_le m _ hlen]
  | cons e es ih =>
    simp only [Store.applySaves, List.foldl_cons]
    cases hl : st.latest with
    | none =>
      have hs : st.save m e.1 e.2 = { st with steps := keepNewest m (st.steps ++ [e]) } := by simp [Store.save, hl]
      rw [hs]
      have := ih ({ st with steps := keepNewest m (st.steps ++ [e]) } : Store σ) (keepNewest_length m _)
      simp only [Store.applySaves] at this
      rw [this, latest_after_accept m hm st e]
      simp only [accepted]
      rw [keepNewest_append, List.append_assoc]; rfl
    | some l =>
      by_cases hle : e.1 ≤ l
      · have hs : st.save m e.1 e.2 = st := by simp [Store.save, hl, hle]
        rw [hs]
        have := ih st hlen
        simp only [Store.applySaves] at this
        rw [this, hl]; simp [accepted, hle]
      · have hs : st.save m e.1 e.2 = { st with steps := keepNewest m (st.steps ++ [e]) } := by simp [Store.save, hl, hle]
        rw [hs]
        have := ih ({ st with steps := keepNewest m (st.steps ++ [e]) } : Store σ) (keepNewest_length m _)
        simp only [Store.applySaves] at this
        rw [this, latest_after_accept m hm st e]
        simp only [accepted, hle, if_false]
        rw [keepNewest_append, List.append_assoc]; rfl

theorem iter_iterState (step : σ → σ × Bool) (iter : σ → Nat) (hinc : ∀ s, iter (step s).1 = iter s + 1) (m : Nat) (s : σ) :
    iter (iterState step m s) = iter s + m := by
  induction m generalizing s with
  | zero => simp [iterState]
  | succ m ih => rw [iterState_succ, ih, hinc]; omega

/-- every save event of the loop is labelled at most with the iteration the loop ends at -/
theorem loop_saves_le (step : σ → σ × Bool) (iter : σ → Nat) (hinc : ∀ s, iter (step s).1 = iter s + 1)
    (f k : Nat) (s : σ) (n : Nat) (sv : List (Nat × σ)) :
    ∀ e ∈ (loopBody step iter f k s n sv).saves, e ∈ sv ∨ e.1 ≤ iter (loopBody step iter f k s n sv).state := by
  induction k generalizing s n sv with
  | zero => intro e he; left; simpa [loopBody] using he
  | succ k ih =>
    intro e he
    simp only [loopBody] at he ⊢
    split at he
    · rename_i hd; rw [if_pos hd]; left; exact he
    · rename_i hd
      rw [if_neg hd]
      rcases ih _ _ _ e he with h | h
      · split at h
        · rcases List.mem_append.mp h with h' | h'
          · left; exact h'
          · right
            simp only [List.mem_singleton] at h'
            obtain ⟨m, _, _, h3, _⟩ := loopBody_spec step iter f k (step s).1 (n + 1)
              (if f ≠ 0 ∧ iter (step s).1 % f = 0 then sv ++ [(iter (step s).1, (step s).1)] else sv)
            rw [h3, iter_iterState step iter hinc, h']; simp
        · left; exact h
      · right; exact h

theorem latest_applySaves (m : Nat) (hm : 1 ≤ m) (st : Store σ) (saves : List (Nat × σ)) (N : Nat)
    (hst : ∀ l, st.latest = some l → l ≤ N) (hall : ∀ e ∈ saves, e.1 ≤ N) (hlast : saves.getLast?.map (·.1) = some N) :
    (st.applySaves m saves).latest = some N := by
  induction saves generalizing st with
  | nil => simp at hlast
  | cons e es ih =>
    simp only [Store.applySaves, List.foldl_cons]
    have hst' : ∀ l, (st.save m e.1 e.2).latest = some l → l ≤ N := by
      intro l hl
      unfold Store.save at hl
      split at hl
      · rename_i l0 hl0
        split at hl
        · exact hst l hl
        · rw [latest_after_accept m hm st e] at hl; cases hl; exact hall e (by simp)
      · rw [latest_after_accept m hm st e] at hl; cases hl; exact hall e (by simp)
    cases es with
    | nil =>
      simp only [List.foldl_nil]
      simp at hlast
      unfold Store.save
      split
      · rename_i l0 hl0
        split
        · rename_i hle
          have := hst l0 hl0
          rw [hl0]; congr 1; omega
        · rw [latest_after_accept m hm st e, hlast]
      · rw [latest_after_accept m hm st e, hlast]
    | cons e2 es2 =>
      have := ih (st.save m e.1 e.2) hst' (fun x hx => hall x (by simp [hx])) (by simpa using hlast)
      simpa [Store.applySaves] using this

/-- **the last iteration of the most recent `solve()` call is always the newest checkpoint in the directory** (frequency > 0,
    retention ≥ 1), provided the directory holds nothing newer than the state the call started from -/
theorem final_iteration_retained (m : Nat) (hm : 1 ≤ m) (f : Nat) (hf : f ≠ 0) (st : Store σ)
    (step : σ → σ × Bool) (iter : σ → Nat) (finish : Bool → σ → σ) (hinc : ∀ s, iter (step s).1 = iter s + 1)
    (k : Nat) (s : σ) (hst : ∀ l, st.latest = some l → l ≤ iter s) :
    (st.applySaves m (solveCall step iter finish f k s).saves).latest = some (iter (solveLoop step iter f k s).state) := by
  have hstate : (solveLoop step iter f k s).state = (loopBody step iter f k s 0 []).state := by simp [solveLoop]
  obtain ⟨mm, _, _, h3, _⟩ := loopBody_spec step iter f k s 0 []
  have hN : iter (loopBody step iter f k s 0 []).state = iter s + mm := by rw [h3, iter_iterState step iter hinc]
  apply latest_applySaves m hm st _ _
  · intro l hl; have := hst l hl; rw [hstate, hN]; omega
  · intro e he
    simp only [solveCall, solveLoop, if_pos hf] at he
    rcases List.mem_append.mp he with h | h
    · rcases loop_saves_le step iter hinc f k s 0 [] e h with h' | h'
      · simp at h'
      · rw [hstate]; exact h'
    · simp only [List.mem_singleton] at h; rw [h, hstate]; exact Nat.le_refl _
  · rw [final_always_saved step iter finish f k hf s]; simp

/-- non-vacuity of `applySaves_exact`: the accepted events of 2,4,5,5 are 2,4,5 -/
example : accepted (none : Option Nat) [(2, 20), (4, 40), (5, 50), (5, 51)] = [(2, 20), (4, 40), (5, 50)] := by decide

/-! non-vacuity: frequency 2, retention 2, labels 2,4,5,5 into an empty store leaves 4 and 5 -/
example : ((({} : Store Nat).applySaves 2 [(2, 20), (4, 40), (5, 50), (5, 51)]).steps) = [(4, 40), (5, 50)] := by decide

end MdpaxV.C12
