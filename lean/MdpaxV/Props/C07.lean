/-
C07 — Periodic value iteration: plain VI iterates with the documented period-span stop.
`Vn n` denotes the n-th plain value-iteration iterate of the problem's initial values.
-/
import MdpaxV.Props.C04
import Mathlib.Data.Nat.ModEq
set_option linter.unusedSectionVars false
namespace MdpaxV.C07
open MdpaxV
variable {α : Type} [Field α] [LinearOrder α] [IsStrictOrderedRing α]
variable (P : Problem α) (c : BatchCfg) (γ ε : α) (p : Nat)

/-- n-th iterate of standard value iteration from the problem's initial values -/
def Vn (n : Nat) : List α := (fun V => sweep P c γ V 0)^[n] (initValues P c 0)

theorem Vn_succ (n : Nat) : Vn P c γ (n+1) = sweep P c γ (Vn P c γ n) 0 := by
  simp [Vn, Function.iterate_succ_apply']

/-! modular arithmetic of the ring buffer (variable modulus) -/
theorem mod_ne_of_lt (a j : Nat) (hj1 : 1 ≤ j) (hjp : j ≤ p) (hja : j ≤ a) :
    (a - j) % (p + 1) ≠ a % (p + 1) := by
  intro h
  have h1 : (a - j) ≡ a [MOD (p+1)] := h
  have h2 : (a - j) + j ≡ (a - j) + 0 [MOD (p+1)] := by
    have : a - j + j = a := Nat.sub_add_cancel hja
    rw [this, Nat.add_zero]; exact h1.symm
  have h3 := Nat.ModEq.add_left_cancel' (a - j) h2
  have : j % (p+1) = 0 := by simpa [Nat.ModEq] using h3
  rw [Nat.mod_eq_of_lt (by omega)] at this
  omega

theorem ring_idx_back (n q : Nat) (hq : q ≤ p) (hqn : q ≤ n) :
    (n % (p + 1) + (p + 1) - q % (p + 1)) % (p + 1) = (n - q) % (p + 1) := by
  rw [Nat.mod_eq_of_lt (show q < p + 1 by omega)]
  have e1 : n % (p + 1) + (p + 1) - q = n % (p + 1) + (p + 1 - q) := by omega
  rw [e1, Nat.mod_add_mod]
  have e2 : n + (p + 1 - q) = (n - q) + (p + 1) := by omega
  rw [e2, Nat.add_mod_right]

theorem ring_idx_prev (k : Nat) (hk : 1 ≤ k) : (k % (p + 1) + p) % (p + 1) = (k - 1) % (p + 1) := by
  rw [Nat.mod_add_mod]
  have e : k + p = (k - 1) + (p + 1) := by omega
  rw [e, Nat.add_mod_right]

theorem getD_set_eq {β : Type} (l : List β) (i : Nat) (v d : β) (hi : i < l.length) : (l.set i v).getD i d = v := by
  simp [List.getD_eq_getElem?_getD, List.getElem?_set, hi]

theorem getD_set_ne {β : Type} (l : List β) (i k : Nat) (v d : β) (h : k ≠ i) : (l.set i v).getD k d = l.getD k d := by
  simp [List.getD_eq_getElem?_getD, List.getElem?_set, Ne.symm h]

/-- **ring-buffer invariant**, for histories that wrap any number of times: after n iterations from a fresh solver
    the values are the n-th VI iterate, the counter is n, `history_index = n mod (period+1)`, and for every
    j ≤ min n period the slot `(n − j) mod (period+1)` holds the iterate `V_{n−j}` -/
theorem ring_invariant (n : Nat) :
    let s := iterState (periodicStep P c γ ε p) n (periodicInit P c p)
    s.values = Vn P c γ n ∧ s.iter = n ∧ s.hidx = n % (p + 1) ∧
    ∃ hist, s.hist = some hist ∧ hist.length = p + 1 ∧
      ∀ j, j ≤ p → j ≤ n → hist.getD ((n - j) % (p + 1)) [] = Vn P c γ (n - j) := by
  induction n with
  | zero =>
    refine ⟨by simp [iterState, periodicInit, Vn], by simp [iterState, periodicInit], by simp [iterState, periodicInit], ?_⟩
    refine ⟨initValues P c 0 :: List.replicate p (List.replicate P.nS 0), by simp [iterState, periodicInit], by simp, ?_⟩
    intro j _ hj0
    have : j = 0 := by omega
    subst this; simp [Vn]
  | succ n ih =>
    obtain ⟨hv, hi, hh, hist, hhist, hlen, hslots⟩ := ih
    rw [iterState_succ']
    set s := iterState (periodicStep P c γ ε p) n (periodicInit P c p) with hs
    have hidx : (s.hidx + 1) % (p + 1) = (n + 1) % (p + 1) := by rw [hh, Nat.mod_add_mod]
    have hlt : (n + 1) % (p + 1) < hist.length := by rw [hlen]; exact Nat.mod_lt _ (by omega)
    have e1 : (periodicStep P c γ ε p s).1.values = Vn P c γ (n+1) := by
      simp only [periodicStep, hv]; exact (Vn_succ P c γ n).symm
    have e2 : (periodicStep P c γ ε p s).1.iter = n + 1 := by simp only [periodicStep, hi]
    have e3 : (periodicStep P c γ ε p s).1.hidx = (n + 1) % (p + 1) := by simp only [periodicStep, hidx]
    have e4 : (periodicStep P c γ ε p s).1.hist = some (hist.set ((n + 1) % (p + 1)) (Vn P c γ (n+1))) := by
      simp only [periodicStep, hhist, Option.getD_some, hidx, hv, ← Vn_succ]
    refine ⟨e1, e2, e3, _, e4, by simp [hlen], ?_⟩
    intro j hjp hjn
    by_cases hj0 : j = 0
    · subst hj0
      simp only [Nat.sub_zero]
      exact getD_set_eq _ _ _ _ hlt
    · have hne := mod_ne_of_lt p (n+1) j (by omega) hjp hjn
      rw [getD_set_ne _ _ _ _ _ hne]
      have : n + 1 - j = n - (j - 1) := by omega
      rw [this]; exact hslots (j-1) (by omega) (by omega)

/-- the value component is exactly standard value iteration (so C02/C03 transfer) -/
theorem periodic_values_are_vi (n : Nat) :
    (iterState (periodicStep P c γ ε p) n (periodicInit P c p)).values = Vn P c γ n :=
  (ring_invariant P c γ ε p n).1

/-- the documented measure of the sweep that produces iteration `n+1`, as the loop computes it -/
theorem measure_next_eq (n : Nat) :
    periodicMeasureNext P c γ p (iterState (periodicStep P c γ ε p) n (periodicInit P c p)) =
      periodicMeasure ((((iterState (periodicStep P c γ ε p) n (periodicInit P c p)).hist).getD []).set ((n+1) % (p+1)) (Vn P c γ (n+1)))
        ((n+1) % (p+1)) p (n+1) γ (Vn P c γ (n+1)) P.nS := by
  obtain ⟨hv, hi, hh, _⟩ := ring_invariant P c γ ε p n
  simp only [periodicMeasureNext, hv, hi, hh, Nat.mod_add_mod, ← Vn_succ]

/-- **never before a full period**: while iteration < period the measure is infinite, for every ε -/
theorem never_before_period (n : Nat) (hn : n + 1 < p) :
    (periodicStep P c γ ε p (iterState (periodicStep P c γ ε p) n (periodicInit P c p))).2 = false := by
  obtain ⟨_, hi, _⟩ := ring_invariant P c γ ε p n
  simp only [periodicStep, periodicMeasure, hi, if_pos hn]

/-- undiscounted measure, n ≥ period: span of `V_n − V_{n−period}` -/
theorem measure_undiscounted (n : Nat) (hn : p ≤ n + 1) :
    periodicMeasureNext P c 1 p (iterState (periodicStep P c 1 ε p) n (periodicInit P c p)) =
      some (spanOf (Vn P c 1 (n+1)) (Vn P c 1 (n + 1 - p))) := by
  rw [measure_next_eq]
  obtain ⟨_, _, _, hist, hhist, hlen, hslots⟩ := ring_invariant P c 1 ε p n
  simp only [periodicMeasure, hhist, Option.getD_some, if_neg (show ¬ n + 1 < p by omega), if_true]
  congr 2
  have hidx : ((n + 1) % (p + 1) + 1) % (p + 1) = (n + 1 - p) % (p + 1) := by
    rw [Nat.mod_add_mod]
    have e : n + 1 + 1 = (n + 1 - p) + (p + 1) := by omega
    rw [e, Nat.add_mod_right]
  rw [hidx]
  by_cases hp0 : p = 0
  · subst hp0
    simp only [Nat.sub_zero]
    exact getD_set_eq _ _ _ _ (by rw [hlen]; exact Nat.mod_lt _ (by omega))
  · have hne := mod_ne_of_lt p (n+1) p (by omega) (Nat.le_refl _) hn
    rw [getD_set_ne _ _ _ _ _ hne]
    have : n + 1 - p = n - (p - 1) := by omega
    rw [this]; exact hslots (p-1) (by omega) (by omega)

theorem foldl_congr_mem {β δ : Type} (f g : β → δ → β) (l : List δ) (a : β)
    (h : ∀ acc x, x ∈ l → f acc x = g acc x) : l.foldl f a = l.foldl g a := by
  induction l generalizing a with
  | nil => rfl
  | cons x xs ih =>
    simp only [List.foldl_cons]
    rw [h a x (by simp)]
    exact ih _ (fun acc y hy => h acc y (by simp [hy]))

/-- the documented discounted quantity: Σ over the last `period` sweeps j = n−q of (V_j − V_{j−1}) / γ^(j−1) -/
def docDeltas (n : Nat) : List α :=
  (List.range p).foldl (fun acc q =>
    vadd acc ((vsub (Vn P c γ (n - q)) (Vn P c γ (n - q - 1))).map fun x => divPow x γ (n - q - 1))) (List.replicate P.nS 0)

/-- discounted measure, n ≥ period: span of the documented sum -/
theorem measure_discounted (hγ : γ ≠ 1) (n : Nat) (hn : p ≤ n + 1) :
    periodicMeasureNext P c γ p (iterState (periodicStep P c γ ε p) n (periodicInit P c p)) =
      some (maxList (docDeltas P c γ p (n+1)) - minList (docDeltas P c γ p (n+1))) := by
  rw [measure_next_eq]
  obtain ⟨_, _, _, hist, hhist, hlen, hslots⟩ := ring_invariant P c γ ε p n
  simp only [periodicMeasure, hhist, Option.getD_some, if_neg (show ¬ n + 1 < p by omega), if_neg hγ]
  have hlt : (n + 1) % (p + 1) < hist.length := by rw [hlen]; exact Nat.mod_lt _ (by omega)
  -- every slot (n+1-j) mod (p+1), j ≤ p, of the updated history holds V_{n+1-j}
  have hslot' : ∀ j, j ≤ p → j ≤ n + 1 →
      (hist.set ((n+1) % (p+1)) (Vn P c γ (n+1))).getD ((n + 1 - j) % (p + 1)) [] = Vn P c γ (n + 1 - j) := by
    intro j hjp hjn
    by_cases hj0 : j = 0
    · subst hj0; exact getD_set_eq _ _ _ _ hlt
    · have hne := mod_ne_of_lt p (n+1) j (by omega) hjp hjn
      rw [getD_set_ne _ _ _ _ _ hne]
      have : n + 1 - j = n - (j - 1) := by omega
      rw [this]; exact hslots (j-1) (by omega) (by omega)
  have : periodDeltas (hist.set ((n+1) % (p+1)) (Vn P c γ (n+1))) ((n+1) % (p+1)) p (n+1) γ P.nS = docDeltas P c γ p (n+1) := by
    unfold periodDeltas docDeltas
    apply foldl_congr_mem
    intro acc q hq
    have hq' : q < p := List.mem_range.mp hq
    simp only []
    rw [ring_idx_back p (n+1) q (by omega) (by omega), ring_idx_prev p (n + 1 - q) (by omega),
      hslot' q (by omega) (by omega)]
    have : n + 1 - q - 1 = n + 1 - (q + 1) := by omega
    rw [this, hslot' (q+1) (by omega) (by omega)]
  rw [this]

/-- stops at the first iteration whose measure is below ε (instance of C08), never before `period`,
    and the returned policy is greedy for the returned values -/
theorem periodic_stops_first (clear : Bool) (f k : Nat) (s : SState α) :
    let r := periodicSolve P c γ ε p clear f k s
    (r.converged = true → 1 ≤ r.sweeps ∧ (periodicStep P c γ ε p (iterState (periodicStep P c γ ε p) (r.sweeps - 1) s)).2 = true ∧
        ∀ j, j + 1 < r.sweeps → (periodicStep P c γ ε p (iterState (periodicStep P c γ ε p) j s)).2 = false) ∧
    (r.converged = false → r.sweeps = k) ∧
    r.state.policy = some (policy P c γ r.state.values 0) := by
  obtain ⟨h1, h2, h3⟩ := C08.solve_first_below (periodicStep P c γ ε p) (·.iter) (periodicFinish P c γ clear) f k s
  simp only [periodicSolve]
  refine ⟨h2, fun h => (h3 h).1, ?_⟩
  rw [h1]
  simp only [periodicFinish, viFinish]
  split <;> rfl

/-! ### undiscounted unichain case: the period-span brackets `period · g` -/

theorem Vn_length (hv : C02.Valid P c) (n : Nat) : (Vn P c γ n).length = P.nS := by
  cases n with
  | zero => simp [Vn, C08.initValues_def P c hv 0]
  | succ n => rw [Vn_succ]; exact C01.sweep_length P c hv γ _ 0

theorem Vn_add_eq_iterate (hv : C02.Valid P c) (m q : Nat) :
    toFn P.nS (Vn P c γ (m + q)) = (Top P γ)^[q] (toFn P.nS (Vn P c γ m)) := by
  induction q with
  | zero => simp
  | succ q ih =>
    have : m + (q + 1) = (m + q) + 1 := by omega
    rw [this, Vn_succ, sweep_list_eq_Top P c hv γ _ (Vn_length P c γ hv _) 0, toFn_ofFn, ih,
      Function.iterate_succ_apply']

/-- for every solution (g, h) of the optimality equation, every n ≥ period (including chains that are periodic with
    that period, where plain VI does not converge): min(V_n − V_{n−p}) ≤ p·g ≤ max(V_n − V_{n−p}).  Hence when
    the undiscounted measure sp(V_n − V_{n−p}) is below ε, every component of (V_n − V_{n−p})/p is within ε/p of g. -/
theorem periodic_gain_bracket (hv : C02.Valid P c) (hA : 0 < P.nA) (hst : Stoch P) (hp : 0 < p)
    (h : Fin P.nS → α) (g : α) (hg : ∀ i, Top P 1 h i = h i + g) (n : Nat) (hn : p ≤ n)
    (hconv : spanOf (Vn P c 1 n) (Vn P c 1 (n - p)) < ε) (i : Fin P.nS) :
    |(toFn P.nS (Vn P c 1 n) i - toFn P.nS (Vn P c 1 (n - p)) i) / p - g| < ε / p := by
  haveI : Nonempty (Fin P.nS) := ⟨⟨0, hv.1⟩⟩
  have hT := Top_monoShift P 1 (by norm_num) hst hv.1 hA
  have hb := periodic_bracket (Top P 1) hT h g hg p (toFn P.nS (Vn P c 1 (n - p)))
  have hVn : toFn P.nS (Vn P c 1 n) = (Top P 1)^[p] (toFn P.nS (Vn P c 1 (n - p))) := by
    have := Vn_add_eq_iterate P c 1 hv (n - p) p
    rwa [Nat.sub_add_cancel hn] at this
  rw [← hVn] at hb
  rw [spanOf_eq_sp P.nS _ _ (Vn_length P c 1 hv _) (Vn_length P c 1 hv _)] at hconv
  unfold sp at hconv
  have h1 := le_vmax (fun i => toFn P.nS (Vn P c 1 n) i - toFn P.nS (Vn P c 1 (n - p)) i) i
  have h2 := vmin_le (fun i => toFn P.nS (Vn P c 1 n) i - toFn P.nS (Vn P c 1 (n - p)) i) i
  have hp' : (0 : α) < p := by exact_mod_cast hp
  rw [abs_lt]
  constructor
  · rw [lt_sub_iff_add_lt, ← sub_eq_neg_add, lt_div_iff₀ hp', sub_mul, div_mul_cancel₀ _ hp'.ne']
    nlinarith [hb.1, hb.2]
  · rw [sub_lt_iff_lt_add, div_lt_iff₀ hp', add_mul, div_mul_cancel₀ _ hp'.ne']
    nlinarith [hb.1, hb.2]

/-- **whole `solve()` call, undiscounted**: whenever periodic value iteration, started fresh with γ = 1, reports convergence after
    `n` sweeps, then `n ≥ period`, the returned values are the n-th plain VI iterate, and for every solution `(g, h)` of the
    average-reward optimality equation every component of `(V_n − V_{n−period}) / period` is within `ε / period` of `g`
    (for every checkpoint frequency, iteration budget and layout, and for chains that are periodic with that period) -/
theorem periodic_solve_gain (hv : C02.Valid P c) (hA : 0 < P.nA) (hst : Stoch P) (hp : 0 < p)
    (h : Fin P.nS → α) (g : α) (hg : ∀ i, Top P 1 h i = h i + g) (clear : Bool) (f k : Nat)
    (hc : (periodicSolve P c 1 ε p clear f k (periodicInit P c p)).converged = true) (i : Fin P.nS) :
    p ≤ (periodicSolve P c 1 ε p clear f k (periodicInit P c p)).sweeps ∧
    (periodicSolve P c 1 ε p clear f k (periodicInit P c p)).state.values =
      Vn P c 1 (periodicSolve P c 1 ε p clear f k (periodicInit P c p)).sweeps ∧
    |(toFn P.nS (Vn P c 1 (periodicSolve P c 1 ε p clear f k (periodicInit P c p)).sweeps) i -
        toFn P.nS (Vn P c 1 ((periodicSolve P c 1 ε p clear f k (periodicInit P c p)).sweeps - p)) i) / p - g| < ε / p := by
  obtain ⟨h1, h2, _⟩ := C08.solve_first_below (periodicStep P c 1 ε p) (·.iter) (periodicFinish P c 1 clear) f k (periodicInit P c p)
  simp only [periodicSolve] at hc ⊢
  obtain ⟨hm, hfire, _⟩ := h2 hc
  set n := (solveCall (periodicStep P c 1 ε p) (fun x => x.iter) (periodicFinish P c 1 clear) f k (periodicInit P c p)).sweeps with hn
  have hn1 : n - 1 + 1 = n := by omega
  have hpn : p ≤ n := by
    by_contra hlt
    have := never_before_period P c 1 ε p (n - 1) (by omega)
    rw [this] at hfire; exact Bool.noConfusion hfire
  obtain ⟨m, hmeas, hmlt⟩ := (C08.periodicStep_done_iff P c 1 ε p _).mp hfire
  rw [measure_undiscounted P c ε p (n - 1) (by omega), hn1] at hmeas
  have hm' := Option.some.inj hmeas
  refine ⟨hpn, ?_, ?_⟩
  · rw [h1]
    have : (periodicFinish P c 1 clear
        (solveCall (periodicStep P c 1 ε p) (fun x => x.iter) (periodicFinish P c 1 clear) f k (periodicInit P c p)).converged
        (iterState (periodicStep P c 1 ε p) n (periodicInit P c p))).values =
        (iterState (periodicStep P c 1 ε p) n (periodicInit P c p)).values := by
      simp only [periodicFinish, viFinish]; split <;> rfl
    rw [this]; exact periodic_values_are_vi P c 1 ε p n
  · exact periodic_gain_bracket P c ε p hv hA hst hp h g hg n hpn (by rw [hm']; exact hmlt) i

/-- the per-step estimate `(V_n − V_{n−p})/p` reported at convergence is within ε/p of the long-run average reward of **every**
    stationary deterministic policy from above: no policy has a gain exceeding any component of the estimate by ε/p or more
    (`g` dominates every policy's gain, `C04.optimal_gain_dominates`) -/
theorem periodic_gain_vs_every_policy (hv : C02.Valid P c) (hA : 0 < P.nA) (hst : Stoch P) (hp : 0 < p)
    (h : Fin P.nS → α) (g : α) (hg : ∀ i, Top P 1 h i = h i + g) (n : Nat) (hn : p ≤ n)
    (hconv : spanOf (Vn P c 1 n) (Vn P c 1 (n - p)) < ε)
    (pol : Fin P.nS → Nat) (hpol : ∀ i, pol i < P.nA) (hd : Fin P.nS → α) (gd : α) (hgd : ∀ i, Tpol P 1 pol hd i = hd i + gd)
    (i : Fin P.nS) :
    gd < (toFn P.nS (Vn P c 1 n) i - toFn P.nS (Vn P c 1 (n - p)) i) / p + ε / p := by
  have h1 := periodic_gain_bracket P c ε p hv hA hst hp h g hg n hn hconv i
  have h2 := C04.optimal_gain_dominates P c hv hA hst h g hg pol hpol hd gd hgd
  have := abs_lt.mp h1
  linarith [this.1, this.2]

end MdpaxV.C07
