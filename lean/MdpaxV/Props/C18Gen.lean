/-
C18 — tie by translation (leaf module: imported by nothing, so that an edit of the translated source affects C18 only).
`Gen.batchInit` is regenerated from /repo's `BatchProcessor.__init__` by harness/translate.py on every run of the C18 check.
-/
import MdpaxV.Props.C18
import MdpaxV.Theory.GenTieBatch
namespace MdpaxV.C18Gen
open MdpaxV MdpaxV.C18

/-- **tie by translation**: `BatchProcessor.__init__` *as written in /repo's source* (translated to `Gen.batchInit` by
    harness/translate.py on every run) computes exactly the model's device count, batch size, batch count and padding, for
    every number of states, maximum batch size and device count ≥ 1 (any `state_dim`).  Together with the theorems above this
    makes the attribute clauses of C18 statements about the code's own arithmetic, not only about sampled executions. -/
theorem init_code_eq_model (c : BatchCfg) (sd : Int) (h : Valid c) :
    Gen.batchInit c.n sd c.maxbs c.dev = ((c.dev : Int), (bsz c : Int), (nb c : Int), npad c) :=
  GenTie.batchInit_eq_model c sd h.2.2

/-- consequently the attributes computed by the code are mutually consistent: slots = states + padding, padding ≥ 0,
    1 ≤ batch_size ≤ max_batch_size, at least one batch, device count as requested -/
theorem init_code_consistent (c : BatchCfg) (sd : Int) (h : Valid c) :
    let r := Gen.batchInit c.n sd c.maxbs c.dev
    r.1 = c.dev ∧ 1 ≤ r.2.1 ∧ r.2.1 ≤ c.maxbs ∧ 1 ≤ r.2.2.1 ∧ 0 ≤ r.2.2.2 ∧ r.1 * r.2.2.1 * r.2.1 = c.n + r.2.2.2 := by
  simp only [init_code_eq_model c sd h]
  have hb := bsz_bounds c h
  have hs := slots_eq c h
  refine ⟨trivial, by exact_mod_cast hb.1, by exact_mod_cast hb.2, by exact_mod_cast hs.2.2, hs.2.1, ?_⟩
  have := hs.1
  unfold slots at this
  push_cast at this
  exact this

example : Gen.batchInit 10 3 4 2 = (2, 4, 2, 6) := by decide

end MdpaxV.C18Gen
