/-
C13 — Shipped problems define a probability distribution for every state-action pair (exact-arithmetic structure).
The special functions (gamma cdf, negative-binomial pmf, softmax) are abstract tables; their numerical accuracy,
non-negativity and monotonicity are assumptions that the harness checks on the tables actually used.
Hendrix: the implementation truncates the demand support; its total mass is **not** one — see known_findings.json.
-/
import MdpaxV.Model.Probs
import MdpaxV.Model.Shipped
import MdpaxV.Props.C19
import MdpaxV.Theory.Hendrix
import Mathlib.Data.List.Perm.Basic
import Mathlib.Algebra.BigOperators.Group.List.Lemmas
import Mathlib.Algebra.BigOperators.Group.List.Basic
import Mathlib.Algebra.BigOperators.Intervals
import Mathlib.Data.Nat.Choose.Sum
import Mathlib.Algebra.Order.Field.Basic
import Mathlib.Algebra.Order.BigOperators.Group.List
import Mathlib.Tactic.Ring
import Mathlib.Tactic.Linarith
set_option linter.unusedSectionVars false
namespace MdpaxV.C13
open MdpaxV
variable {α : Type} [Field α] [LinearOrder α] [IsStrictOrderedRing α]

theorem lsum_eq_sum (l : List α) : lsum l = l.sum := (List.sum_eq_foldl).symm

/-- Forest: for p ∈ [0,1] both action rows are non-negative and sum to one -/
theorem forest_dist (c : ForestCfg α) (hp0 : 0 ≤ c.p) (hp1 : c.p ≤ 1) (s : List Int) (a : Int) (ha : a = 0 ∨ a = 1) :
    forestProb c s [a] [0] + forestProb c s [a] [1] = 1 ∧ 0 ≤ forestProb c s [a] [0] ∧ 0 ≤ forestProb c s [a] [1] := by
  rcases ha with rfl | rfl <;> simp [forestProb] <;> constructor <;> linarith

/-- censoring at the maximum: whatever the table, folding `1 − Σ` into the last bin makes the total exactly one -/
theorem censored_sum_one (l : List α) (h : l ≠ []) : (censored l).sum = 1 := by
  unfold censored
  have hr : l.reverse ≠ [] := by simpa using h
  match hm : l.reverse, hr with
  | last :: revInit, _ =>
    simp only [List.sum_reverse, List.sum_cons]
    have : l.sum = last + revInit.sum := by
      have := congrArg List.sum hm
      rwa [List.sum_reverse, List.sum_cons] at this
    rw [lsum_eq_sum, this]; ring

/-- … and every bin stays non-negative when the table is non-negative with partial sum ≤ 1 -/
theorem censored_nonneg (l : List α) (hnn : ∀ x ∈ l, 0 ≤ x) (hle : l.sum ≤ 1) : ∀ x ∈ censored l, 0 ≤ x := by
  unfold censored
  match hm : l.reverse with
  | [] => intro x hx; simp at hx
  | last :: revInit =>
    intro x hx
    simp only [List.mem_reverse, List.mem_cons] at hx
    have hmem : ∀ y ∈ last :: revInit, y ∈ l := by intro y hy; rw [← hm] at hy; simpa using hy
    rcases hx with rfl | hx
    · have := hnn last (hmem last (by simp))
      rw [lsum_eq_sum]; linarith
    · exact hnn x (hmem x (by simp [hx]))

theorem diffs_sum (x : α) (l : List α) : (diffs (x :: l)).sum = l.getLastD x - x := by
  induction l generalizing x with
  | nil => simp [diffs]
  | cons y ys ih =>
    simp only [diffs, List.sum_cons, ih y, List.getLastD_cons]
    ring

/-- non-decreasing table -/
def Mono : List α → Prop
  | x :: y :: rest => x ≤ y ∧ Mono (y :: rest)
  | _ => True

/-- De Moor: the discretised, censored demand law sums to one for **any** cdf table with at least two points,
    and is non-negative when the table is non-decreasing and F(D+½) − F(0) ≤ 1 -/
theorem demoor_dist (c0 c1 : α) (rest : List α) :
    (deMoorProbs (c0 :: c1 :: rest)).sum = 1 ∧
    (Mono (c0 :: c1 :: rest) → (c1 :: rest).getLastD c0 ≤ 1 + c0 →
      ∀ x ∈ deMoorProbs (c0 :: c1 :: rest), 0 ≤ x) := by
  constructor
  · exact censored_sum_one _ (by simp [diffs])
  · intro hmono h1
    apply censored_nonneg
    · have : ∀ (x : α) (l : List α), Mono (x :: l) → ∀ d ∈ diffs (x :: l), 0 ≤ d := by
        intro x l
        induction l generalizing x with
        | nil => intro _ d hd; simp [diffs] at hd
        | cons y ys ih =>
          intro hch d hd
          simp only [diffs, List.mem_cons] at hd
          simp only [Mono] at hch
          rcases hd with rfl | hd
          · linarith [hch.1]
          · exact ih y hch.2 d hd
      exact this c0 (c1 :: rest) hmono
    · rw [diffs_sum]; linarith

/-! ### Mirjalili: product structure and the multinomial theorem -/

theorem choose_eq (n k : Nat) : MdpaxV.choose n k = Nat.choose n k := by
  induction n generalizing k with
  | zero => cases k <;> simp [MdpaxV.choose]
  | succ n ih => cases k <;> simp [MdpaxV.choose, Nat.choose, ih]

theorem splits_sum (m n : Nat) : ∀ ks ∈ splits m n, ks.sum = n := by
  induction m generalizing n with
  | zero => cases n <;> simp [splits]
  | succ m ih =>
    intro ks hks
    simp only [splits, List.mem_flatMap, List.mem_range, List.mem_map] at hks
    obtain ⟨i, hi, rest, hrest, rfl⟩ := hks
    have := ih (n - i) rest hrest
    simp [this]; omega

/-- multinomial theorem over the list model: Σ over all splits of n into |ps| classes of n!/∏kᵢ! · ∏ pᵢ^kᵢ = (Σ p)ⁿ -/
theorem sum_multinomial (ps : List α) (n : Nat) :
    ((splits ps.length n).map (multinomialPmf ps)).sum = ps.sum ^ n := by
  induction ps generalizing n with
  | nil => cases n <;> simp [splits, multinomialPmf, multi, powProd]
  | cons p ps ih =>
    simp only [List.length_cons, splits, List.map_flatMap, List.map_map, List.sum_cons]
    have inner : ∀ i, i ≤ n →
        (((splits ps.length (n - i)).map (multinomialPmf (p :: ps) ∘ (i :: ·)))).sum
          = (Nat.choose n i : α) * p ^ i * ps.sum ^ (n - i) := by
      intro i hi
      rw [← ih (n - i), ← List.sum_map_mul_left]
      congr 1
      apply List.map_congr_left
      intro ks hks
      have hs := splits_sum ps.length (n - i) ks hks
      simp only [Function.comp, multinomialPmf, multi, powProd, hs, choose_eq]
      have : i + (n - i) = n := by omega
      rw [this]; push_cast; ring
    have hl : ∀ (g : Nat → α) (N : Nat), ((List.range N).map g).sum = ∑ i ∈ Finset.range N, g i := by
      intro g N
      induction N with
      | zero => simp
      | succ N ihN => rw [List.range_succ, List.map_append, List.sum_append, ihN, Finset.sum_range_succ]; simp
    have step : ((List.range (n + 1)).map fun i =>
        ((splits ps.length (n - i)).map (multinomialPmf (p :: ps) ∘ (i :: ·))).sum)
        = (List.range (n + 1)).map fun i => (Nat.choose n i : α) * p ^ i * ps.sum ^ (n - i) := by
      apply List.map_congr_left
      intro i hi
      exact inner i (by simp at hi; omega)
    have hfm : ∀ (l : List Nat) (F : Nat → List α), (l.flatMap F).sum = (l.map fun a => (F a).sum).sum := by
      intro l F; induction l with
      | nil => simp
      | cons a l ihl => simp [List.flatMap_cons, List.sum_append, ihl]
    rw [hfm, step, hl, add_pow]
    apply Finset.sum_congr rfl
    intro i _; ring

/-- category probabilities summing to one ⇒ the split probabilities over all splits of the order sum to one -/
theorem multinomial_total (ps : List α) (hps : ps.sum = 1) (n : Nat) :
    ((splits ps.length n).map (multinomialPmf ps)).sum = 1 := by
  rw [sum_multinomial, hps, one_pow]

/-- product structure of a Mirjalili row: for any list of received-order combinations and demands,
    Σ_{(d,k)} P(d)·recv(k) = (Σ_d P(d)) · (Σ_k recv(k)) -/
theorem mirjalili_row_factorises (combos : List (List Nat)) (demands : List Nat) (demandP : Nat → α) (recv : List Nat → α) :
    ((combos.flatMap fun k => demands.map fun d => demandP d * recv k)).sum =
      (demands.map demandP).sum * (combos.map recv).sum := by
  induction combos with
  | nil => simp
  | cons k ks ih =>
    simp only [List.flatMap_cons, List.sum_append, ih, List.map_cons, List.sum_cons]
    have : ∀ (dl : List Nat), (dl.map fun d => demandP d * recv k).sum = (dl.map demandP).sum * recv k := by
      intro dl
      induction dl with
      | nil => simp
      | cons d ds ihd => simp only [List.map_cons, List.sum_cons, ihd]; ring
    rw [this]; ring

/-- splits that do not sum to the order contribute nothing -/
theorem mirjaliliProb_off_simplex (demandP : Nat → α) (cat : Nat → List α) (order d : Nat) (k : List Nat) (h : k.sum ≠ order) :
    mirjaliliProb demandP cat order d k = 0 := by
  simp [mirjaliliProb, h]


/-! ### Mirjalili: the event space lists exactly the multinomial support, so every row sums to one -/


theorem splits_length (m n : Nat) : ∀ ks ∈ splits m n, ks.length = m := by
  induction m generalizing n with
  | zero => cases n <;> simp [splits]
  | succ m ih =>
    intro ks hks
    simp only [splits, List.mem_flatMap, List.mem_range, List.mem_map] at hks
    obtain ⟨i, _, rest, hrest, rfl⟩ := hks
    simp [ih (n - i) rest hrest]

theorem splits_mem (m n : Nat) (ks : List Nat) : ks ∈ splits m n ↔ ks.length = m ∧ ks.sum = n := by
  constructor
  · intro h; exact ⟨splits_length m n ks h, splits_sum m n ks h⟩
  · rintro ⟨hl, hs⟩
    induction m generalizing n ks with
    | zero =>
      have : ks = [] := List.length_eq_zero_iff.mp hl
      subst this; simp at hs; subst hs; simp [splits]
    | succ m ih =>
      cases ks with
      | nil => simp at hl
      | cons k ks =>
        simp only [List.length_cons, Nat.add_right_cancel_iff] at hl
        simp only [List.sum_cons] at hs
        simp only [splits, List.mem_flatMap, List.mem_range, List.mem_map]
        exact ⟨k, by omega, ks, ih (n - k) ks hl (by omega), rfl⟩

theorem splits_nodup (m n : Nat) : (splits m n).Nodup := by
  induction m generalizing n with
  | zero => cases n <;> simp [splits]
  | succ m ih =>
    simp only [splits]
    rw [List.nodup_flatMap]
    constructor
    · intro i _
      exact (ih (n - i)).map (fun a b h => by simpa using h)
    · refine List.Pairwise.imp_of_mem ?_ (List.nodup_range (n := n + 1))
      intro a b _ _ hab
      simp only [Function.onFun, List.disjoint_left, List.mem_map]
      rintro x ⟨r, _, rfl⟩ ⟨r', _, h⟩
      simp at h; exact hab h.1.symm


theorem dimsOf_replicate (m : Nat) (Q : Nat) :
    dimsOf (List.replicate m 0) (List.replicate m (Q : Int)) = List.replicate m (Q + 1) := by
  induction m with
  | zero => simp [dimsOf]
  | succ m ih => simp only [List.replicate_succ, dimsOf, ih]; congr 1

theorem inBox_replicate (m Q : Nat) (k : List Int) :
    C19.InBox (List.replicate m 0) (List.replicate m (Q + 1)) k ↔ k.length = m ∧ ∀ x ∈ k, 0 ≤ x ∧ x ≤ (Q : Int) := by
  induction m generalizing k with
  | zero => cases k <;> simp [C19.InBox]
  | succ m ih =>
    cases k with
    | nil => simp [C19.InBox, List.replicate_succ]
    | cons x xs =>
      simp only [List.replicate_succ, C19.InBox, ih xs, List.length_cons, List.mem_cons, forall_eq_or_imp]
      constructor
      · rintro ⟨h1, h2, h3, h4⟩; exact ⟨by omega, ⟨h1, by push_cast at h2; omega⟩, h4⟩
      · rintro ⟨h1, ⟨h2, h3⟩, h4⟩; exact ⟨h2, by push_cast; omega, by omega, h4⟩

theorem sumI_eq_sum (k : List Int) : sumI k = k.sum := (List.sum_eq_foldl).symm

theorem sum_toNat (k : List Int) (h : ∀ x ∈ k, 0 ≤ x) : ((k.map Int.toNat).sum : Int) = k.sum := by
  induction k with
  | nil => simp
  | cons x xs ih =>
    simp only [List.map_cons, List.sum_cons, Nat.cast_add]
    rw [ih (fun y hy => h y (by simp [hy])), Int.toNat_of_nonneg (h x (by simp))]

theorem map_toNat_ofNat (ks : List Nat) : (ks.map (fun (n : Nat) => (n : Int))).map Int.toNat = ks := by
  induction ks with
  | nil => rfl
  | cons k ks ih => simp [ih]

theorem le_sum_of_mem (ks : List Nat) (x : Nat) (h : x ∈ ks) : x ≤ ks.sum := List.le_sum_of_mem h

/-- sum over a list of a function that vanishes outside `p` = sum over the filtered list -/
theorem sum_map_ite {β : Type} (l : List β) (p : β → Prop) [DecidablePred p] (f : β → α) :
    (l.map fun x => if p x then f x else 0).sum = ((l.filter (fun x => decide (p x))).map f).sum := by
  induction l with
  | nil => simp
  | cons a l ih =>
    simp only [List.map_cons, List.sum_cons, List.filter_cons, ih]
    by_cases h : p a <;> simp [h]


/-- the received-order combinations of the Mirjalili event space (all vectors of `m` counts in `0..Q` with total ≤ Q) -/
def combos (m Q : Nat) : List (List Int) :=
  (rangeSpace (List.replicate m 0) (List.replicate m (Q : Int))).filter fun k => decide (sumI k ≤ (Q : Int))

theorem mem_combos (m Q : Nat) (k : List Int) :
    k ∈ combos m Q ↔ k.length = m ∧ (∀ x ∈ k, 0 ≤ x ∧ x ≤ (Q : Int)) ∧ k.sum ≤ (Q : Int) := by
  unfold combos rangeSpace
  rw [List.mem_filter, dimsOf_replicate, C19.space_mem _ _ (by simp), inBox_replicate, sumI_eq_sum]
  simp [and_assoc]

/-- **the splits of an order that the event space lists are exactly the multinomial support**: for `order ≤ Q`, the
    combinations whose total is `order` are, up to order, the vectors of `splits m order` -/
theorem combos_perm_splits (m Q order : Nat) (ho : order ≤ Q) :
    (((combos m Q).map (·.map Int.toNat)).filter fun ks => decide (ks.sum = order)).Perm (splits m order) := by
  rw [List.perm_ext_iff_of_nodup]
  · intro ks
    simp only [List.mem_filter, List.mem_map, decide_eq_true_eq, splits_mem]
    constructor
    · rintro ⟨⟨k, hk, rfl⟩, hs⟩
      obtain ⟨hl, _, _⟩ := (mem_combos m Q k).mp hk
      exact ⟨by simp [hl], hs⟩
    · rintro ⟨hl, hs⟩
      refine ⟨⟨ks.map (fun (n : Nat) => (n : Int)), ?_, map_toNat_ofNat ks⟩, hs⟩
      rw [mem_combos]
      refine ⟨by simp [hl], ?_, ?_⟩
      · intro x hx
        simp only [List.mem_map] at hx
        obtain ⟨n, hn, rfl⟩ := hx
        have := List.le_sum_of_mem hn
        constructor
        · exact Int.natCast_nonneg n
        · exact_mod_cast (by omega : n ≤ Q)
      · have : ((ks.map (fun (n : Nat) => (n : Int))).sum : Int) = (ks.sum : Nat) := by
          induction ks with
          | nil => simp
          | cons a as ih => simp
        rw [this]; exact_mod_cast (by omega : ks.sum ≤ Q)
  · apply List.Nodup.filter
    apply List.Nodup.map_on
    · intro a ha b hb hab
      obtain ⟨_, hna, _⟩ := (mem_combos m Q a).mp ha
      obtain ⟨_, hnb, _⟩ := (mem_combos m Q b).mp hb
      have := congrArg (List.map (fun (n : Nat) => (n : Int))) hab
      rw [List.map_map, List.map_map] at this
      have ea : a.map ((fun (n : Nat) => (n : Int)) ∘ Int.toNat) = a := by
        conv_rhs => rw [← List.map_id a]
        apply List.map_congr_left; intro x hx
        simp only [Function.comp, id]; exact Int.toNat_of_nonneg (hna x hx).1
      have eb : b.map ((fun (n : Nat) => (n : Int)) ∘ Int.toNat) = b := by
        conv_rhs => rw [← List.map_id b]
        apply List.map_congr_left; intro x hx
        simp only [Function.comp, id]; exact Int.toNat_of_nonneg (hnb x hx).1
      rw [ea, eb] at this; exact this
    · unfold combos rangeSpace
      exact (C19.space_nodup _ _).filter _
  · exact splits_nodup m order


theorem row_factorises {κ : Type} (cs : List κ) (demands : List Nat) (demandP : Nat → α) (recv : κ → α) :
    ((cs.flatMap fun k => demands.map fun d => demandP d * recv k)).sum =
      (demands.map demandP).sum * (cs.map recv).sum := by
  induction cs with
  | nil => simp
  | cons k ks ih =>
    simp only [List.flatMap_cons, List.sum_append, ih, List.map_cons, List.sum_cons]
    have : ∀ (dl : List Nat), (dl.map fun d => demandP d * recv k).sum = (dl.map demandP).sum * recv k := by
      intro dl
      induction dl with
      | nil => simp
      | cons d ds ihd => simp only [List.map_cons, List.sum_cons, ihd]; ring
    rw [this]; ring

theorem powProd_nonneg (ps : List α) (hc : ∀ p ∈ ps, 0 ≤ p) (ks : List Nat) : 0 ≤ powProd ps ks := by
  induction ps generalizing ks with
  | nil => cases ks <;> simp [powProd]
  | cons p ps ih =>
    cases ks with
    | nil => simp [powProd]
    | cons k ks =>
      simp only [powProd]
      exact mul_nonneg (pow_nonneg (hc p (by simp)) k) (ih (fun q hq => hc q (by simp [hq])) ks)

/-- the row, event by event: combination-major, demand-minor, each entry `P(d) · recv(k)` -/
theorem mirjaliliRow_eq {β : Type} (c : MirjaliliCfg β) (demandP : Nat → α) (cat : Nat → List α) (order : Nat) :
    mirjaliliRow c demandP cat order =
      (combos c.m c.Q).flatMap fun k => (List.range (c.maxDemand + 1)).map fun d =>
        demandP d * (if (k.map Int.toNat).sum = order then multinomialPmf (cat order) (k.map Int.toNat) else 0) := by
  simp only [mirjaliliRow, mirjaliliEvents, combos, List.map_flatMap, List.map_map]
  rfl

/-- **Mirjalili: every (weekday, order) row is a probability distribution** — for every useful life `m`, order cap `Q`,
    demand cap, every order `≤ Q`, every demand table summing to one over `0..maxDemand` (the censored negative binomial)
    and every category table of length `m` summing to one (the softmax of the logits): the probabilities of all events sum to one -/
theorem mirjalili_dist {β : Type} (c : MirjaliliCfg β) (demandP : Nat → α) (cat : Nat → List α) (order : Nat)
    (ho : order ≤ c.Q) (hd : ((List.range (c.maxDemand + 1)).map demandP).sum = 1)
    (hcl : (cat order).length = c.m) (hcs : (cat order).sum = 1) :
    (mirjaliliRow c demandP cat order).sum = 1 := by
  rw [mirjaliliRow_eq]
  have h1 := row_factorises (combos c.m c.Q) (List.range (c.maxDemand + 1)) demandP
    (fun k => if (k.map Int.toNat).sum = order then multinomialPmf (cat order) (k.map Int.toNat) else 0)
  rw [h1, hd, one_mul]
  have h2 : ((combos c.m c.Q).map fun k => if (k.map Int.toNat).sum = order then multinomialPmf (cat order) (k.map Int.toNat) else 0)
      = (((combos c.m c.Q).map (·.map Int.toNat)).map fun ks => if ks.sum = order then multinomialPmf (cat order) ks else 0) := by
    rw [List.map_map]; rfl
  rw [h2]
  have h3 := sum_map_ite ((combos c.m c.Q).map (·.map Int.toNat)) (fun ks => ks.sum = order) (multinomialPmf (cat order))
  rw [h3, ((combos_perm_splits c.m c.Q order ho).map _).sum_eq, ← hcl]
  exact multinomial_total (cat order) hcs order

/-- … and every entry is non-negative when the tables are -/
theorem mirjalili_nonneg {β : Type} (c : MirjaliliCfg β) (demandP : Nat → α) (cat : Nat → List α) (order : Nat)
    (hd : ∀ d, 0 ≤ demandP d) (hc : ∀ p ∈ cat order, 0 ≤ p) :
    ∀ x ∈ mirjaliliRow c demandP cat order, 0 ≤ x := by
  intro x hx
  simp only [mirjaliliRow, List.mem_map] at hx
  obtain ⟨ev, _, rfl⟩ := hx
  unfold mirjaliliProb
  apply mul_nonneg (hd _)
  split
  · unfold multinomialPmf
    apply mul_nonneg (Nat.cast_nonneg _)
    exact powProd_nonneg _ hc _
  · exact le_refl 0

/-! ### Hendrix: total mass of a row (the exact form of the recorded finding) -/
section HendrixMass
open MdpaxV.Hendrix Finset
/-- **total mass of a row**: P(d_B < y) · (P(d_A < x) + tail_A(x)) + Σ_{z ≤ D} pz[z, y].  With an exact tail table the first factor is
    P(d_B < y); the second term is the mass of {d_B ≥ y} that survives the truncation d_B < D, d_A + u ≤ D — strictly less than
    P(d_B ≥ y) whenever the Poisson demands have mass beyond the truncation point (the recorded C13 finding) -/
theorem hendrix_row_sum (t : HendrixTab α) (x y : Nat) (hx : x ≤ t.maxA) (hy : y ≤ t.maxB) (hA : t.maxA ≤ t.D) :
    (hendrixRow t x y).sum =
      (∑ ib ∈ range y, t.pb ib) * (∑ ia ∈ range x, t.pa ia + t.tailA x) + ∑ z ∈ range (t.D + 1), hendrixPz t z y := by
  have hrow : (hendrixRow t x y).sum = ∑ ia ∈ range (t.maxA + 1), ∑ ib ∈ range (t.maxB + 1), hendrixCell t x y ia ib := by
    unfold hendrixRow
    have hfm : ∀ (l : List Nat) (F : Nat → List α), (l.flatMap F).sum = (l.map fun a => (F a).sum).sum := by
      intro l F; induction l with
      | nil => simp
      | cons a l ihl => simp [List.flatMap_cons, List.sum_append, ihl]
    rw [hfm, ← lsum_eq_sum, lsum_range]
    apply Finset.sum_congr rfl; intro ia _
    rw [← lsum_eq_sum, lsum_range]
  rw [hrow]
  simp only [hendrixCell, Finset.sum_add_distrib]
  have hB : ∑ ib ∈ range (t.maxB + 1), (if ib < y then t.pb ib else 0) = ∑ ib ∈ range y, t.pb ib :=
    sum_range_ite_lt _ _ _ (by omega)
  have s1 : ∑ ia ∈ range (t.maxA + 1), ∑ ib ∈ range (t.maxB + 1), hendrixP1 t x y ia ib
      = (∑ ia ∈ range x, t.pa ia) * (∑ ib ∈ range y, t.pb ib) := by
    simp only [hendrixP1, ← Finset.mul_sum, hB, ← Finset.sum_mul]
    rw [sum_range_ite_lt _ _ _ (by omega)]
  have s2 : ∑ ia ∈ range (t.maxA + 1), ∑ ib ∈ range (t.maxB + 1), hendrixP2 t x y ia ib
      = t.tailA x * (∑ ib ∈ range y, t.pb ib) := by
    have : ∀ ia, ∑ ib ∈ range (t.maxB + 1), hendrixP2 t x y ia ib
        = if ia = x then t.tailA x * (∑ ib ∈ range y, t.pb ib) else 0 := by
      intro ia
      unfold hendrixP2
      split
      · rw [← Finset.mul_sum, hB]
      · simp
    simp only [this]
    exact sum_range_ite_eq _ _ _ (by omega)
  have s3 : ∑ ia ∈ range (t.maxA + 1), ∑ ib ∈ range (t.maxB + 1), hendrixP3 t x y ia ib
      = ∑ ia ∈ range x, hendrixPz t ia y := by
    have : ∀ ia, ∑ ib ∈ range (t.maxB + 1), hendrixP3 t x y ia ib = if ia < x then hendrixPz t ia y else 0 := by
      intro ia
      unfold hendrixP3
      exact sum_range_ite_eq _ _ _ (by omega)
    simp only [this]
    exact sum_range_ite_lt _ _ _ (by omega)
  have s4 : ∑ ia ∈ range (t.maxA + 1), ∑ ib ∈ range (t.maxB + 1), hendrixP4 t x y ia ib
      = ∑ z ∈ range (t.D + 1), (if x ≤ z then hendrixPz t z y else 0) := by
    have : ∀ ia, ∑ ib ∈ range (t.maxB + 1), hendrixP4 t x y ia ib
        = if ia = x then ∑ z ∈ range (t.D + 1), (if x ≤ z then hendrixPz t z y else 0) else 0 := by
      intro ia
      unfold hendrixP4
      by_cases h : ia = x
      · simp only [h, true_and, if_true]
        rw [sum_range_ite_eq _ _ _ (by omega), lsum_range]
      · simp [h]
    simp only [this]
    exact sum_range_ite_eq _ _ _ (by omega)
  rw [s1, s2, s3, s4]
  have hz : ∑ ia ∈ range x, hendrixPz t ia y + ∑ z ∈ range (t.D + 1), (if x ≤ z then hendrixPz t z y else 0)
      = ∑ z ∈ range (t.D + 1), hendrixPz t z y := by
    rw [← sum_range_ite_lt (fun z => hendrixPz t z y) (t.D + 1) x (by omega), ← Finset.sum_add_distrib]
    apply Finset.sum_congr rfl; intro z _
    by_cases h : z < x
    · have : ¬ x ≤ z := by omega
      simp [h, this]
    · have : x ≤ z := by omega
      simp [h, this]
  rw [← hz]; ring
theorem binomPmf_nonneg (ρ : α) (h0 : 0 ≤ ρ) (h1 : ρ ≤ 1) (n k : Nat) : 0 ≤ binomPmf ρ n k := by
  unfold binomPmf
  apply mul_nonneg (mul_nonneg (Nat.cast_nonneg _) (pow_nonneg h0 _)) (pow_nonneg (by linarith) _)

theorem hendrixPu_nonneg (t : HendrixTab α) (hb : ∀ n, 0 ≤ t.pb n) (h0 : 0 ≤ t.rho) (h1 : t.rho ≤ 1) (u y : Nat) : 0 ≤ hendrixPu t u y := by
  rw [pu_full]
  exact Finset.sum_nonneg fun e _ => mul_nonneg (hb _) (binomPmf_nonneg _ h0 h1 _ _)

theorem hendrixPz_nonneg (t : HendrixTab α) (ha : ∀ n, 0 ≤ t.pa n) (hb : ∀ n, 0 ≤ t.pb n) (h0 : 0 ≤ t.rho) (h1 : t.rho ≤ 1) (z y : Nat) :
    0 ≤ hendrixPz t z y := by
  unfold hendrixPz
  rw [lsum_range]
  exact Finset.sum_nonneg fun k _ => mul_nonneg (ha _) (hendrixPu_nonneg t hb h0 h1 _ _)

/-- **every Hendrix event probability is non-negative** when the Poisson tables and the tail table are (and 0 ≤ ρ ≤ 1) -/
theorem hendrix_nonneg (t : HendrixTab α) (ha : ∀ n, 0 ≤ t.pa n) (hb : ∀ n, 0 ≤ t.pb n) (ht : ∀ n, 0 ≤ t.tailA n)
    (h0 : 0 ≤ t.rho) (h1 : t.rho ≤ 1) (x y : Nat) : ∀ p ∈ hendrixRow t x y, 0 ≤ p := by
  intro p hp
  simp only [hendrixRow, List.mem_flatMap, List.mem_map, List.mem_range] at hp
  obtain ⟨ia, _, ib, _, rfl⟩ := hp
  unfold hendrixCell hendrixP1 hendrixP2 hendrixP3 hendrixP4
  have hz := hendrixPz_nonneg t ha hb h0 h1
  have e1 : 0 ≤ (if ia < x then t.pa ia else 0) * (if ib < y then t.pb ib else 0) := by
    apply mul_nonneg <;> split <;> first | exact ha _ | exact hb _ | exact le_refl _
  have e2 : 0 ≤ (if ia = x then t.tailA x * (if ib < y then t.pb ib else 0) else 0) := by
    split
    · apply mul_nonneg (ht _); split <;> first | exact hb _ | exact le_refl _
    · exact le_refl _
  have e3 : 0 ≤ (if ib = y then (if ia < x then hendrixPz t ia y else 0) else 0) := by
    split
    · split <;> first | exact hz _ _ | exact le_refl _
    · exact le_refl _
  have e4 : 0 ≤ (if ia = x ∧ ib = y then lsum ((List.range (t.D + 1)).map fun z => if x ≤ z then hendrixPz t z y else 0) else 0) := by
    split
    · rw [lsum_range]
      apply Finset.sum_nonneg; intro z _; split <;> first | exact hz _ _ | exact le_refl _
    · exact le_refl _
  linarith

end HendrixMass

/-! non-vacuity -/
example : splits 2 2 = [[0, 2], [1, 1], [2, 0]] := by decide
example : censored [(1/4 : Rat), 1/4, 1/4] = [1/4, 1/4, 1/2] := by decide +kernel
/-- the hypotheses of `mirjalili_dist` are met by a concrete instance (m = 2, Q = 1, demand cap 1) and the row is the expected one -/
example : mirjaliliRow (⟨1, 2, 1, 0, 0, 0, 0, 0⟩ : MirjaliliCfg Rat) (fun d => [(1/2 : Rat), 1/2].getD d 0) (fun _ => [1/2, 1/2]) 1
    = [0, 0, 1/4, 1/4, 1/4, 1/4] := by decide +kernel

end MdpaxV.C13
