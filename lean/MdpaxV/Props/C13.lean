/-
C13 — Shipped problems define a probability distribution for every state-action pair (exact-arithmetic structure).
The special functions (gamma cdf, negative-binomial pmf, softmax) are abstract tables; their numerical accuracy,
non-negativity and monotonicity are assumptions that the harness checks on the tables actually used.
Hendrix: the implementation truncates the demand support; its total mass is **not** one — see known_findings.json.
-/
import MdpaxV.Model.Probs
import MdpaxV.Model.Shipped
import Mathlib.Algebra.BigOperators.Group.List.Basic
import Mathlib.Algebra.BigOperators.Intervals
import Mathlib.Data.Nat.Choose.Sum
import Mathlib.Algebra.Order.Field.Basic
import Mathlib.Algebra.Order.BigOperators.Group.List
import Mathlib.Tactic.Ring
import Mathlib.Tactic.Linarith
set_option linter.unusedSectionVars false
namespace MdpaxV.C13
open MdpaxV
variable {α : Type} [Field α] [LinearOrder α] [IsStrictOrderedRing α]

theorem lsum_eq_sum (l : List α) : lsum l = l.sum := (List.sum_eq_foldl).symm

/-- Forest: for p ∈ [0,1] both action rows are non-negative and sum to one -/
theorem forest_dist (c : ForestCfg α) (hp0 : 0 ≤ c.p) (hp1 : c.p ≤ 1) (s : List Int) (a : Int) (ha : a = 0 ∨ a = 1) :
    forestProb c s [a] [0] + forestProb c s [a] [1] = 1 ∧ 0 ≤ forestProb c s [a] [0] ∧ 0 ≤ forestProb c s [a] [1] := by
  rcases ha with rfl | rfl <;> simp [forestProb] <;> constructor <;> linarith

/-- censoring at the maximum: whatever the table, folding `1 − Σ` into the last bin makes the total exactly one -/
theorem censored_sum_one (l : List α) (h : l ≠ []) : (censored l).sum = 1 := by
  unfold censored
  have hr : l.reverse ≠ [] := by simpa using h
  match hm : l.reverse, hr with
  | last :: revInit, _ =>
    simp only [List.sum_reverse, List.sum_cons]
    have : l.sum = last + revInit.sum := by
      have := congrArg List.sum hm
      rwa [List.sum_reverse, List.sum_cons] at this
    rw [lsum_eq_sum, this]; ring

/-- … and every bin stays non-negative when the table is non-negative with partial sum ≤ 1 -/
theorem censored_nonneg (l : List α) (hnn : ∀ x ∈ l, 0 ≤ x) (hle : l.sum ≤ 1) : ∀ x ∈ censored l, 0 ≤ x := by
  unfold censored
  match hm : l.reverse with
  | [] => intro x hx; simp at hx
  | last :: revInit =>
    intro x hx
    simp only [List.mem_reverse, List.mem_cons] at hx
    have hmem : ∀ y ∈ last :: revInit, y ∈ l := by intro y hy; rw [← hm] at hy; simpa using hy
    rcases hx with rfl | hx
    · have := hnn last (hmem last (by simp))
      rw [lsum_eq_sum]; linarith
    · exact hnn x (hmem x (by simp [hx]))

theorem diffs_sum (x : α) (l : List α) : (diffs (x :: l)).sum = l.getLastD x - x := by
  induction l generalizing x with
  | nil => simp [diffs]
  | cons y ys ih =>
    simp only [diffs, List.sum_cons, ih y, List.getLastD_cons]
    ring

/-- non-decreasing table -/
def Mono : List α → Prop
  | x :: y :: rest => x ≤ y ∧ Mono (y :: rest)
  | _ => True

/-- De Moor: the discretised, censored demand law sums to one for **any** cdf table with at least two points,
    and is non-negative when the table is non-decreasing and F(D+½) − F(0) ≤ 1 -/
theorem demoor_dist (c0 c1 : α) (rest : List α) :
    (deMoorProbs (c0 :: c1 :: rest)).sum = 1 ∧
    (Mono (c0 :: c1 :: rest) → (c1 :: rest).getLastD c0 ≤ 1 + c0 →
      ∀ x ∈ deMoorProbs (c0 :: c1 :: rest), 0 ≤ x) := by
  constructor
  · exact censored_sum_one _ (by simp [diffs])
  · intro hmono h1
    apply censored_nonneg
    · have : ∀ (x : α) (l : List α), Mono (x :: l) → ∀ d ∈ diffs (x :: l), 0 ≤ d := by
        intro x l
        induction l generalizing x with
        | nil => intro _ d hd; simp [diffs] at hd
        | cons y ys ih =>
          intro hch d hd
          simp only [diffs, List.mem_cons] at hd
          simp only [Mono] at hch
          rcases hd with rfl | hd
          · linarith [hch.1]
          · exact ih y hch.2 d hd
      exact this c0 (c1 :: rest) hmono
    · rw [diffs_sum]; linarith

/-! ### Mirjalili: product structure and the multinomial theorem -/

theorem choose_eq (n k : Nat) : MdpaxV.choose n k = Nat.choose n k := by
  induction n generalizing k with
  | zero => cases k <;> simp [MdpaxV.choose]
  | succ n ih => cases k <;> simp [MdpaxV.choose, Nat.choose, ih]

theorem splits_sum (m n : Nat) : ∀ ks ∈ splits m n, ks.sum = n := by
  induction m generalizing n with
  | zero => cases n <;> simp [splits]
  | succ m ih =>
    intro ks hks
    simp only [splits, List.mem_flatMap, List.mem_range, List.mem_map] at hks
    obtain ⟨i, hi, rest, hrest, rfl⟩ := hks
    have := ih (n - i) rest hrest
    simp [this]; omega

/-- multinomial theorem over the list model: Σ over all splits of n into |ps| classes of n!/∏kᵢ! · ∏ pᵢ^kᵢ = (Σ p)ⁿ -/
theorem sum_multinomial (ps : List α) (n : Nat) :
    ((splits ps.length n).map (multinomialPmf ps)).sum = ps.sum ^ n := by
  induction ps generalizing n with
  | nil => cases n <;> simp [splits, multinomialPmf, multi, powProd]
  | cons p ps ih =>
    simp only [List.length_cons, splits, List.map_flatMap, List.map_map, List.sum_cons]
    have inner : ∀ i, i ≤ n →
        (((splits ps.length (n - i)).map (multinomialPmf (p :: ps) ∘ (i :: ·)))).sum
          = (Nat.choose n i : α) * p ^ i * ps.sum ^ (n - i) := by
      intro i hi
      rw [← ih (n - i), ← List.sum_map_mul_left]
      congr 1
      apply List.map_congr_left
      intro ks hks
      have hs := splits_sum ps.length (n - i) ks hks
      simp only [Function.comp, multinomialPmf, multi, powProd, hs, choose_eq]
      have : i + (n - i) = n := by omega
      rw [this]; push_cast; ring
    have hl : ∀ (g : Nat → α) (N : Nat), ((List.range N).map g).sum = ∑ i ∈ Finset.range N, g i := by
      intro g N
      induction N with
      | zero => simp
      | succ N ihN => rw [List.range_succ, List.map_append, List.sum_append, ihN, Finset.sum_range_succ]; simp
    have step : ((List.range (n + 1)).map fun i =>
        ((splits ps.length (n - i)).map (multinomialPmf (p :: ps) ∘ (i :: ·))).sum)
        = (List.range (n + 1)).map fun i => (Nat.choose n i : α) * p ^ i * ps.sum ^ (n - i) := by
      apply List.map_congr_left
      intro i hi
      exact inner i (by simp at hi; omega)
    have hfm : ∀ (l : List Nat) (F : Nat → List α), (l.flatMap F).sum = (l.map fun a => (F a).sum).sum := by
      intro l F; induction l with
      | nil => simp
      | cons a l ihl => simp [List.flatMap_cons, List.sum_append, ihl]
    rw [hfm, step, hl, add_pow]
    apply Finset.sum_congr rfl
    intro i _; ring

/-- category probabilities summing to one ⇒ the split probabilities over all splits of the order sum to one -/
theorem multinomial_total (ps : List α) (hps : ps.sum = 1) (n : Nat) :
    ((splits ps.length n).map (multinomialPmf ps)).sum = 1 := by
  rw [sum_multinomial, hps, one_pow]

/-- product structure of a Mirjalili row: for any list of received-order combinations and demands,
    Σ_{(d,k)} P(d)·recv(k) = (Σ_d P(d)) · (Σ_k recv(k)) -/
theorem mirjalili_row_factorises (combos : List (List Nat)) (demands : List Nat) (demandP : Nat → α) (recv : List Nat → α) :
    ((combos.flatMap fun k => demands.map fun d => demandP d * recv k)).sum =
      (demands.map demandP).sum * (combos.map recv).sum := by
  induction combos with
  | nil => simp
  | cons k ks ih =>
    simp only [List.flatMap_cons, List.sum_append, ih, List.map_cons, List.sum_cons]
    have : ∀ (dl : List Nat), (dl.map fun d => demandP d * recv k).sum = (dl.map demandP).sum * recv k := by
      intro dl
      induction dl with
      | nil => simp
      | cons d ds ihd => simp only [List.map_cons, List.sum_cons, ihd]; ring
    rw [this]; ring

/-- splits that do not sum to the order contribute nothing -/
theorem mirjaliliProb_off_simplex (demandP : Nat → α) (cat : Nat → List α) (order d : Nat) (k : List Nat) (h : k.sum ≠ order) :
    mirjaliliProb demandP cat order d k = 0 := by
  simp [mirjaliliProb, h]

/-! non-vacuity -/
example : splits 2 2 = [[0, 2], [1, 1], [2, 0]] := by decide
example : censored [(1/4 : Rat), 1/4, 1/4] = [1/4, 1/4, 1/2] := by decide +kernel

end MdpaxV.C13
