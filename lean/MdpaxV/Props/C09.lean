/-
C09 — Interrupt-and-resume at any iteration equals an uninterrupted run.
-/
import MdpaxV.Model.Ckpt
import MdpaxV.Props.C08
import MdpaxV.Props.C12
import MdpaxV.Props.C01
set_option linter.unusedSectionVars false
namespace MdpaxV.C09
open MdpaxV

section generic
variable {σ : Type}

/-- two solve calls from `R`-related states (states that differ only in fields the step does not read and that
    `finish` recomputes) return the same result -/
theorem solveCall_rel (R : σ → σ → Prop) (step : σ → σ × Bool) (iter : σ → Nat) (finish : Bool → σ → σ)
    (hstep : ∀ a b, R a b → R (step a).1 (step b).1 ∧ (step a).2 = (step b).2)
    (hfin : ∀ c a b, R a b → finish c a = finish c b)
    (f f' k : Nat) (a b : σ) (hab : R a b) :
    (solveCall step iter finish f k a).state = (solveCall step iter finish f' k b).state ∧
    (solveCall step iter finish f k a).converged = (solveCall step iter finish f' k b).converged ∧
    (solveCall step iter finish f k a).sweeps = (solveCall step iter finish f' k b).sweeps := by
  have h := loopBody_rel R step iter hstep f f' k a b hab 0 [] []
  simp only [solveCall, solveLoop]
  exact ⟨by rw [h.2.1]; exact hfin _ _ _ h.1, h.2.1, h.2.2⟩

/-- **interrupt and resume, generic**: run `k₁` iterations with checkpointing (not converged), take the snapshot of the
    *last save event* (the call's last iteration is always saved), rebuild a solver whose state is `R`-related to that
    snapshot (e.g. restored into a fresh solver's template), run `k₂` more: the result equals one uninterrupted
    `solve(k₁+k₂)` **without** checkpointing -/
theorem resume_eq_uninterrupted (R : σ → σ → Prop) (step : σ → σ × Bool) (iter : σ → Nat) (finish : Bool → σ → σ)
    (hstep : ∀ a b, R a b → R (step a).1 (step b).1 ∧ (step a).2 = (step b).2)
    (hfin : ∀ c a b, R a b → finish c a = finish c b)
    (f : Nat) (hf : f ≠ 0) (f' k1 k2 : Nat) (s : σ)
    (hnc : (solveCall step iter finish f k1 s).converged = false)
    (restored : σ)
    (hres : ∀ lbl snap, (solveCall step iter finish f k1 s).saves.getLast? = some (lbl, snap) → R restored snap) :
    (solveCall step iter finish f' k2 restored).state = (solveCall step iter finish 0 (k1 + k2) s).state ∧
    (solveCall step iter finish f' k2 restored).converged = (solveCall step iter finish 0 (k1 + k2) s).converged := by
  have hlast := C12.final_always_saved step iter finish f k1 hf s
  have hR := hres _ _ hlast
  -- the saved snapshot is the loop state after k1 iterations
  have hnc' : (loopBody step iter f k1 s 0 []).converged = false := by simpa [solveCall, solveLoop] using hnc
  have hc := loopBody_compose step iter f k1 k2 s 0 [] hnc'
  have hrel := loopBody_rel R step iter hstep f' f k2 restored (loopBody step iter f k1 s 0 []).state
    (by simpa [solveLoop] using hR) 0 [] []
  have hind := loopBody_state_indep step iter f 0 (k1 + k2) s 0 0 [] []
  simp only [solveCall, solveLoop]
  refine ⟨?_, ?_⟩
  · rw [← hind.1, ← hind.2.1, hc.1, hc.2.1, hrel.2.1]
    exact hfin _ _ _ hrel.1
  · rw [← hind.2.1, hc.2.1, hrel.2.1]

/-- enabling checkpointing and its frequency never change any computed result (retention limit and sync/async mode do not
    even enter the loop) -/
theorem checkpointing_is_transparent (step : σ → σ × Bool) (iter : σ → Nat) (finish : Bool → σ → σ) (f k : Nat) (s : σ) :
    (solveCall step iter finish f k s).state = (solveCall step iter finish 0 k s).state ∧
    (solveCall step iter finish f k s).converged = (solveCall step iter finish 0 k s).converged ∧
    (solveCall step iter finish f k s).sweeps = (solveCall step iter finish 0 k s).sweeps :=
  C08.solve_indep_of_frequency step iter finish f 0 k s

end generic

section instances
variable {α : Type} [Field α] [LinearOrder α] [IsStrictOrderedRing α]

/-- what is restored agrees with the snapshot on every field the iteration reads
    (values, iteration, gain, value history and index; for policy iteration also the policy) -/
theorem snapshot_restore_core (b : Bool) (snap : SState α) : C08.SameCore (restoredState b snap) snap := by
  unfold restoredState; split <;> exact ⟨rfl, rfl, rfl, rfl, rfl⟩

theorem snapshot_restore_pi (snap : SState α) : restoredState true snap = snap := by simp [restoredState]

/-- **value iteration**: interrupt after k₁ iterations, restore the last checkpoint in a fresh solver, continue for k₂ -/
theorem vi_resume (P : Problem α) (c : BatchCfg) (γ thr : α) (t : ConvTest) (f : Nat) (hf : f ≠ 0) (f' k1 k2 : Nat) (s : SState α)
    (hnc : (viSolve P c γ thr t f k1 s).converged = false) (lbl : Nat) (snap : SState α)
    (hsnap : (viSolve P c γ thr t f k1 s).saves.getLast? = some (lbl, snap)) :
    (viSolve P c γ thr t f' k2 (restoredState false snap)).state = (viSolve P c γ thr t 0 (k1 + k2) s).state ∧
    (viSolve P c γ thr t f' k2 (restoredState false snap)).converged = (viSolve P c γ thr t 0 (k1 + k2) s).converged := by
  apply resume_eq_uninterrupted C08.SameCore _ _ _ _ _ f hf f' k1 k2 s hnc
  · intro l sn h
    have h2 := hsnap
    simp only [viSolve, rviSolve, periodicSolve, semiSolve] at h2
    rw [h2] at h; cases h; exact snapshot_restore_core false snap
  · rintro a b ⟨h1, h2, h3, h4, h5⟩
    simp only [viStep, C08.SameCore, h1, h2, h3, h4, h5]; simp
  · rintro c' a b ⟨h1, h2, h3, h4, h5⟩
    cases a; cases b; simp_all [viFinish]

/-- **relative value iteration** (gain included in the snapshot) -/
theorem rvi_resume (P : Problem α) (c : BatchCfg) (γ ε : α) (f : Nat) (hf : f ≠ 0) (f' k1 k2 : Nat) (s : SState α)
    (hnc : (rviSolve P c γ ε f k1 s).converged = false) (lbl : Nat) (snap : SState α)
    (hsnap : (rviSolve P c γ ε f k1 s).saves.getLast? = some (lbl, snap)) :
    (rviSolve P c γ ε f' k2 (restoredState false snap)).state = (rviSolve P c γ ε 0 (k1 + k2) s).state ∧
    (rviSolve P c γ ε f' k2 (restoredState false snap)).converged = (rviSolve P c γ ε 0 (k1 + k2) s).converged := by
  apply resume_eq_uninterrupted C08.SameCore _ _ _ _ _ f hf f' k1 k2 s hnc
  · intro l sn h
    have h2 := hsnap
    simp only [viSolve, rviSolve, periodicSolve, semiSolve] at h2
    rw [h2] at h; cases h; exact snapshot_restore_core false snap
  · rintro a b ⟨h1, h2, h3, h4, h5⟩
    simp only [rviStep, C08.SameCore, h1, h2, h3, h4, h5]; simp
  · rintro c' a b ⟨h1, h2, h3, h4, h5⟩
    cases a; cases b; simp_all [viFinish]

/-- **periodic value iteration** (value history and index included in the snapshot) -/
theorem periodic_resume (P : Problem α) (c : BatchCfg) (γ ε : α) (period : Nat) (clear : Bool) (f : Nat) (hf : f ≠ 0) (f' k1 k2 : Nat) (s : SState α)
    (hnc : (periodicSolve P c γ ε period clear f k1 s).converged = false) (lbl : Nat) (snap : SState α)
    (hsnap : (periodicSolve P c γ ε period clear f k1 s).saves.getLast? = some (lbl, snap)) :
    (periodicSolve P c γ ε period clear f' k2 (restoredState false snap)).state = (periodicSolve P c γ ε period clear 0 (k1 + k2) s).state ∧
    (periodicSolve P c γ ε period clear f' k2 (restoredState false snap)).converged = (periodicSolve P c γ ε period clear 0 (k1 + k2) s).converged := by
  apply resume_eq_uninterrupted C08.SameCore _ _ _ _ _ f hf f' k1 k2 s hnc
  · intro l sn h
    have h2 := hsnap
    simp only [viSolve, rviSolve, periodicSolve, semiSolve] at h2
    rw [h2] at h; cases h; exact snapshot_restore_core false snap
  · rintro a b ⟨h1, h2, h3, h4, h5⟩
    simp only [periodicStep, C08.SameCore, h1, h2, h3, h4, h5]; simp
  · rintro c' a b ⟨h1, h2, h3, h4, h5⟩
    cases a; cases b; simp_all [periodicFinish, viFinish]

/-- **semi-asynchronous value iteration with a fixed order** (or any schedule that is a function of the iteration number) -/
theorem semi_resume (P : Problem α) (c : BatchCfg) (γ thr : α) (t : ConvTest) (perms : Nat → Option (List Nat)) (choose : Nat → Bool)
    (f : Nat) (hf : f ≠ 0) (f' k1 k2 : Nat) (s : SState α)
    (hnc : (semiSolve P c γ thr t perms choose f k1 s).converged = false) (lbl : Nat) (snap : SState α)
    (hsnap : (semiSolve P c γ thr t perms choose f k1 s).saves.getLast? = some (lbl, snap)) :
    (semiSolve P c γ thr t perms choose f' k2 (restoredState false snap)).state = (semiSolve P c γ thr t perms choose 0 (k1 + k2) s).state ∧
    (semiSolve P c γ thr t perms choose f' k2 (restoredState false snap)).converged = (semiSolve P c γ thr t perms choose 0 (k1 + k2) s).converged := by
  apply resume_eq_uninterrupted C08.SameCore _ _ _ _ _ f hf f' k1 k2 s hnc
  · intro l sn h
    have h2 := hsnap
    simp only [viSolve, rviSolve, periodicSolve, semiSolve] at h2
    rw [h2] at h; cases h; exact snapshot_restore_core false snap
  · rintro a b ⟨h1, h2, h3, h4, h5⟩
    simp only [semiStep, C08.SameCore, h1, h2, h3, h4, h5]; simp
  · rintro c' a b ⟨h1, h2, h3, h4, h5⟩
    cases a; cases b; simp_all [viFinish]

/-- **policy iteration** (its policy is part of what is restored) -/
theorem pi_resume (P : Problem α) (c : BatchCfg) (γ thr : α) (t : ConvTest) (budget : Nat) (reset : Option (List α))
    (f : Nat) (hf : f ≠ 0) (f' k1 k2 : Nat) (s : SState α)
    (hnc : (piSolve P c γ thr t budget reset f k1 s).converged = false) (lbl : Nat) (snap : SState α)
    (hsnap : (piSolve P c γ thr t budget reset f k1 s).saves.getLast? = some (lbl, snap)) :
    (piSolve P c γ thr t budget reset f' k2 (restoredState true snap)).state = (piSolve P c γ thr t budget reset 0 (k1 + k2) s).state ∧
    (piSolve P c γ thr t budget reset f' k2 (restoredState true snap)).converged = (piSolve P c γ thr t budget reset 0 (k1 + k2) s).converged := by
  apply resume_eq_uninterrupted Eq _ _ _ _ _ f hf f' k1 k2 s hnc
  · intro l sn h
    have h2 := hsnap
    simp only [piSolve] at h2
    rw [h2] at h; cases h; exact snapshot_restore_pi snap
  · rintro a b rfl; exact ⟨rfl, rfl⟩
  · rintro c' a b rfl; rfl

/-- **with state shuffling the resumed run still converges within the same error bound**: the resumed solver's permutation stream
    restarts from the seed, so its sweeps differ from the uninterrupted run's; but from *any* restored snapshot (any values of the
    right length), with *any* sequence of permutations, a resumed `solve()` that reports convergence under the max_diff test
    returns values within ε of optimal and a policy within 2γε/(1−γ) of optimal — the same bound as an uninterrupted run -/
theorem shuffled_resume_within_bound (P : Problem α) (c : BatchCfg) (γ ε : α) (S : C01.Setting P c γ) (hw : C01.IdxWF P)
    (snap : SState α) (hsnap : snap.values.length = P.nS)
    (perms' : Nat → Option (List Nat)) (hperms : ∀ n, (orderOf' c.n (perms' n)).Perm (List.range c.n)) (choose : Nat → Bool)
    (f' k2 : Nat)
    (hc : (semiSolve P c γ (ε * (1 - γ) / γ) .maxDiff perms' choose f' k2 (restoredState false snap)).converged = true)
    (pl : List Nat)
    (hpl : (semiSolve P c γ (ε * (1 - γ) / γ) .maxDiff perms' choose f' k2 (restoredState false snap)).state.policy = some pl)
    (W U : Fin P.nS → α) (hW : Top P γ W = W) (hU : Tpol P γ (C01.polFn P.nS pl) U = U) (i : Fin P.nS) :
    |toFn P.nS (semiSolve P c γ (ε * (1 - γ) / γ) .maxDiff perms' choose f' k2 (restoredState false snap)).state.values i - W i| < ε ∧
    0 ≤ W i - U i ∧ W i - U i < 2 * γ * ε / (1 - γ) :=
  C01.semiasync_solve_near_optimal P c γ ε S hw perms' hperms choose f' k2 (restoredState false snap)
    (by simpa [restoredState] using hsnap) hc pl hpl W U hW hU i

/-- closed form: the optimal value function and the resumed run's policy value exist, and the bound holds for them -/
theorem shuffled_resume_within_bound_closed (P : Problem α) (c : BatchCfg) (γ ε : α) (S : C01.Setting P c γ) (hw : C01.IdxWF P)
    (snap : SState α) (hsnap : snap.values.length = P.nS)
    (perms' : Nat → Option (List Nat)) (hperms : ∀ n, (orderOf' c.n (perms' n)).Perm (List.range c.n)) (choose : Nat → Bool)
    (f' k2 : Nat)
    (hc : (semiSolve P c γ (ε * (1 - γ) / γ) .maxDiff perms' choose f' k2 (restoredState false snap)).converged = true)
    (pl : List Nat)
    (hpl : (semiSolve P c γ (ε * (1 - γ) / γ) .maxDiff perms' choose f' k2 (restoredState false snap)).state.policy = some pl) :
    ∃ W U, C01.IsOptimalValue P γ W ∧ Tpol P γ (C01.polFn P.nS pl) U = U ∧ ∀ i,
      |toFn P.nS (semiSolve P c γ (ε * (1 - γ) / γ) .maxDiff perms' choose f' k2 (restoredState false snap)).state.values i - W i| < ε ∧
      0 ≤ W i - U i ∧ W i - U i < 2 * γ * ε / (1 - γ) :=
  C01.semiasync_solve_near_optimal_closed P c γ ε S hw perms' hperms choose f' k2 (restoredState false snap)
    (by simpa [restoredState] using hsnap) hc pl hpl

end instances
end MdpaxV.C09
