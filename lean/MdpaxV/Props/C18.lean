/-
C18 — Batching places every state exactly once and round-trips losslessly.
Property theorems only (helper lemmas live in `Theory/Batch.lean`).
All statements are for every n ≥ 1, max_batch_size ≥ 1, device count ≥ 1 — no bound.
-/
import MdpaxV.Theory.Batch
namespace MdpaxV.C18
open MdpaxV

/-- a valid input of `BatchProcessor`: at least one state, positive maximum batch size, ≥ 1 device -/
def Valid (c : BatchCfg) : Prop := 0 < c.n ∧ 0 < c.maxbs ∧ 0 < c.dev
instance (c : BatchCfg) : Decidable (Valid c) := by unfold Valid; infer_instance

/-- 1 ≤ batch_size ≤ max_batch_size -/
theorem bsz_bounds (c : BatchCfg) (h : Valid c) : 1 ≤ bsz c ∧ bsz c ≤ c.maxbs :=
  ⟨bsz_pos c h.1 h.2.1, bsz_le c⟩

/-- slot count = states + reported padding, and the padding is non-negative (and there is ≥ 1 batch) -/
theorem slots_eq (c : BatchCfg) (h : Valid c) :
    (slots c : Int) = c.n + npad c ∧ 0 ≤ npad c ∧ 1 ≤ nb c :=
  ⟨by unfold npad; omega, npad_nonneg c h.1 h.2.1 h.2.2, nb_pos c h.1 h.2.1 h.2.2⟩

/-- the flat content of the prepared layout is the states in their original order followed only by padding -/
theorem prepare_layout {β : Type} (c : BatchCfg) (h : Valid c) (z : β) (xs : List β) :
    (prepare c z xs).flatten.flatten = xs ++ List.replicate (npad c).toNat z := by
  unfold prepare
  simp only [flatten_chunks _ (nb_pos c h.1 h.2.1 h.2.2), flatten_chunks _ (bsz_pos c h.1 h.2.1)]
  split
  · rfl
  · rename_i hp
    have : (npad c).toNat = 0 := by omega
    simp [this]

/-- the prepared layout has exactly `dev` devices × `nb` batches × `bsz` slots:
    the reported device count, batch count and batch size are the ones the layout uses -/
theorem prepare_shape {β : Type} (c : BatchCfg) (h : Valid c) (z : β) (xs : List β) (hlen : xs.length = c.n) :
    (prepare c z xs).length = c.dev ∧
    (∀ d ∈ prepare c z xs, d.length = nb c ∧ ∀ b ∈ d, b.length = bsz c) := by
  have hb := bsz_pos c h.1 h.2.1
  have hnb := nb_pos c h.1 h.2.1 h.2.2
  have hge := slots_ge c h.1 h.2.1 h.2.2
  unfold prepare
  -- the padded list has `slots` elements
  have hpl : (if npad c > 0 then xs ++ List.replicate (npad c).toNat z else xs).length = (c.dev * nb c) * bsz c := by
    split
    · simp only [List.length_append, List.length_replicate, hlen]; unfold npad slots at *; omega
    · rename_i hp; unfold npad slots at *; omega
  obtain ⟨h1, h2⟩ := chunks_shape (bsz c) hb (c.dev * nb c) _ hpl
  obtain ⟨h3, h4⟩ := chunks_shape (nb c) hnb c.dev _ h1
  refine ⟨h3, fun d hd => ⟨h4 d hd, fun b hbd => ?_⟩⟩
  apply h2
  have : d.flatten = d.flatten := rfl
  -- b ∈ d, d ∈ chunks nb (chunks bsz padded) ⇒ b ∈ chunks bsz padded
  have hfl := flatten_chunks (nb c) hnb (chunks (bsz c) (if npad c > 0 then xs ++ List.replicate (npad c).toNat z else xs))
  rw [← hfl]
  exact List.mem_flatten.mpr ⟨d, hd, hbd⟩

/-- un-batching any per-slot result (any element type = any trailing dimensions) returns exactly one row
    per state in the original order; what is computed in padding slots is never observable -/
theorem unbatch_map_prepare {β γ : Type} (c : BatchCfg) (h : Valid c)
    (z : β) (f : β → γ) (xs : List β) (hlen : xs.length = c.n) :
    unbatch c (map3 f (prepare c z xs)) = xs.map f := by
  unfold unbatch prepare
  simp only [flatten_map3, flatten_chunks _ (nb_pos c h.1 h.2.1 h.2.2), flatten_chunks _ (bsz_pos c h.1 h.2.1)]
  split
  · simp [List.map_append, hlen]
  · rfl

/-- un-batching *any* array of the prepared shape (not only a map over it) returns its first n rows -/
theorem unbatch_take {γ : Type} (c : BatchCfg) (h : Valid c) (r : List (List (List γ)))
    (hr : r.flatten.flatten.length = slots c) :
    unbatch c r = r.flatten.flatten.take c.n := by
  have hge := slots_ge c h.1 h.2.1 h.2.2
  unfold unbatch
  simp only []
  split
  · congr 1; rw [hr]; unfold npad; omega
  · rename_i hp
    have : slots c = c.n := by unfold npad at hp; omega
    rw [← this, ← hr, List.take_length]

/-- round trip -/
theorem unbatch_prepare {β : Type} (c : BatchCfg) (h : Valid c) (z : β) (xs : List β) (hlen : xs.length = c.n) :
    unbatch c (prepare c z xs) = xs := by
  have := unbatch_map_prepare c h z id xs hlen
  simpa [map3] using this

/-- non-vacuity: 7 states, max batch 3, 2 devices is valid: 2 × 2 × 3 slots, 5 of them padding -/
example : Valid ⟨7, 3, 2⟩ ∧ bsz ⟨7, 3, 2⟩ = 3 ∧ nb ⟨7, 3, 2⟩ = 2 ∧ npad ⟨7, 3, 2⟩ = 5 := by decide
example : unbatch ⟨7, 3, 2⟩ (map3 (· * 2) (prepare ⟨7, 3, 2⟩ 0 [1,2,3,4,5,6,7])) = [2,4,6,8,10,12,14] := by decide
example : prepare ⟨7, 3, 2⟩ 0 [1,2,3,4,5,6,7] = [[[1,2,3],[4,5,6]],[[7,0,0],[0,0,0]]] := by decide

end MdpaxV.C18

#print axioms MdpaxV.C18.bsz_bounds
#print axioms MdpaxV.C18.slots_eq
#print axioms MdpaxV.C18.prepare_layout
#print axioms MdpaxV.C18.prepare_shape
#print axioms MdpaxV.C18.unbatch_map_prepare
#print axioms MdpaxV.C18.unbatch_take
#print axioms MdpaxV.C18.unbatch_prepare
