/-
C20 — tie by translation (leaf module: imported by nothing).  The `Gen.*` definitions are regenerated from /repo's Python source
(validators, progress format, verbosity table, convergence thresholds) by harness/translate.py on every run of the C20 check.
-/
import MdpaxV.Props.C20
import MdpaxV.Theory.GenTieConfig
namespace MdpaxV.C20Gen
open MdpaxV MdpaxV.C20

/-- **tie by translation**: `get_convergence_format` *as written in /repo's source* (translated on every run) computes the
    model's `decimalPlaces`, so `decimalPlaces_valid` is a statement about the code: the precision of the progress format is a
    valid one (0 ≤ d ≤ max_decimals) for every positive threshold of any magnitude -/
theorem format_code_eq_model (e : Int) (m : Nat) : Gen.decimalPlaces e (m : Int) = decimalPlaces e m :=
  GenTie.decimalPlaces_eq_model e m

theorem format_code_valid (e : Int) (m : Nat) : 0 ≤ Gen.decimalPlaces e (m : Int) ∧ Gen.decimalPlaces e (m : Int) ≤ (m : Int) := by
  rw [format_code_eq_model]; exact decimalPlaces_valid e m

/-- the validator of each solver class as written in /repo's source (translated on every run) -/
def codeValidator : SolverKind → SolverCfg → Except CfgErr Unit
  | .vi => Gen.validate_vi | .pi => Gen.validate_pi | .rvi => Gen.validate_rvi
  | .periodic => Gen.validate_periodic | .semi => Gen.validate_semi

/-- **tie by translation**: the five `__post_init__` validators *as written in /repo* are the model's `validateSolver` -/
theorem validators_code_eq_model (k : SolverKind) (c : SolverCfg) : codeValidator k c = validateSolver k c := by
  cases k
  · exact GenTie.validate_vi_eq c
  · exact GenTie.validate_pi_eq c
  · exact GenTie.validate_rvi_eq c
  · exact GenTie.validate_periodic_eq c
  · exact GenTie.validate_semi_eq c

/-- hence the code's validators accept exactly the documented domain … -/
theorem validators_code_iff (k : SolverKind) (c : SolverCfg) : codeValidator k c = .ok () ↔ SolverValid k c := by
  rw [validators_code_eq_model]; exact validateSolver_iff k c

/-- … and reject with `TypeError` exactly for a non-config problem, `ValueError` otherwise -/
theorem validators_code_error_class (k : SolverKind) (c : SolverCfg) (e : CfgErr) (h : codeValidator k c = .error e) :
    (c.problemOk = false → e = .typeError) ∧ (c.problemOk = true → e = .valueError) := by
  rw [validators_code_eq_model] at h; exact validateSolver_error_class k c e h

/-- **tie by translation, problem configurations**: the four problem `__post_init__` validators as written in /repo are the
    model's, so the `validate*_iff` theorems above are statements about the code -/
theorem problem_validators_code_eq_model :
    (∀ c, Gen.pvalidate_Forest c = validateForest c) ∧ (∀ c, Gen.pvalidate_DeMoor c = validateDeMoor c) ∧
    (∀ c, Gen.pvalidate_Hendrix c = validateHendrix c) ∧ (∀ c, Gen.pvalidate_Mirjalili c = validateMirjalili c) :=
  ⟨GenTie.pvalidate_forest_eq, GenTie.pvalidate_demoor_eq, GenTie.pvalidate_hendrix_eq, GenTie.pvalidate_mirjalili_eq⟩

/-- **tie by translation, verbosity**: `verbosity_to_loguru_level` as written in /repo is the model's `loguruLevel`, so
    `loguruLevel_ok_iff` and `levelName_injective` are statements about the code's table -/
theorem verbosity_code_eq_model (isInt : Bool) (v : Int) : Gen.loguruLevel isInt v = loguruLevel isInt v :=
  GenTie.loguruLevel_eq isInt v

/-- **tie by translation, thresholds**: the span and max_diff thresholds of `ValueIteration._setup_convergence_testing` as written in
    /repo (inherited unchanged by policy iteration and semi-asynchronous value iteration) are one function, equal on 0 ≤ γ ≤ 1 to the
    model loop's `threshold` (C08 `threshold_def`), and the configuration-level `thresholdOf` of all five classes is the code's -/
theorem threshold_code_eq_model (γ ε : Rat) (h0 : 0 ≤ γ) (h1 : γ ≤ 1) :
    threshold γ ε = some (Gen.thresholdSpan ε γ) ∧ Gen.thresholdMaxDiff ε γ = Gen.thresholdSpan ε γ :=
  GenTie.threshold_code_eq γ ε h0 h1

theorem thresholdOf_code_eq_model (k : SolverKind) (c : SolverCfg) :
    thresholdOf k c = match k with
      | .vi | .pi | .semi => Gen.thresholdSpan c.eps c.gamma
      | .rvi => Gen.threshold_rvi c.eps c.gamma
      | .periodic => Gen.threshold_periodic c.eps c.gamma :=
  GenTie.thresholdOf_code_eq k c

/-- hence the threshold the code computes for a valid configuration is positive, for γ = 0 and γ = 1 as well -/
theorem threshold_code_pos (k : SolverKind) (c : SolverCfg) (h : SolverValid k c) :
    0 < (match k with
      | .vi | .pi | .semi => Gen.thresholdSpan c.eps c.gamma
      | .rvi => Gen.threshold_rvi c.eps c.gamma
      | .periodic => Gen.threshold_periodic c.eps c.gamma) := by
  rw [← thresholdOf_code_eq_model]; exact threshold_pos k c h

end MdpaxV.C20Gen
