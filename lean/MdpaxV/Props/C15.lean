/-
C15 — Shipped problems' transitions and rewards match the documented dynamics.
Stock vectors list the newest units first and the oldest last.  `issueFwd` is the forward scan of the code (LIFO),
`issueRev` the reverse scan (FIFO / OUFO).  All statements are for every vector length (useful life) and every
non-negative demand and stock.
-/
import MdpaxV.Theory.Issue
set_option linter.unusedSectionVars false
namespace MdpaxV.C15
open MdpaxV

/-- **newest first** (LIFO): slot i keeps `max 0 (xᵢ − max 0 (d − Σ_{j newer than i} xⱼ))` — demand reaches a class only
    after all newer classes are exhausted -/
theorem scan_eq_newest_first (d : Int) (hd : 0 ≤ d) (xs : List Int) (hx : ∀ x ∈ xs, 0 ≤ x) (i : Nat) (hi : i < xs.length) :
    (issueFwd d xs)[i]'(by rw [issueFwd_length]; exact hi) = max 0 (xs[i] - max 0 (d - (xs.take i).sum)) :=
  issueFwd_getElem d hd xs hx i hi

/-- **oldest first** (FIFO / OUFO): slot i keeps `max 0 (xᵢ − max 0 (d − Σ_{j older than i} xⱼ))` -/
theorem scan_eq_oldest_first (d : Int) (hd : 0 ≤ d) (xs : List Int) (hx : ∀ x ∈ xs, 0 ≤ x) (i : Nat) (hi : i < xs.length) :
    (issueRev d xs)[i]'(by rw [issueRev_length]; exact hi) = max 0 (xs[i] - max 0 (d - (xs.drop (i + 1)).sum)) := by
  unfold issueRev
  have hlen : (issueFwd d xs.reverse).length = xs.length := by rw [issueFwd_length]; simp
  rw [List.getElem_reverse]
  have hi' : xs.length - 1 - i < xs.reverse.length := by simp; omega
  have := issueFwd_getElem d hd xs.reverse (fun x h => hx x (by simpa using h)) (xs.length - 1 - i) hi'
  simp only [hlen]
  rw [this, List.getElem_reverse]
  have e1 : xs.length - 1 - (xs.length - 1 - i) = i := by omega
  have e2 : (xs.reverse.take (xs.length - 1 - i)).sum = (xs.drop (i + 1)).sum := by
    rw [List.take_reverse, List.sum_reverse]
    congr 2; omega
  simp only [e1, e2]

/-- units are conserved by issuing, in either order: opening stock = units issued (the smaller of demand and stock)
    + remaining stock -/
theorem issue_conservation (d : Int) (hd : 0 ≤ d) (xs : List Int) (hx : ∀ x ∈ xs, 0 ≤ x) :
    xs.sum = min d xs.sum + (issueFwd d xs).sum ∧ xs.sum = min d xs.sum + (issueRev d xs).sum :=
  ⟨issueFwd_conservation d hd xs hx, issueRev_conservation d hd xs hx⟩

theorem issueFwd_zero (xs : List Int) (hx : ∀ x ∈ xs, 0 ≤ x) : issueFwd 0 xs = xs := by
  induction xs with
  | nil => rfl
  | cons x xs ih =>
    have hx0 := hx x (by simp)
    simp only [issueFwd, sub_zero, zero_sub]
    rw [max_eq_left hx0, max_eq_right (by omega), ih (fun y hy => hx y (by simp [hy]))]

/-- a class is drawn on only when every class visited before it is empty: if something remains in slot i, every
    slot visited later is untouched -/
theorem issue_order (d : Int) (hd : 0 ≤ d) (xs : List Int) (hx : ∀ x ∈ xs, 0 ≤ x) (i : Nat) (hi : i < xs.length)
    (hrem : 0 < (issueFwd d xs)[i]'(by rw [issueFwd_length]; exact hi)) :
    (issueFwd d xs).drop (i + 1) = xs.drop (i + 1) := by
  induction xs generalizing d i with
  | nil => simp at hi
  | cons x xs ih =>
    cases i with
    | zero =>
      simp only [issueFwd, List.getElem_cons_zero] at hrem
      have hdx : max (d - x) 0 = 0 := max_eq_right (by omega)
      simp only [issueFwd, hdx, Nat.zero_add, List.drop_succ_cons, List.drop_zero]
      exact issueFwd_zero xs (fun y hy => hx y (by simp [hy]))
    | succ i =>
      simp only [issueFwd, List.getElem_cons_succ] at hrem
      simp only [issueFwd, List.drop_succ_cons]
      exact ih (max (d - x) 0) (le_max_right _ _) (fun y hy => hx y (by simp [hy])) i (by simpa using hi) hrem

theorem sum_take_pred_add_last (l : List Int) (h : l ≠ []) : (l.take (l.length - 1)).sum + l.getLastD 0 = l.sum := by
  have : l = l.dropLast ++ [l.getLast h] := (List.dropLast_append_getLast h).symm
  rw [List.getLastD_eq_getLast?, List.getLast?_eq_some_getLast h]
  conv_rhs => rw [this]
  rw [List.sum_append, ← List.dropLast_eq_take]
  simp

variable {α : Type} [Add α] [Mul α] [Zero α] [One α] [Neg α] [Sub α] [IntCast α]

/-- **De Moor, unit conservation**: opening stock + receipt = units issued + units expired + closing stock;
    the receipt is the oldest pipeline entry and the closing stock is `receipt :: remaining without the expiring class` -/
theorem demoor_units (c : DeMoorCfg α) (s a e : List Int) (hm : 0 < c.m)
    (hstock : ((s.drop (c.L - 1)).take c.m).length = c.m) (hnn : ∀ x ∈ (s.drop (c.L - 1)).take c.m, 0 ≤ x) (hd : 0 ≤ e.headD 0) :
    let stock := (s.drop (c.L - 1)).take c.m
    let after := if c.fifo then issueRev (e.headD 0) stock else issueFwd (e.headD 0) stock
    let receipt := (a ++ s.take (c.L - 1)).getLastD 0
    (deMoorTrans c s a e).1 = (a ++ s.take (c.L - 1)).take (c.L - 1) ++ (receipt :: after.take (c.m - 1)) ∧
    stock.sum + receipt = min (e.headD 0) stock.sum + after.getLastD 0 + (receipt + (after.take (c.m - 1)).sum) := by
  intro stock after receipt
  refine ⟨rfl, ?_⟩
  have hlen : after.length = c.m := by
    simp only [after]; split
    · rw [issueRev_length]; exact hstock
    · rw [issueFwd_length]; exact hstock
  have hne : after ≠ [] := by intro h0; rw [h0] at hlen; simp at hlen; omega
  have hcons : stock.sum = min (e.headD 0) stock.sum + after.sum := by
    simp only [after]; split
    · exact issueRev_conservation _ hd _ hnn
    · exact issueFwd_conservation _ hd _ hnn
  have := sum_take_pred_add_last after hne
  rw [hlen] at this
  omega

/-- **De Moor, pipeline**: the order placed now enters the pipeline at the front; every pipeline entry moves one
    place per step; the entry that has waited `lead_time` steps becomes the newest stock; stock ages one slot per step -/
theorem demoor_pipeline_shift (c : DeMoorCfg α) (s a e : List Int) :
    ((deMoorTrans c s a e).1).take (c.L - 1) = ((a ++ s.take (c.L - 1)).take (c.L - 1)) ∨
    ((a ++ s.take (c.L - 1)).take (c.L - 1)).length < c.L - 1 := by
  by_cases h : ((a ++ s.take (c.L - 1)).take (c.L - 1)).length < c.L - 1
  · right; exact h
  · left
    simp only [deMoorTrans]
    rw [List.take_append_of_le_length (by omega)]
    simp

/-- **Hendrix, unit conservation per product** (issued ≤ stock is the event's meaning) -/
theorem hendrix_units (stock : List Int) (hne : stock ≠ []) (hnn : ∀ x ∈ stock, 0 ≤ x) (issued order : Int) (h0 : 0 ≤ issued) (hle : issued ≤ stock.sum) :
    let after := issueRev issued stock
    stock.sum + order = issued + after.getLastD 0 + (order + (after.take (stock.length - 1)).sum) := by
  intro after
  have hlen : after.length = stock.length := issueRev_length _ _
  have hne' : after ≠ [] := by intro h; rw [h] at hlen; simp at hlen; exact hne (List.eq_nil_of_length_eq_zero hlen.symm)
  have hc : stock.sum = min issued stock.sum + after.sum := issueRev_conservation issued h0 stock hnn
  rw [min_eq_left hle] at hc
  have := sum_take_pred_add_last after hne'
  rw [hlen] at this
  omega

/-- **Mirjalili**: weekday advances cyclically (Sunday = 6 → Monday = 0), the fixed cost is charged iff the order is
    positive, and holding cost is charged on all remaining stock including the expiring units -/
theorem mirjalili_step_spec (c : MirjaliliCfg Int) (s a e : List Int) :
    ((mirjaliliTrans c s a e).1).headD 0 = (s.headD 0 + 1) % 7 ∧
    (let opening := (zipAdd (0 :: (s.drop 1).take (c.m - 1)) ((e.drop 1).take c.m)).map fun x => min (max x 0) (c.Q : Int)
     let after := issueRev (e.headD 0) opening
     (mirjaliliTrans c s a e).2 = -(c.cv * a.headD 0 + c.cf * (if a.headD 0 > 0 then 1 else 0) + c.cs * max (e.headD 0 - sumI opening) 0
        + c.cw * after.getLastD 0 + c.ch * sumI after)) := by
  constructor
  · simp [mirjaliliTrans]
  · simp only [mirjaliliTrans, Int.cast_id]

/-- **Forest**: cutting or fire resets the stand to age 0, otherwise it ages by one up to the oldest class; rewards as documented -/
theorem forest_step_spec (c : ForestCfg Int) (st : Int) (a e : Int) :
    forestTrans c [st] [a] [e] =
      ([if a = 1 ∨ e = 1 then 0 else min (st + 1) ((c.S : Int) - 1)],
       if a = 1 then (if st = (c.S : Int) - 1 then c.r2 else if st = 0 then 0 else 1)
       else (if st = (c.S : Int) - 1 then c.r1 else 0)) := by
  simp only [forestTrans, List.headD_cons]
  congr 1
  · by_cases h1 : a = 1 <;> by_cases h2 : e = 1 <;> simp [h1, h2]
  · by_cases h1 : a = 1 <;> simp [h1]

/-! non-vacuity -/
example : issueFwd 3 [2, 2, 5] = [0, 1, 5] ∧ issueRev 3 [2, 2, 5] = [2, 2, 2] := by decide

end MdpaxV.C15
