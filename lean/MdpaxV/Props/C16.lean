/-
C16 — Shipped problems' event probabilities equal the documented distributions (combination structure).
The primitives (gamma cdf, negative-binomial pmf, exp, Poisson, binomial) are numeric; what is proved is how the code
combines them: parameter conversions, discretisation/censoring, logit order, product form, initial values.
-/
import MdpaxV.Props.C13
import MdpaxV.Model.Backup
import Mathlib.Tactic.FieldSimp
import Mathlib.Tactic.Positivity
set_option linter.unusedSectionVars false
namespace MdpaxV.C16
open MdpaxV
variable {α : Type} [Field α] [LinearOrder α] [IsStrictOrderedRing α]

/-- De Moor `_convert_gamma_parameters`: shape α = 1/cv², rate β = 1/(mean·cv²) give a gamma law with the documented
    mean and coefficient of variation: mean = α/β and variance α/β² = (mean·cv)² -/
theorem gamma_params (mean cv : α) (hm : mean ≠ 0) (hc : cv ≠ 0) :
    let a := 1 / cv ^ 2
    let b := 1 / (mean * cv ^ 2)
    a / b = mean ∧ a / b ^ 2 = (mean * cv) ^ 2 := by
  constructor <;> field_simp

/-- Mirjalili `weekday_demand_negbin_p = n / (delta + n)`: a negative binomial with size n and this success probability
    has mean n(1−p)/p = delta -/
theorem negbin_param (n delta : α) (hn : 0 < n) (hd : 0 < delta) :
    let p := n / (delta + n)
    n * (1 - p) / p = delta := by
  have : delta + n ≠ 0 := by positivity
  field_simp
  ring

theorem diffs_append_two (pre : List α) (a b : α) : diffs (pre ++ [a, b]) = diffs (pre ++ [a]) ++ [b - a] := by
  induction pre with
  | nil => simp [diffs]
  | cons x xs ih =>
    cases xs with
    | nil => simp [diffs]
    | cons y ys =>
      simp only [List.cons_append, diffs] at ih ⊢
      rw [ih]

theorem censored_append_one (ds : List α) (x : α) : censored (ds ++ [x]) = ds ++ [x + (1 - (ds.sum + x))] := by
  unfold censored
  simp [C13.lsum_eq_sum]

/-- **De Moor discretisation and censoring**: for the cdf table F(0), F(½), …, F(D−½), F(D+½) the probabilities of
    d < D are the successive differences F(d+½) − F(d−½) (with F(−½) := F(0)), and the last bin is
    1 − F(D−½) + F(0) (= 1 − F(D−½) for a gamma law): demand is censored at the maximum -/
theorem demoor_censoring (c0 : α) (mid : List α) (a b : α) :
    deMoorProbs (c0 :: mid ++ [a, b]) = diffs (c0 :: mid ++ [a]) ++ [1 - a + c0] := by
  unfold deMoorProbs
  have h1 : c0 :: mid ++ [a, b] = (c0 :: mid) ++ [a, b] := rfl
  have h2 : c0 :: mid ++ [a] = (c0 :: mid) ++ [a] := rfl
  rw [h1, diffs_append_two, censored_append_one, h2]
  congr 2
  have hs : (diffs ((c0 :: mid) ++ [a])).sum = a - c0 := by
    have := C13.diffs_sum c0 (mid ++ [a])
    simpa using this
  rw [hs]; ring

/-- Mirjalili censoring: the last demand bin is the tail mass 1 − Σ_{d<D} nb(d) -/
theorem mirjalili_censoring (init : List α) (last : α) :
    censored (init ++ [last]) = init ++ [1 - init.sum] := by
  rw [censored_append_one]; congr 2; ring

/-- logits as the code builds them: `hstack([0, c0 + c1·a])[::-1]` -/
def mirjaliliLogits (c0 c1 : List α) (a : α) : List α :=
  (0 :: List.zipWith (fun x y => x + y * a) c0 c1).reverse

/-- **logit order**: slot j of the received-stock vector (j = 0 newest … m−1 oldest) carries the category of remaining
    useful life m − j; life 1 has logit 0 and life k ≥ 2 has logit c0[k−2] + c1[k−2]·a -/
theorem mirjalili_logit_order (c0 c1 : List α) (a : α) (hlen : c0.length = c1.length) (j : Nat) (hj : j < c0.length + 1) :
    (mirjaliliLogits c0 c1 a)[j]? =
      some (if c0.length - j = 0 then 0 else c0.getD (c0.length - j - 1) 0 + c1.getD (c0.length - j - 1) 0 * a) := by
  unfold mirjaliliLogits
  have hzl : (List.zipWith (fun x y => x + y * a) c0 c1).length = c0.length := by simp [hlen]
  rw [List.getElem?_reverse (by simp [hzl]; omega)]
  simp only [List.length_cons, hzl]
  by_cases h0 : c0.length - j = 0
  · have : c0.length + 1 - 1 - j = 0 := by omega
    simp [h0, this]
  · have hk : c0.length + 1 - 1 - j = (c0.length - j - 1) + 1 := by omega
    rw [hk, List.getElem?_cons_succ, if_neg h0]
    have hi : c0.length - j - 1 < c0.length := by omega
    rw [List.getElem?_eq_getElem (by rw [hzl]; exact hi)]
    simp [List.getElem_zipWith, List.getD_eq_getElem?_getD, List.getElem?_eq_getElem hi, List.getElem?_eq_getElem (show c0.length - j - 1 < c1.length by omega)]

/-- Hendrix `initial_value`: expected one-step sales revenue under the event distribution, Σ_e P(e)·(prices · e) -/
def hendrixInitialValue (probs : List α) (revenues : List α) : α := dot probs revenues

theorem hendrix_initial_value (probs revenues : List α) (h : probs.length = revenues.length) :
    hendrixInitialValue probs revenues = (List.zipWith (· * ·) probs revenues).sum := by
  unfold hendrixInitialValue
  induction probs generalizing revenues with
  | nil => simp [dot]
  | cons p ps ih =>
    cases revenues with
    | nil => simp at h
    | cons r rs => simp [dot, ih rs (by simpa using h)]

/-- Forest: the documented table [[1−p, p], [1, 0]] -/
theorem forest_table (c : ForestCfg α) (s : List Int) :
    forestProb c s [0] [0] = 1 - c.p ∧ forestProb c s [0] [1] = c.p ∧ forestProb c s [1] [0] = 1 ∧ forestProb c s [1] [1] = 0 := by
  simp [forestProb]

end MdpaxV.C16
