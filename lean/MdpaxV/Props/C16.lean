/-
C16 — Shipped problems' event probabilities equal the documented distributions (combination structure).
The primitives (gamma cdf, negative-binomial pmf, exp, Poisson, binomial) are numeric; what is proved is how the code
combines them: parameter conversions, discretisation/censoring, logit order, product form, initial values.
-/
import MdpaxV.Props.C13
import MdpaxV.Theory.Hendrix
import MdpaxV.Model.Backup
import Mathlib.Tactic.FieldSimp
import Mathlib.Tactic.Positivity
set_option linter.unusedSectionVars false
namespace MdpaxV.C16
open MdpaxV
variable {α : Type} [Field α] [LinearOrder α] [IsStrictOrderedRing α]

/-- De Moor `_convert_gamma_parameters`: shape α = 1/cv², rate β = 1/(mean·cv²) give a gamma law with the documented
    mean and coefficient of variation: mean = α/β and variance α/β² = (mean·cv)² -/
theorem gamma_params (mean cv : α) (hm : mean ≠ 0) (hc : cv ≠ 0) :
    let a := 1 / cv ^ 2
    let b := 1 / (mean * cv ^ 2)
    a / b = mean ∧ a / b ^ 2 = (mean * cv) ^ 2 := by
  constructor <;> field_simp

/-- Mirjalili `weekday_demand_negbin_p = n / (delta + n)`: a negative binomial with size n and this success probability
    has mean n(1−p)/p = delta -/
theorem negbin_param (n delta : α) (hn : 0 < n) (hd : 0 < delta) :
    let p := n / (delta + n)
    n * (1 - p) / p = delta := by
  have : delta + n ≠ 0 := by positivity
  field_simp
  ring

theorem diffs_append_two (pre : List α) (a b : α) : diffs (pre ++ [a, b]) = diffs (pre ++ [a]) ++ [b - a] := by
  induction pre with
  | nil => simp [diffs]
  | cons x xs ih =>
    cases xs with
    | nil => simp [diffs]
    | cons y ys =>
      simp only [List.cons_append, diffs] at ih ⊢
      rw [ih]

theorem censored_append_one (ds : List α) (x : α) : censored (ds ++ [x]) = ds ++ [x + (1 - (ds.sum + x))] := by
  unfold censored
  simp [C13.lsum_eq_sum]

/-- **De Moor discretisation and censoring**: for the cdf table F(0), F(½), …, F(D−½), F(D+½) the probabilities of
    d < D are the successive differences F(d+½) − F(d−½) (with F(−½) := F(0)), and the last bin is
    1 − F(D−½) + F(0) (= 1 − F(D−½) for a gamma law): demand is censored at the maximum -/
theorem demoor_censoring (c0 : α) (mid : List α) (a b : α) :
    deMoorProbs (c0 :: mid ++ [a, b]) = diffs (c0 :: mid ++ [a]) ++ [1 - a + c0] := by
  unfold deMoorProbs
  have h1 : c0 :: mid ++ [a, b] = (c0 :: mid) ++ [a, b] := rfl
  have h2 : c0 :: mid ++ [a] = (c0 :: mid) ++ [a] := rfl
  rw [h1, diffs_append_two, censored_append_one, h2]
  congr 2
  have hs : (diffs ((c0 :: mid) ++ [a])).sum = a - c0 := by
    have := C13.diffs_sum c0 (mid ++ [a])
    simpa using this
  rw [hs]; ring

/-- Mirjalili censoring: the last demand bin is the tail mass 1 − Σ_{d<D} nb(d) -/
theorem mirjalili_censoring (init : List α) (last : α) :
    censored (init ++ [last]) = init ++ [1 - init.sum] := by
  rw [censored_append_one]; congr 2; ring

/-- logits as the code builds them: `hstack([0, c0 + c1·a])[::-1]` -/
def mirjaliliLogits (c0 c1 : List α) (a : α) : List α :=
  (0 :: List.zipWith (fun x y => x + y * a) c0 c1).reverse

/-- **logit order**: slot j of the received-stock vector (j = 0 newest … m−1 oldest) carries the category of remaining
    useful life m − j; life 1 has logit 0 and life k ≥ 2 has logit c0[k−2] + c1[k−2]·a -/
theorem mirjalili_logit_order (c0 c1 : List α) (a : α) (hlen : c0.length = c1.length) (j : Nat) (hj : j < c0.length + 1) :
    (mirjaliliLogits c0 c1 a)[j]? =
      some (if c0.length - j = 0 then 0 else c0.getD (c0.length - j - 1) 0 + c1.getD (c0.length - j - 1) 0 * a) := by
  unfold mirjaliliLogits
  have hzl : (List.zipWith (fun x y => x + y * a) c0 c1).length = c0.length := by simp [hlen]
  rw [List.getElem?_reverse (by simp [hzl]; omega)]
  simp only [List.length_cons, hzl]
  by_cases h0 : c0.length - j = 0
  · have : c0.length + 1 - 1 - j = 0 := by omega
    simp [h0, this]
  · have hk : c0.length + 1 - 1 - j = (c0.length - j - 1) + 1 := by omega
    rw [hk, List.getElem?_cons_succ, if_neg h0]
    have hi : c0.length - j - 1 < c0.length := by omega
    rw [List.getElem?_eq_getElem (by rw [hzl]; exact hi)]
    simp [List.getElem_zipWith, List.getD_eq_getElem?_getD, List.getElem?_eq_getElem hi, List.getElem?_eq_getElem (show c0.length - j - 1 < c1.length by omega)]

/-- Hendrix `initial_value`: expected one-step sales revenue under the event distribution, Σ_e P(e)·(prices · e) -/
def hendrixInitialValue (probs : List α) (revenues : List α) : α := dot probs revenues

theorem hendrix_initial_value (probs revenues : List α) (h : probs.length = revenues.length) :
    hendrixInitialValue probs revenues = (List.zipWith (· * ·) probs revenues).sum := by
  unfold hendrixInitialValue
  induction probs generalizing revenues with
  | nil => simp [dot]
  | cons p ps ih =>
    cases revenues with
    | nil => simp at h
    | cons r rs => simp [dot, ih rs (by simpa using h)]

/-- Forest: the documented table [[1−p, p], [1, 0]] -/
theorem forest_table (c : ForestCfg α) (s : List Int) :
    forestProb c s [0] [0] = 1 - c.p ∧ forestProb c s [0] [1] = c.p ∧ forestProb c s [1] [0] = 1 ∧ forestProb c s [1] [1] = 0 := by
  simp [forestProb]

/-! ### Hendrix: the implementation's four masked arrays are the documented joint law -/
section HendrixLaw
open MdpaxV.Hendrix Finset
/-- **the four masked arrays add up to the documented joint law**: for all stock totals (x, y) and every cell (ia, ib) the
    implementation's probability equals the enumeration over demands and substitution (inside the truncation region) -/
theorem hendrix_cell_is_joint_law (t : HendrixTab α) (x y ia ib : Nat) (hx : x ≤ t.D) :
    hendrixCell t x y ia ib = hendrixSpecCell t x y ia ib := by
  unfold hendrixCell hendrixSpecCell hendrixP1 hendrixP2 hendrixP3 hendrixP4
  rcases lt_trichotomy ib y with hlt | heq | hgt
  · have hne : ib ≠ y := by omega
    simp only [hlt, hne, if_true, if_false, and_false, add_zero]
    rcases lt_trichotomy ia x with h1 | h1 | h1
    · have : ia ≠ x := by omega
      simp only [h1, this, if_true, if_false, add_zero]; ring
    · subst h1; simp only [lt_irrefl, if_true, if_false, zero_mul, zero_add]; ring
    · have h2 : ¬ ia < x := by omega
      have h3 : ia ≠ x := by omega
      simp only [h2, h3, if_false, zero_mul, add_zero, mul_zero]
  · subst heq
    simp only [lt_irrefl, if_false, mul_zero, ite_self, and_true, if_true, zero_add]
    -- the triple sum as a weighting of pz
    have hspec : lsum ((List.range (t.D - ib)).map fun e => lsum ((List.range (e + 1)).map fun u =>
          lsum ((List.range (t.D - u + 1)).map fun dA =>
            if min (dA + u) x = ia then t.pa dA * t.pb (e + ib) * binomPmf t.rho e u else 0)))
        = ∑ z ∈ range (t.D + 1), (if min z x = ia then (1 : α) else 0) * hendrixPz t z ib := by
      rw [pz_sum, lsum_range]
      apply Finset.sum_congr rfl; intro e _
      rw [lsum_range]
      apply Finset.sum_congr rfl; intro u _
      rw [lsum_range]
      apply Finset.sum_congr rfl; intro dA _
      split <;> simp
    rw [hspec]
    rcases lt_trichotomy ia x with h1 | h1 | h1
    · have h3 : ia ≠ x := by omega
      simp only [h1, h3, if_true, if_false, add_zero]
      rw [Finset.sum_eq_single ia]
      · simp [Nat.min_eq_left (le_of_lt h1)]
      · intro z _ hz
        have : min z x ≠ ia := by
          intro h; rcases Nat.le_total z x with h' | h'
          · rw [Nat.min_eq_left h'] at h; exact hz h
          · rw [Nat.min_eq_right h'] at h; omega
        simp [this]
      · intro h; exfalso; apply h; simp; omega
    · subst h1
      simp only [lt_irrefl, if_false, if_true, zero_add]
      rw [lsum_range]
      apply Finset.sum_congr rfl; intro z _
      by_cases hz : ia ≤ z
      · simp [hz, Nat.min_eq_right hz]
      · have : min z ia ≠ ia := by rw [Nat.min_eq_left (by omega)]; omega
        simp [hz, this]
    · have h2 : ¬ ia < x := by omega
      have h3 : ia ≠ x := by omega
      simp only [h2, h3, if_false, add_zero]
      symm
      apply Finset.sum_eq_zero
      intro z _
      have : min z x ≠ ia := by have := Nat.min_le_right z x; omega
      simp [this]
  · have hne : ib ≠ y := by omega
    have hnl : ¬ ib < y := by omega
    simp [hne, hnl]


/-- non-vacuity: a concrete table (D = 3, stocks up to 2/1, ρ = 1/2) — the cell formula and the enumeration agree and are non-zero -/
example : hendrixCell (⟨3, 2, 1, fun n => [(1/2 : Rat), 1/4, 1/8, 1/16].getD n 0, fun n => [(1/2 : Rat), 1/4, 1/8, 1/16].getD n 0, fun _ => 1/2, 1/2⟩ : HendrixTab Rat) 1 1 1 1 = 49/256 ∧
    hendrixSpecCell (⟨3, 2, 1, fun n => [(1/2 : Rat), 1/4, 1/8, 1/16].getD n 0, fun n => [(1/2 : Rat), 1/4, 1/8, 1/16].getD n 0, fun _ => 1/2, 1/2⟩ : HendrixTab Rat) 1 1 1 1 = 49/256 := by
  constructor <;> decide +kernel
end HendrixLaw

end MdpaxV.C16
