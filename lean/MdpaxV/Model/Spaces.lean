/-
Model of `mdpax.utils.spaces.create_range_space`:
  space    = itertools.product of the inclusive ranges (row-major)
  index_fn = jnp.ravel_multi_index(vector - mins, dimensions, mode="clip")
Core Lean only.
-/
namespace MdpaxV

/-- integers lo, lo+1, …, lo+k-1 -/
def intRange (lo : Int) (k : Nat) : List Int := (List.range k).map fun (i : Nat) => lo + (i : Int)

/-- number of values per dimension: `maxs - mins + 1` (0 if max < min) -/
def dimsOf : List Int → List Int → List Nat
  | lo :: los, hi :: his => (hi - lo + 1).toNat :: dimsOf los his
  | _, _ => []

/-- row-major box: `ks[j]` values starting at `los[j]` in coordinate j -/
def space : List Int → List Nat → List (List Int)
  | lo :: los, k :: ks => (intRange lo k).flatMap fun x => (space los ks).map (x :: ·)
  | _, _ => [[]]

/-- `create_range_space(mins, maxs)[0]` -/
def rangeSpace (mins maxs : List Int) : List (List Int) := space mins (dimsOf mins maxs)

/-- `ravel_multi_index(v - mins, dims, mode="clip")`: each shifted coordinate is clipped into `[0, k-1]` -/
def ravel : List Int → List Nat → List Int → Nat
  | lo :: los, k :: ks, x :: xs => (min (max (x - lo) 0) (k - 1 : Int)).toNat * ks.prod + ravel los ks xs
  | _, _, _ => 0

/-- `create_range_space(mins, maxs)[1]` -/
def indexFn (mins maxs : List Int) (v : List Int) : Nat := ravel mins (dimsOf mins maxs) v

/-- nearest vector of the box in each coordinate -/
def clipBox : List Int → List Nat → List Int → List Int
  | lo :: los, k :: ks, x :: xs => (lo + min (max (x - lo) 0) (k - 1 : Int)) :: clipBox los ks xs
  | _, _, _ => []

end MdpaxV
