/-
Model of the Bellman sweep of `mdpax.solvers.value_iteration.ValueIteration`
(`_calculate_updated_state_action_value`, `_calculate_updated_value`, `_extract_policy_idx_one_state`,
 the scan/pmap drivers, `_get_span`, `_get_max_diff`) and of the policy-evaluation sweep of
`PolicyIteration._calculate_policy_value_state_batch`.

Generic over a number type with *core* type classes only, so the same definitions are executed at `Rat`
by the driver and reasoned about over every linearly ordered field in `Props/`.
-/
import MdpaxV.Model.Batch
namespace MdpaxV

/-- A problem after tabulation: states / actions / events are numbered in the order of
    `state_space`, `action_space`, `random_event_space`.
    `nxt s a e`  = `state_to_index(transition(state_s, action_a, event_e)[0])` (raw, may be out of range),
    `rew s a e`  = `transition(...)[1]`, `prob s a e` = `random_event_probability(...)`,
    `sidx s`     = `state_to_index(state_s)`, `zidx` = `state_to_index(0-vector)` (padding rows),
    `initVal s`  = `initial_value(state_s)`. -/
structure Problem (α : Type) where
  nS : Nat
  nA : Nat
  nE : Nat
  nxt : Nat → Nat → Nat → Int
  rew : Nat → Nat → Nat → α
  prob : Nat → Nat → Nat → α
  sidx : Nat → Int
  zidx : Int
  initVal : Nat → α

/-- position read by `values[i]` under JAX gather semantics for a length-`n` vector:
    negative indices wrap once (NumPy style), then the index is clamped into `[0, n-1]`. -/
def clampIdx (n : Nat) (i : Int) : Nat :=
  let j : Int := if i < 0 then i + n else i
  if j < 0 then 0 else if j ≥ n then n - 1 else j.toNat

section
variable {α : Type}

/-- `values[i]` -/
def look [Zero α] (V : List α) (i : Int) : α := (V[clampIdx V.length i]?).getD 0

variable [Add α] [Mul α] [Zero α]

/-- `xs.dot(ps)` -/
def dot : List α → List α → α
  | x :: xs, y :: ys => x * y + dot xs ys
  | _, _ => 0

/-- expected value of a state/action pair given a lookup `v` of successor values:
    `(single_step_rewards + gamma * next_state_values).dot(probs)` -/
def qval (P : Problem α) (γ : α) (v : Int → α) (s a : Nat) : α :=
  dot ((List.range P.nE).map fun e => P.rew s a e + γ * v (P.nxt s a e))
      ((List.range P.nE).map fun e => P.prob s a e)

/-- the row of action values of a state -/
def qrow (P : Problem α) (γ : α) (v : Int → α) (s : Nat) : List α :=
  (List.range P.nA).map (qval P γ v s)

variable [Max α]

/-- `jnp.max` of a list seeded with its first element -/
def maxL (x : α) : List α → α
  | [] => x
  | y :: ys => maxL (max x y) ys

/-- `jnp.max(xs)`; `0` for the empty list (the code requires at least one action) -/
def maxList : List α → α
  | [] => 0
  | x :: xs => maxL x xs

/-- Bellman optimality backup of one state: `jnp.max` over actions of `qval` -/
def backup (P : Problem α) (γ : α) (v : Int → α) (s : Nat) : α := maxList (qrow P γ v s)

variable [LT α] [DecidableLT α]

/-- `jnp.argmax`: first index attaining the maximum (0 for the empty list).
    `go best bestIdx i rest` -/
def argmaxGo (best : α) (bi : Nat) (i : Nat) : List α → Nat
  | [] => bi
  | y :: ys => if best < y then argmaxGo y i (i+1) ys else argmaxGo best bi (i+1) ys

def argmaxList : List α → Nat
  | [] => 0
  | x :: xs => argmaxGo x 0 1 xs

/-- greedy action index of one state -/
def greedyIdx (P : Problem α) (γ : α) (v : Int → α) (s : Nat) : Nat := argmaxList (qrow P γ v s)

/-- the states in natural order as slots; a padding slot is `none` -/
def stateSlots (n : Nat) : List (Option Nat) := (List.range n).map some

/-- value computed for a slot: real slots get `f s`; the padding slot computes something from the all-zero
    vector, which we leave arbitrary (`padv`) -/
def onSlot {γ' : Type} (f : Nat → γ') (padv : γ') : Option Nat → γ'
  | some s => f s
  | none => padv

/-- one synchronous sweep (`ValueIteration._update_values`): pmap/scan/vmap of `backup` over the prepared
    layout, then `unbatch`. `padv` is whatever the padding rows compute. -/
def sweep (P : Problem α) (c : BatchCfg) (γ : α) (V : List α) (padv : α) : List α :=
  unbatch c (map3 (onSlot (backup P γ (look V)) padv) (prepare c none (stateSlots P.nS)))

/-- `_extract_policy`: greedy action *indices* (the code then gathers the action vectors) -/
def policy (P : Problem α) (c : BatchCfg) (γ : α) (V : List α) (padv : Nat) : List Nat :=
  unbatch c (map3 (onSlot (greedyIdx P γ (look V)) padv) (prepare c none (stateSlots P.nS)))

/-- `Solver._initialize_values` -/
def initValues (P : Problem α) (c : BatchCfg) (padv : α) : List α :=
  unbatch c (map3 (onSlot P.initVal padv) (prepare c none (stateSlots P.nS)))

/-- policy-evaluation sweep (`PolicyIteration._calculate_policy_values`): the action of the row at
    `state_to_index(state)` of `policy`, gathered with JAX clamping; `pol` holds action indices -/
def evalSweep (P : Problem α) (c : BatchCfg) (γ : α) (pol : List Nat) (V : List α) (padv : α) : List α :=
  unbatch c (map3 (onSlot (fun s => qval P γ (look V) s ((pol[clampIdx pol.length (P.sidx s)]?).getD 0)) padv)
    (prepare c none (stateSlots P.nS)))

variable [Sub α] [Min α]

def minL (x : α) : List α → α
  | [] => x
  | y :: ys => minL (min x y) ys

def minList : List α → α
  | [] => 0
  | x :: xs => minL x xs

/-- elementwise difference -/
def vsub : List α → List α → List α
  | x :: xs, y :: ys => (x - y) :: vsub xs ys
  | _, _ => []

/-- `_get_span` -/
def spanOf (new old : List α) : α := maxList (vsub new old) - minList (vsub new old)

variable [Neg α]

/-- `jnp.abs` -/
def absv (x : α) : α := if x < 0 then -x else x

/-- `_get_max_diff` -/
def maxDiff (new old : List α) : α := maxList ((vsub new old).map absv)

end
end MdpaxV
