/-
Model of `mdpax.utils.batch_processing.BatchProcessor` (core Lean only, executable).

  __init__          ↦ `spd`, `bsz`, `nb`, `slots`, `npad`
  prepare_batches   ↦ `prepare`   (pad with `z` iff npad > 0, then reshape dev × nb × bsz)
  unbatch_results   ↦ `unbatch`   (reshape(-1, …), then `[: -n_pad]` iff npad > 0)

`jnp.reshape` of a row-major array is modelled by `chunks` (consecutive slices); trailing result
dimensions are modelled by the element type `β` being arbitrary.
-/
namespace MdpaxV

/-- the three inputs of `BatchProcessor.__init__` (`pmap_device_count` given explicitly) -/
structure BatchCfg where
  n : Nat
  maxbs : Nat
  dev : Nat
deriving Repr, DecidableEq

/-- `states_per_device = (n_states + n_devices - 1) // n_devices` -/
def spd (c : BatchCfg) : Nat := (c.n + c.dev - 1) / c.dev

/-- `batch_size` -/
def bsz (c : BatchCfg) : Nat :=
  if c.dev = 1 then min c.maxbs c.n else min c.maxbs (max 64 (spd c))

/-- `n_batches` -/
def nb (c : BatchCfg) : Nat :=
  if spd c ≤ bsz c then 1 else (spd c + bsz c - 1) / bsz c

/-- `total_size = n_devices * n_batches * batch_size` -/
def slots (c : BatchCfg) : Nat := c.dev * nb c * bsz c

/-- `n_pad = total_size - n_states` (an `int` in Python: may be negative for invalid inputs) -/
def npad (c : BatchCfg) : Int := (slots c : Int) - (c.n : Int)

/-- split into consecutive chunks of length `k` (last one may be short); `k = 0` gives `[]`.
    Structural recursion on a fuel argument so that the kernel can evaluate it. -/
def chunksAux {β : Type} (k : Nat) : Nat → List β → List (List β)
  | 0, _ => []
  | fuel+1, xs => if k = 0 ∨ xs.isEmpty then [] else xs.take k :: chunksAux k fuel (xs.drop k)

def chunks {β : Type} (k : Nat) (xs : List β) : List (List β) := chunksAux k xs.length xs

/-- apply `f` to every slot of a devices × batches × batch_size layout
    (`pmap` over devices, `lax.scan` without carry dependence over batches, `vmap` over slots) -/
def map3 {β γ : Type} (f : β → γ) (r : List (List (List β))) : List (List (List γ)) :=
  r.map (fun d => d.map (fun b => b.map f))

/-- `prepare_batches`: pad with `z` iff `n_pad > 0`, then reshape to (dev, nb, bsz) -/
def prepare {β : Type} (c : BatchCfg) (z : β) (xs : List β) : List (List (List β)) :=
  let padded := if npad c > 0 then xs ++ List.replicate (npad c).toNat z else xs
  chunks (nb c) (chunks (bsz c) padded)

/-- `unbatch_results`: flatten the three leading axes, strip `n_pad` trailing rows iff `n_pad > 0` -/
def unbatch {β : Type} (c : BatchCfg) (r : List (List (List β))) : List β :=
  let f := r.flatten.flatten
  if npad c > 0 then f.take (f.length - (npad c).toNat) else f

/-- shape of a nested list as (devices, batches per device, slots per batch) lists -/
def shape3 {β : Type} (r : List (List (List β))) : Nat × List Nat × List (List Nat) :=
  (r.length, r.map List.length, r.map (fun d => d.map List.length))

end MdpaxV
