/-
Structure of the event probabilities of the shipped problems, with the special functions as *table parameters*:
  De Moor    : demand_probabilities = diff(cdf at 0, ½, …, D+½); last += 1 − sum
  Mirjalili  : P(event) = demand_probs[weekday][d] · (multinomial pmf of the received split if Σ split = order else 0),
               demand_probs = negative-binomial pmf at 0..D with last += 1 − sum
  Forest     : [[1−p, p], [1, 0]]
Core Lean only.
-/
import MdpaxV.Model.Shipped
namespace MdpaxV
section
variable {α : Type} [Add α] [Mul α] [Zero α] [One α] [Sub α]

def lsum (l : List α) : α := l.foldl (· + ·) 0

/-- `jnp.diff` -/
def diffs : List α → List α
  | x :: y :: rest => (y - x) :: diffs (y :: rest)
  | _ => []

/-- `p.at[-1].add(1 - p.sum())`: fold the tail mass into the last bin -/
def censored (l : List α) : List α :=
  match l.reverse with
  | [] => []
  | last :: revInit => ((last + (1 - lsum l)) :: revInit).reverse

/-- De Moor: `_calculate_demand_probabilities` from the cdf table -/
def deMoorProbs (cdf : List α) : List α := censored (diffs cdf)

/-- all vectors of length m of naturals summing to n, lexicographic -/
def splits : Nat → Nat → List (List Nat)
  | 0, 0 => [[]]
  | 0, _+1 => []
  | m+1, n => (List.range (n+1)).flatMap fun i => (splits m (n - i)).map (i :: ·)

/-- binomial coefficient (Pascal recursion) -/
def choose : Nat → Nat → Nat
  | _, 0 => 1
  | 0, _+1 => 0
  | n+1, k+1 => choose n k + choose n (k+1)

/-- multinomial coefficient (Σk)! / ∏ kᵢ! as a product of binomials -/
def multi : List Nat → Nat
  | [] => 1
  | k :: ks => choose (k + ks.sum) k * multi ks

variable [NatCast α] [HPow α Nat α]

/-- ∏ pᵢ^kᵢ -/
def powProd : List α → List Nat → α
  | p :: ps, k :: ks => p ^ k * powProd ps ks
  | _, _ => 1

/-- multinomial pmf with category probabilities `ps` at the split `ks` -/
def multinomialPmf (ps : List α) (ks : List Nat) : α := (multi ks : α) * powProd ps ks

/-- Mirjalili event probability: demand probability × (split probability if the split sums to the order, else 0) -/
def mirjaliliProb (demandP : Nat → α) (cat : Nat → List α) (order : Nat) (d : Nat) (k : List Nat) : α :=
  demandP d * (if k.sum = order then multinomialPmf (cat order) k else 0)

/-- one (weekday, order) row of Mirjalili event probabilities, in the order of `mirjaliliEvents`: the event vector is
    `[demand, received_1, …, received_m]` -/
def mirjaliliRow {β : Type} (c : MirjaliliCfg β) (demandP : Nat → α) (cat : Nat → List α) (order : Nat) : List α :=
  (mirjaliliEvents c).map fun ev => mirjaliliProb demandP cat order (ev.headD 0).toNat ((ev.drop 1).map Int.toNat)

/-! ### Hendrix two-product: joint law of the units issued -/

/-- `scipy.stats.binom.pmf(k, n, ρ)` = C(n,k) ρ^k (1−ρ)^(n−k) -/
def binomPmf (ρ : α) (n k : Nat) : α := (choose n k : α) * ρ ^ k * (1 - ρ) ^ (n - k)

/-- the primitive tables of the Hendrix problem: Poisson pmfs of both demands, the upper tail `1 − cdf_A(x − 1)` exactly as the code
    computes it, the substitution probability and the three size limits -/
structure HendrixTab (α : Type) where
  D : Nat              -- max_demand = max_useful_life · (max(Qa, Qb) + 2)
  maxA : Nat           -- max_stock_a
  maxB : Nat           -- max_stock_b
  pa : Nat → α
  pb : Nat → α
  tailA : Nat → α      -- `1 - poisson.cdf(stock_a - 1, mean_a)`
  rho : α

/-- `_calculate_pu`: pu[u, y] = Σ_{x = u}^{D−y−1} pb(x + y) · binom.pmf(u, x, ρ) for u < D − y, else 0 -/
def hendrixPu (t : HendrixTab α) (u y : Nat) : α :=
  if u < t.D - y then lsum ((List.range (t.D - y - u)).map fun j => t.pb (u + j + y) * binomPmf t.rho (u + j) u) else 0

/-- `_calculate_pz`: pz[z, y] = Σ_{k ≤ z} pa(k) · pu[z − k, y] -/
def hendrixPz (t : HendrixTab α) (z y : Nat) : α :=
  lsum ((List.range (z + 1)).map fun k => t.pa k * hendrixPu t (z - k) y)

/-- the four masked arrays of `random_event_probability`, cell (ia, ib), for stock totals (x, y) -/
def hendrixP1 (t : HendrixTab α) (x y ia ib : Nat) : α :=
  (if ia < x then t.pa ia else 0) * (if ib < y then t.pb ib else 0)
def hendrixP2 (t : HendrixTab α) (x y ia ib : Nat) : α :=
  if ia = x then t.tailA x * (if ib < y then t.pb ib else 0) else 0
def hendrixP3 (t : HendrixTab α) (x y ia ib : Nat) : α :=
  if ib = y then (if ia < x then hendrixPz t ia y else 0) else 0
def hendrixP4 (t : HendrixTab α) (x y ia ib : Nat) : α :=
  if ia = x ∧ ib = y then lsum ((List.range (t.D + 1)).map fun z => if x ≤ z then hendrixPz t z y else 0) else 0

def hendrixCell (t : HendrixTab α) (x y ia ib : Nat) : α :=
  hendrixP1 t x y ia ib + hendrixP2 t x y ia ib + hendrixP3 t x y ia ib + hendrixP4 t x y ia ib

/-- `(probs_1 + probs_2 + probs_3 + probs_4).reshape(-1)`: the row of event probabilities in the order of the event space
    (issued_a major, issued_b minor) -/
def hendrixRow (t : HendrixTab α) (x y : Nat) : List α :=
  (List.range (t.maxA + 1)).flatMap fun ia => (List.range (t.maxB + 1)).map fun ib => hendrixCell t x y ia ib

/-- **specification**: the documented joint law, enumerated over demands and substitution, inside the implementation's truncation
    region (d_B < D, d_A + u ≤ D): demand for B below stock is met in full and A sells min(stock, demand); otherwise B sells out,
    each unit of unmet demand asks for A with probability ρ, and A sells min(stock, own demand + substitution demand) -/
def hendrixSpecCell (t : HendrixTab α) (x y ia ib : Nat) : α :=
  (if ib < y then t.pb ib * (if ia < x then t.pa ia else if ia = x then t.tailA x else 0) else 0) +
  (if ib = y then
    lsum ((List.range (t.D - y)).map fun e =>               -- e = d_B − y, unmet demand for B
      lsum ((List.range (e + 1)).map fun u =>               -- u = substitution demand
        lsum ((List.range (t.D - u + 1)).map fun dA =>
          if min (dA + u) x = ia then t.pa dA * t.pb (e + y) * binomPmf t.rho e u else 0)))
   else 0)

end
end MdpaxV
