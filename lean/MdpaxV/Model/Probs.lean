/-
Structure of the event probabilities of the shipped problems, with the special functions as *table parameters*:
  De Moor    : demand_probabilities = diff(cdf at 0, ½, …, D+½); last += 1 − sum
  Mirjalili  : P(event) = demand_probs[weekday][d] · (multinomial pmf of the received split if Σ split = order else 0),
               demand_probs = negative-binomial pmf at 0..D with last += 1 − sum
  Forest     : [[1−p, p], [1, 0]]
Core Lean only.
-/
import MdpaxV.Model.Shipped
namespace MdpaxV
section
variable {α : Type} [Add α] [Mul α] [Zero α] [One α] [Sub α]

def lsum (l : List α) : α := l.foldl (· + ·) 0

/-- `jnp.diff` -/
def diffs : List α → List α
  | x :: y :: rest => (y - x) :: diffs (y :: rest)
  | _ => []

/-- `p.at[-1].add(1 - p.sum())`: fold the tail mass into the last bin -/
def censored (l : List α) : List α :=
  match l.reverse with
  | [] => []
  | last :: revInit => ((last + (1 - lsum l)) :: revInit).reverse

/-- De Moor: `_calculate_demand_probabilities` from the cdf table -/
def deMoorProbs (cdf : List α) : List α := censored (diffs cdf)

/-- all vectors of length m of naturals summing to n, lexicographic -/
def splits : Nat → Nat → List (List Nat)
  | 0, 0 => [[]]
  | 0, _+1 => []
  | m+1, n => (List.range (n+1)).flatMap fun i => (splits m (n - i)).map (i :: ·)

/-- binomial coefficient (Pascal recursion) -/
def choose : Nat → Nat → Nat
  | _, 0 => 1
  | 0, _+1 => 0
  | n+1, k+1 => choose n k + choose n (k+1)

/-- multinomial coefficient (Σk)! / ∏ kᵢ! as a product of binomials -/
def multi : List Nat → Nat
  | [] => 1
  | k :: ks => choose (k + ks.sum) k * multi ks

variable [NatCast α] [HPow α Nat α]

/-- ∏ pᵢ^kᵢ -/
def powProd : List α → List Nat → α
  | p :: ps, k :: ks => p ^ k * powProd ps ks
  | _, _ => 1

/-- multinomial pmf with category probabilities `ps` at the split `ks` -/
def multinomialPmf (ps : List α) (ks : List Nat) : α := (multi ks : α) * powProd ps ks

/-- Mirjalili event probability: demand probability × (split probability if the split sums to the order, else 0) -/
def mirjaliliProb (demandP : Nat → α) (cat : Nat → List α) (order : Nat) (d : Nat) (k : List Nat) : α :=
  demandP d * (if k.sum = order then multinomialPmf (cat order) k else 0)

/-- one (weekday, order) row of Mirjalili event probabilities, in the order of `mirjaliliEvents`: the event vector is
    `[demand, received_1, …, received_m]` -/
def mirjaliliRow {β : Type} (c : MirjaliliCfg β) (demandP : Nat → α) (cat : Nat → List α) (order : Nat) : List α :=
  (mirjaliliEvents c).map fun ev => mirjaliliProb demandP cat order (ev.headD 0).toNat ((ev.drop 1).map Int.toNat)

end
end MdpaxV
