/-
Filesystem-level protocol of one checkpoint directory, as mdpax drives Orbax (observed with strace on every run):
  save(k) accepted  ⇒  mkdir  <k>.orbax-checkpoint-tmp ; (writes inside it) ; rename  <k>.orbax-checkpoint-tmp → <k>   (commit)
                        then, for every committed step beyond `max_to_keep`: unlink its files one by one ; rmdir <j>
  save(k) with k ≤ latest committed step is skipped (no event).
A crash is a prefix of the event sequence.  `restore` looks at the committed directories only.
Core Lean only.
-/
namespace MdpaxV

inductive FsEvent where
  | mkTmp (k : Nat)
  | commit (k : Nat)
  | delStart (k : Nat)
  | delDone (k : Nat)
deriving Repr, DecidableEq

/-- directory state: committed step directories (ascending), temporary directories, and committed directories that are
    being deleted (still listed, partially emptied) -/
structure Fs where
  committed : List Nat := []
  tmp : List Nat := []
  deleting : List Nat := []
deriving Repr, DecidableEq

def Fs.step (fs : Fs) : FsEvent → Fs
  | .mkTmp k => { fs with tmp := if fs.tmp.contains k then fs.tmp else fs.tmp ++ [k] }
  | .commit k => { fs with tmp := fs.tmp.filter (· ≠ k), committed := fs.committed ++ [k] }
  | .delStart k => { fs with deleting := if fs.deleting.contains k then fs.deleting else fs.deleting ++ [k] }
  | .delDone k => { fs with deleting := fs.deleting.filter (· ≠ k), committed := fs.committed.filter (· ≠ k) }

def Fs.run (fs : Fs) (evs : List FsEvent) : Fs := evs.foldl Fs.step fs

/-- the step `restore()` picks by default: the largest committed label (temporary directories are never candidates) -/
def Fs.latest (fs : Fs) : Option Nat := fs.committed.getLast?

/-- is this event allowed by the protocol in this directory state?
    mkTmp k   : k is newer than every committed step (a temporary directory left by a crashed save of the same step is simply
                recreated after the resume, so one may already exist)
    commit k  : a temporary directory of k exists and k is newer than every committed step
    delStart j: j is committed and **older than the latest committed step** (a deletion interrupted by a crash is simply started again
                after the resume, so j may already be half-deleted)
    delDone j : j is being deleted -/
def okEvent (fs : Fs) : FsEvent → Bool
  | .mkTmp k => fs.committed.all (· < k)
  | .commit k => fs.tmp.contains k && fs.committed.all (· < k)
  | .delStart j => fs.committed.contains j && (match fs.latest with | some l => decide (j < l) | none => false)
  | .delDone j => fs.deleting.contains j

/-- executable recogniser of protocol-conforming event sequences (used on the *observed* operation log of the real run) -/
def accepts : Fs → List FsEvent → Bool
  | _, [] => true
  | fs, e :: es => okEvent fs e && accepts (fs.step e) es

/-- events of one `save(k)` under `max_to_keep = m`, given the committed labels before it -/
def saveEvents (m : Nat) (committed : List Nat) (k : Nat) : List FsEvent :=
  let body := [FsEvent.mkTmp k, FsEvent.commit k] ++
    ((committed ++ [k]).take ((committed ++ [k]).length - m)).flatMap fun j => [FsEvent.delStart j, FsEvent.delDone j]
  match committed.getLast? with
  | some l => if k ≤ l then [] else body
  | none => body

/-- committed labels after a whole `save(k)` -/
def committedAfter (m : Nat) (committed : List Nat) (k : Nat) : List Nat :=
  match committed.getLast? with
  | some l => if k ≤ l then committed else (committed ++ [k]).drop ((committed ++ [k]).length - m)
  | none => (committed ++ [k]).drop ((committed ++ [k]).length - m)

/-- the whole event sequence of a list of save labels -/
def protoTrace (m : Nat) : List Nat → List Nat → List FsEvent
  | _, [] => []
  | committed, k :: ks => saveEvents m committed k ++ protoTrace m (committedAfter m committed k) ks

end MdpaxV
