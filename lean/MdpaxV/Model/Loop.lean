/-
Model of the `solve(max_iterations)` loop shared by all five solvers
(value_iteration.py, relative_value_iteration.py, periodic_value_iteration.py,
 semi_async_value_iteration.py, policy_iteration.py):

    for _ in range(k):
        self.iteration += 1
        new, conv = self._iteration_step();  self.values = new         -- `step`
        if conv < threshold: break                                      -- `done`
        if checkpointing and self.iteration % f == 0: self.save(self.iteration)
    if checkpointing: self.save(self.iteration)                         -- final save
    (policy extraction, for the value-iteration family)                 -- `finish`

`save` events carry the step label *and* the snapshot of the state at that moment.
Core Lean only.
-/
namespace MdpaxV

/-- result of the `for` loop of one `solve(k)` call -/
structure Run (σ : Type) where
  state : σ
  converged : Bool
  sweeps : Nat                -- iterations performed by this call
  saves : List (Nat × σ)      -- (step label, snapshot) passed to `save`, in order

variable {σ : Type}

/-- the `for` loop. `step s` returns the state after one iteration (counter already incremented) and
    whether the convergence test fired; `iter` reads the iteration counter; `f` is
    `checkpoint_frequency` (0 = checkpointing disabled). -/
def loopBody (step : σ → σ × Bool) (iter : σ → Nat) (f : Nat) : Nat → σ → Nat → List (Nat × σ) → Run σ
  | 0, s, n, sv => ⟨s, false, n, sv⟩
  | k+1, s, n, sv =>
    let r := step s
    if r.2 then ⟨r.1, true, n+1, sv⟩
    else
      let sv' := if f ≠ 0 ∧ iter r.1 % f = 0 then sv ++ [(iter r.1, r.1)] else sv
      loopBody step iter f k r.1 (n+1) sv'

/-- the loop followed by the unconditional final save (iff checkpointing is enabled) -/
def solveLoop (step : σ → σ × Bool) (iter : σ → Nat) (f : Nat) (k : Nat) (s : σ) : Run σ :=
  let r := loopBody step iter f k s 0 []
  { r with saves := if f ≠ 0 then r.saves ++ [(iter r.state, r.state)] else r.saves }

/-- a whole `solve(k)` call: loop, final save, then `finish` (policy extraction / history clearing),
    which sees whether the loop converged -/
def solveCall (step : σ → σ × Bool) (iter : σ → Nat) (finish : Bool → σ → σ) (f : Nat) (k : Nat) (s : σ) : Run σ :=
  let r := solveLoop step iter f k s
  { r with state := finish r.converged r.state }

end MdpaxV
