/-
Model of `Problem.build_transition_and_reward_matrices(normalization_tolerance)`.
  P[a, s, idx(next(s,a,e))] += prob(s,a,e)   for every event e (scatter-add: out-of-range targets dropped, negative wrap)
  R[s, a] = Σ_e prob·reward
  row_sums; max deviation from 1 > tol ⇒ ValueError naming the first maximiser in (action, state) order
  P /= where(row_sums > 0, row_sums, 1)
Core Lean only.
-/
import MdpaxV.Model.SemiAsync
namespace MdpaxV
section
variable {α : Type} [Add α] [Mul α] [Zero α] [One α] [Sub α] [Neg α] [Div α] [Max α] [LT α] [DecidableLT α]

/-- un-normalised transition entry: accumulated over the events in order -/
def rawP (P : Problem α) (a s s' : Nat) : α :=
  (List.range P.nE).foldl (fun acc e => if scatterPos P.nS (P.nxt s a e) = some s' then acc + P.prob s a e else acc) 0

/-- expected immediate reward -/
def rewardR (P : Problem α) (s a : Nat) : α :=
  ((List.range P.nE).map fun e => P.prob s a e * P.rew s a e).foldl (· + ·) 0

def rowSum (P : Problem α) (a s : Nat) : α :=
  ((List.range P.nS).map (rawP P a s)).foldl (· + ·) 0

/-- |row_sum − 1| for every (action, state) in row-major (action-major) order -/
def deviations (P : Problem α) : List α :=
  (List.range P.nA).flatMap fun a => (List.range P.nS).map fun s => absv (rowSum P a s - 1)

inductive MatResult (α : Type) where
  | error (state action : Nat) (rowsum : α)
  | ok (Pm : List (List (List α))) (Rm : List (List α))   -- Pm[a][s][s'], Rm[s][a]

def buildMatrices (P : Problem α) (tol : α) : MatResult α :=
  let dev := deviations P
  let mx := maxList dev
  if tol < mx then
    let k := argmaxList dev
    let a := k / P.nS
    let s := k % P.nS
    .error s a (rowSum P a s)
  else
    .ok ((List.range P.nA).map fun a => (List.range P.nS).map fun s =>
            let rs := rowSum P a s
            let d := if 0 < rs then rs else 1
            (List.range P.nS).map fun s' => rawP P a s s' / d)
        ((List.range P.nS).map fun s => (List.range P.nA).map fun a => rewardR P s a)
end
end MdpaxV
