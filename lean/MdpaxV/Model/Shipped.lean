/-
Models of the transition functions, spaces and index functions of the four shipped problems
(forest.py, de_moor_single_product.py, hendrix_two_product.py, mirjalili_platelet.py).
Vectors are `List Int`; rewards live in a number type with core classes (executed at `Rat`).
-/
import MdpaxV.Model.Spaces
namespace MdpaxV

/-- `jax.lax.scan(_issue_one_step, demand, stock)`: remaining stock per slot, slots visited left to right;
    per slot `remaining_stock = (stock - d).clip(0)`, `d = (d - stock).clip(0)` -/
def issueFwd : Int → List Int → List Int
  | _, [] => []
  | d, x :: xs => max (x - d) 0 :: issueFwd (max (d - x) 0) xs

/-- the same scan with `reverse=True`: slots visited right to left, outputs in place -/
def issueRev (d : Int) (xs : List Int) : List Int := (issueFwd d xs.reverse).reverse

def sumI (xs : List Int) : Int := xs.foldl (· + ·) 0

section
variable {α : Type} [Add α] [Mul α] [Zero α] [One α] [Neg α] [Sub α] [IntCast α]

/-! ### Forest -/
structure ForestCfg (α : Type) where
  S : Nat
  r1 : α
  r2 : α
  p : α

def forestStates (c : ForestCfg α) : List (List Int) := (List.range c.S).map fun (i : Nat) => [(i : Int)]
def forestActions : List (List Int) := [[0], [1]]
def forestEvents : List (List Int) := [[0], [1]]
/-- `state_to_index(state) = state[0]` -/
def forestIdx (s : List Int) : Int := s.headD 0

def forestTrans (c : ForestCfg α) (s a e : List Int) : List Int × α :=
  let st := s.headD 0
  let cut := a.headD 0 == 1
  let fire := e.headD 0 == 1
  let last : Int := (c.S : Int) - 1
  let reward : α := if cut then (if st == last then c.r2 else if st == 0 then 0 else 1)
                    else (if st == last then c.r1 else 0)
  let nxt : Int := if cut || fire then 0 else min (st + 1) last
  ([nxt], reward)

def forestProb (c : ForestCfg α) (_s a e : List Int) : α :=
  match a.headD 0, e.headD 0 with
  | 0, 0 => 1 - c.p
  | 0, 1 => c.p
  | 1, 0 => 1
  | _, _ => 0

/-! ### De Moor single product -/
structure DeMoorCfg (α : Type) where
  maxDemand : Nat
  m : Nat          -- max_useful_life
  L : Nat          -- lead_time
  Q : Nat          -- max_order_quantity
  cv : α
  cs : α
  cw : α
  ch : α
  fifo : Bool

def deMoorDim {α} (c : DeMoorCfg α) : Nat := c.m + c.L - 1
def deMoorStates {α} (c : DeMoorCfg α) : List (List Int) :=
  rangeSpace (List.replicate (deMoorDim c) 0) (List.replicate (deMoorDim c) (c.Q : Int))
def deMoorActions {α} (c : DeMoorCfg α) : List (List Int) := (List.range (c.Q + 1)).map fun (i : Nat) => [(i : Int)]
def deMoorEvents {α} (c : DeMoorCfg α) : List (List Int) := (List.range (c.maxDemand + 1)).map fun (i : Nat) => [(i : Int)]
def deMoorIdx {α} (c : DeMoorCfg α) (s : List Int) : Int :=
  indexFn (List.replicate (deMoorDim c) 0) (List.replicate (deMoorDim c) (c.Q : Int)) s

def deMoorTrans (c : DeMoorCfg α) (s a e : List Int) : List Int × α :=
  let demand := e.headD 0
  let order := a.headD 0
  let openTransit := s.take (c.L - 1)
  let openStock := (s.drop (c.L - 1)).take c.m
  let inTransit := a ++ openTransit                      -- jnp.hstack([action, opening_in_transit])
  let after := if c.fifo then issueRev demand openStock else issueFwd demand openStock
  let shortage := max (demand - sumI openStock) 0
  let expiries := after.getLastD 0
  let holding := sumI (after.take (c.m - 1))
  let reward : α := -(c.cv * (order : α) + c.cs * (shortage : α) + c.cw * (expiries : α) + c.ch * (holding : α))
  let closingStock := inTransit.getLastD 0 :: after.take (c.m - 1)
  let closingTransit := inTransit.take (c.L - 1)
  (closingTransit ++ closingStock, reward)

/-! ### Hendrix two product -/
structure HendrixCfg (α : Type) where
  m : Nat
  Qa : Nat
  Qb : Nat
  costA : α
  costB : α
  priceA : α
  priceB : α

def hendrixMaxs {α} (c : HendrixCfg α) : List Int := List.replicate c.m (c.Qa : Int) ++ List.replicate c.m (c.Qb : Int)
def hendrixStates {α} (c : HendrixCfg α) : List (List Int) := rangeSpace (List.replicate (2 * c.m) 0) (hendrixMaxs c)
def hendrixActions {α} (c : HendrixCfg α) : List (List Int) := rangeSpace [0, 0] [(c.Qa : Int), (c.Qb : Int)]
def hendrixEvents {α} (c : HendrixCfg α) : List (List Int) := rangeSpace [0, 0] [((c.Qa * c.m : Nat) : Int), ((c.Qb * c.m : Nat) : Int)]
def hendrixIdx {α} (c : HendrixCfg α) (s : List Int) : Int := indexFn (List.replicate (2 * c.m) 0) (hendrixMaxs c) s

def hendrixTrans (c : HendrixCfg α) (s a e : List Int) : List Int × α :=
  let ia := e.getD 0 0
  let ib := e.getD 1 0
  let oa := a.getD 0 0
  let ob := a.getD 1 0
  let stockA := s.take c.m
  let stockB := (s.drop c.m).take c.m
  let afterA := issueRev ia stockA
  let afterB := issueRev ib stockB
  let reward : α := ((ia : α) * c.priceA + (ib : α) * c.priceB) - ((oa : α) * c.costA + (ob : α) * c.costB)
  ((oa :: afterA.take (c.m - 1)) ++ (ob :: afterB.take (c.m - 1)), reward)

/-! ### Mirjalili platelet -/
structure MirjaliliCfg (α : Type) where
  maxDemand : Nat
  m : Nat
  Q : Nat
  cv : α
  cf : α
  cs : α
  cw : α
  ch : α

def mirjaliliMaxs {α} (c : MirjaliliCfg α) : List Int := 6 :: List.replicate (c.m - 1) (c.Q : Int)
def mirjaliliStates {α} (c : MirjaliliCfg α) : List (List Int) := rangeSpace (List.replicate c.m 0) (mirjaliliMaxs c)
def mirjaliliActions {α} (c : MirjaliliCfg α) : List (List Int) := (List.range (c.Q + 1)).map fun (i : Nat) => [(i : Int)]
/-- all received-order splits over `m` age classes with total ≤ Q, in product order; each followed by every demand -/
def mirjaliliEvents {α} (c : MirjaliliCfg α) : List (List Int) :=
  let combos := (rangeSpace (List.replicate c.m 0) (List.replicate c.m (c.Q : Int))).filter fun k => decide (sumI k ≤ (c.Q : Int))
  combos.flatMap fun k => (List.range (c.maxDemand + 1)).map fun (d : Nat) => (d : Int) :: k
def mirjaliliIdx {α} (c : MirjaliliCfg α) (s : List Int) : Int := indexFn (List.replicate c.m 0) (mirjaliliMaxs c) s

def zipAdd : List Int → List Int → List Int
  | x :: xs, y :: ys => (x + y) :: zipAdd xs ys
  | _, _ => []

def mirjaliliTrans (c : MirjaliliCfg α) (s a e : List Int) : List Int × α :=
  let demand := e.headD 0
  let received := (e.drop 1).take c.m
  let weekday := s.headD 0
  let stock := (s.drop 1).take (c.m - 1)
  let opening := (zipAdd (0 :: stock) received).map fun x => min (max x 0) (c.Q : Int)
  let after := issueRev demand opening
  let order := a.headD 0
  let fixed : Int := if order > 0 then 1 else 0
  let shortage := max (demand - sumI opening) 0
  let expiries := after.getLastD 0
  let holding := sumI after
  let reward : α := -(c.cv * (order : α) + c.cf * (fixed : α) + c.cs * (shortage : α) + c.cw * (expiries : α) + c.ch * (holding : α))
  (((weekday + 1) % 7) :: after.take (c.m - 1), reward)

end
end MdpaxV
