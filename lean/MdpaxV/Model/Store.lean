/-
Model of the checkpoint store as mdpax uses it (checkpointing.py + Orbax CheckpointManager, seen after
`wait_until_finished()`), and of `restore` / `load_checkpoint`.

  _setup_checkpointing : frequency 0 ⇒ nothing at all (no directory, no manager); otherwise the directory is created
                         and `config.yaml` written iff solver and problem are reconstructible from configuration
  save(step)           : skipped by Orbax when `step ≤ latest committed step`; otherwise committed, then only the
                         `max_to_keep` newest steps are retained
  restore(dir, step)   : FileNotFoundError without config.yaml; `step or latest` (so step = 0 means latest);
                         ValueError when there is no committed step
Core Lean only.
-/
namespace MdpaxV

structure Store (σ : Type) where
  created : Bool := false
  hasConfig : Bool := false
  steps : List (Nat × σ) := []          -- committed checkpoints, ascending labels

variable {σ : Type}

def Store.labels (s : Store σ) : List Nat := s.steps.map (·.1)

def Store.latest (s : Store σ) : Option Nat := s.labels.getLast?

/-- keep the `m` newest entries of an ascending list -/
def keepNewest {β : Type} (m : Nat) (l : List β) : List β := l.drop (l.length - m)

/-- `CheckpointManager.save(step, …)` with `max_to_keep = m` -/
def Store.save (m : Nat) (s : Store σ) (k : Nat) (snap : σ) : Store σ :=
  match s.latest with
  | some l => if k ≤ l then s else { s with steps := keepNewest m (s.steps ++ [(k, snap)]) }
  | none => { s with steps := keepNewest m (s.steps ++ [(k, snap)]) }

/-- all save events of one `solve()` call, in order -/
def Store.applySaves (m : Nat) (s : Store σ) (saves : List (Nat × σ)) : Store σ :=
  saves.foldl (fun st e => st.save m e.1 e.2) s

/-- `_setup_checkpointing` on the directory of a solver constructed with frequency `f` -/
def Store.setup (s : Store σ) (f : Nat) (fullConfig : Bool) : Store σ :=
  if f = 0 then s else { s with created := true, hasConfig := s.hasConfig || fullConfig }

inductive RestoreErr where
  | fileNotFound      -- no config.yaml
  | noCheckpoint      -- ValueError: no checkpoints found
  | missingStep       -- explicit step that is not committed (an Orbax error)
deriving Repr, DecidableEq

/-- step selection of `restore` / `load_checkpoint`: `step = step or latest` -/
def chooseStep (s : Store σ) (step : Option Nat) : Option Nat :=
  match step with
  | some 0 => s.latest          -- `0 or latest` is `latest`
  | some k => some k
  | none => s.latest

/-- `Solver.restore(dir, step)`: the snapshot to load, or the documented error -/
def Store.restore (s : Store σ) (step : Option Nat) : Except RestoreErr (Nat × σ) :=
  if !s.hasConfig then .error .fileNotFound else
  match chooseStep s step with
  | none => .error .noCheckpoint
  | some k => match s.steps.find? (·.1 = k) with
    | some e => .ok e
    | none => .error .missingStep

/-- `solver.load_checkpoint(dir, step)`: no configuration needed -/
def Store.load (s : Store σ) (step : Option Nat) : Except RestoreErr (Nat × σ) :=
  match chooseStep s step with
  | none => .error .noCheckpoint
  | some k => match s.steps.find? (·.1 = k) with
    | some e => .ok e
    | none => .error .missingStep

end MdpaxV
