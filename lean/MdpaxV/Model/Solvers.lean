/-
The five solvers as instances of the generic loop.  Executable at `Rat`; core Lean only.
-/
import MdpaxV.Model.Backup
import MdpaxV.Model.SemiAsync
import MdpaxV.Model.Loop
namespace MdpaxV

inductive ConvTest where
  | span | maxDiff
deriving Repr, DecidableEq

/-- runtime state of a solver: the fields of `solver_state` of every solver class -/
structure SState (α : Type) where
  values : List α
  iter : Nat
  policy : Option (List Nat)          -- action indices; `none` = Python `None`
  gain : α                            -- relative VI
  hist : Option (List (List α))       -- periodic VI ring buffer (period+1 rows); `none` after clearing
  hidx : Nat                          -- periodic VI `history_index`

section
variable {α : Type} [Add α] [Mul α] [Zero α] [One α] [Max α] [Min α] [Sub α] [Neg α] [Div α]
  [LT α] [DecidableLT α] [DecidableEq α]

/-- `conv_threshold` of ValueIteration / SemiAsync / PolicyIteration:
    `eps * (1 - gamma) / gamma if 0 < gamma < 1 else eps` (γ = 1, and γ = 0 where one sweep is exact; before the repair
    recorded in known_findings.json γ = 0 divided by zero).  Always `some`; the `Option` is kept for the driver interface. -/
def threshold (γ ε : α) : Option α :=
  if γ = 1 then some ε else if γ = 0 then some ε else some (ε * (1 - γ) / γ)

def convMeasure (t : ConvTest) (new old : List α) : α :=
  match t with
  | .span => spanOf new old
  | .maxDiff => maxDiff new old

/-- fresh solver state of the value-iteration family (`_initialize_solver_state_elements`) -/
def initState (P : Problem α) (c : BatchCfg) : SState α :=
  { values := initValues P c 0, iter := 0, policy := none, gain := 0, hist := none, hidx := 0 }

/-- `ValueIteration._iteration_step` + the assignments of the loop body -/
def viStep (P : Problem α) (c : BatchCfg) (γ thr : α) (t : ConvTest) (s : SState α) : SState α × Bool :=
  let new := sweep P c γ s.values 0
  let conv := convMeasure t new s.values
  ({ s with values := new, iter := s.iter + 1 }, decide (conv < thr))

/-- the convergence measure of the next iteration (diagnostics for decision margins; not used by `viStep`) -/
def viMeasure (P : Problem α) (c : BatchCfg) (γ : α) (t : ConvTest) (s : SState α) : α :=
  convMeasure t (sweep P c γ s.values 0) s.values

/-- policy extraction after the loop -/
def viFinish (P : Problem α) (c : BatchCfg) (γ : α) (_conv : Bool) (s : SState α) : SState α :=
  { s with policy := some (policy P c γ s.values 0) }

def viSolve (P : Problem α) (c : BatchCfg) (γ thr : α) (t : ConvTest) (f k : Nat) (s : SState α) : Run (SState α) :=
  solveCall (viStep P c γ thr t) (·.iter) (viFinish P c γ) f k s

/-! ### Relative value iteration -/

/-- `RelativeValueIteration._initialize_solver_state_elements`: the gain starts at the last state's initial value -/
def rviInit (P : Problem α) (c : BatchCfg) : SState α :=
  let v := initValues P c 0
  { values := v, iter := 0, policy := none, gain := (v.getLast?).getD 0, hist := none, hidx := 0 }

/-- `RelativeValueIteration._iteration_step`: sweep at the solver's gamma (validated to be 1),
    subtract the previous gain, span against the old values, new gain = last entry -/
def rviStep (P : Problem α) (c : BatchCfg) (γ ε : α) (s : SState α) : SState α × Bool :=
  let w := sweep P c γ s.values 0
  let new := w.map (· - s.gain)
  let conv := spanOf new s.values
  ({ s with values := new, iter := s.iter + 1, gain := (new.getLast?).getD 0 }, decide (conv < ε))

def rviMeasure (P : Problem α) (c : BatchCfg) (γ : α) (s : SState α) : α :=
  spanOf ((sweep P c γ s.values 0).map (· - s.gain)) s.values

def rviSolve (P : Problem α) (c : BatchCfg) (γ ε : α) (f k : Nat) (s : SState α) : Run (SState α) :=
  solveCall (rviStep P c γ ε) (·.iter) (viFinish P c γ) f k s

/-! ### Periodic value iteration -/

def periodicInit (P : Problem α) (c : BatchCfg) (period : Nat) : SState α :=
  let v := initValues P c 0
  { values := v, iter := 0, policy := none, gain := 0,
    hist := some (v :: List.replicate period (List.replicate P.nS 0)), hidx := 0 }

/-- x / γ^k -/
def divPow (x γ : α) : Nat → α
  | 0 => x
  | k+1 => divPow x γ k / γ

def vadd : List α → List α → List α
  | x :: xs, y :: ys => (x + y) :: vadd xs ys
  | _, _ => []

/-- `_calculate_period_span_with_discount`: Σ_{q<p} (hist[(hi−q)%(p+1)] − hist[(hi−q−1)%(p+1)]) / γ^(iteration−q−1) -/
def periodDeltas (hist : List (List α)) (hi period iteration : Nat) (γ : α) (nS : Nat) : List α :=
  (List.range period).foldl (fun acc q =>
    let ci := (hi + (period + 1) - q % (period + 1)) % (period + 1)
    let pi := (ci + period) % (period + 1)
    let d := vsub (hist.getD ci []) (hist.getD pi [])
    vadd acc (d.map fun x => divPow x γ (iteration - q - 1))) (List.replicate nS 0)

/-- `_get_periodic_span`; `none` = `float("inf")` -/
def periodicMeasure (hist : List (List α)) (hi period iteration : Nat) (γ : α) (new : List α) (nS : Nat) : Option α :=
  if iteration < period then none
  else if γ = 1 then some (spanOf new (hist.getD ((hi + 1) % (period + 1)) []))
  else
    let d := periodDeltas hist hi period iteration γ nS
    some (maxList d - minList d)

/-- `PeriodicValueIteration._iteration_step` (+ loop assignments).  A cleared history (`none`) makes the
    real code raise `TypeError`; the model keeps the state and reports not-converged with a marker
    handled by the driver (`hist = none` is checked before stepping). -/
def periodicStep (P : Problem α) (c : BatchCfg) (γ ε : α) (period : Nat) (s : SState α) : SState α × Bool :=
  let new := sweep P c γ s.values 0
  let hi := (s.hidx + 1) % (period + 1)
  let hist := (s.hist.getD []).set hi new
  let it := s.iter + 1
  let done := match periodicMeasure hist hi period it γ new P.nS with
    | none => false
    | some m => decide (m < ε)
  ({ s with values := new, iter := it, hist := some hist, hidx := hi }, done)

def periodicMeasureNext (P : Problem α) (c : BatchCfg) (γ : α) (period : Nat) (s : SState α) : Option α :=
  let new := sweep P c γ s.values 0
  let hi := (s.hidx + 1) % (period + 1)
  periodicMeasure ((s.hist.getD []).set hi new) hi period (s.iter + 1) γ new P.nS

def periodicFinish (P : Problem α) (c : BatchCfg) (γ : α) (clear : Bool) (conv : Bool) (s : SState α) : SState α :=
  let s' := viFinish P c γ conv s
  if conv && clear then { s' with hist := none } else s'

def periodicSolve (P : Problem α) (c : BatchCfg) (γ ε : α) (period : Nat) (clear : Bool) (f k : Nat) (s : SState α) :
    Run (SState α) :=
  solveCall (periodicStep P c γ ε period) (·.iter) (periodicFinish P c γ clear) f k s

/-! ### Semi-asynchronous value iteration -/

/-- `SemiAsyncValueIteration._iteration_step` (+ loop assignments).  `perms k` is the permutation drawn for
    the sweep that produces iteration `k` (`none` = fixed order); padding collisions resolved by `choose`. -/
def semiStep (P : Problem α) (c : BatchCfg) (γ thr : α) (t : ConvTest) (perms : Nat → Option (List Nat))
    (choose : Nat → Bool) (s : SState α) : SState α × Bool :=
  let new := semiSweep P c γ s.values (perms (s.iter + 1)) choose 0
  let conv := convMeasure t new s.values
  ({ s with values := new, iter := s.iter + 1 }, decide (conv < thr))

def semiMeasure (P : Problem α) (c : BatchCfg) (γ : α) (t : ConvTest) (perms : Nat → Option (List Nat))
    (choose : Nat → Bool) (s : SState α) : α :=
  convMeasure t (semiSweep P c γ s.values (perms (s.iter + 1)) choose 0) s.values

def semiSolve (P : Problem α) (c : BatchCfg) (γ thr : α) (t : ConvTest) (perms : Nat → Option (List Nat))
    (choose : Nat → Bool) (f k : Nat) (s : SState α) : Run (SState α) :=
  solveCall (semiStep P c γ thr t perms choose) (·.iter) (viFinish P c γ) f k s

/-! ### Policy iteration -/

/-- `_evaluate_policy`: at most `budget` evaluation sweeps; returns the *pre-update* iterate at which the
    test fired, or the last iterate when the budget is exhausted -/
def evaluate (P : Problem α) (c : BatchCfg) (γ thr : α) (t : ConvTest) (pol : List Nat) : Nat → List α → List α
  | 0, V => V
  | b+1, V =>
    let new := evalSweep P c γ pol V 0
    if convMeasure t new V < thr then V else evaluate P c γ thr t pol b new

/-- number of states whose action differs (`jnp.any(new != old, axis=1).sum()`; action rows are distinct
    vectors, so rows differ in some component iff their indices differ) -/
def nChanged : List Nat → List Nat → Nat
  | x :: xs, y :: ys => (if x = y then 0 else 1) + nChanged xs ys
  | _, _ => 0

/-- `PolicyIteration._iteration_step` (+ loop assignments); `reset = some V0` restarts every evaluation
    from the initial values -/
def piStep (P : Problem α) (c : BatchCfg) (γ thr : α) (t : ConvTest) (budget : Nat) (reset : Option (List α))
    (s : SState α) : SState α × Bool :=
  let pol := s.policy.getD []
  let start := reset.getD s.values
  let v := evaluate P c γ thr t pol budget start
  let newpol := policy P c γ v 0
  ({ s with values := v, iter := s.iter + 1, policy := some newpol }, decide (nChanged newpol pol = 0))

/-- `PolicyIteration._initialize_solver_state_elements`; `initPol = none` ⇔ `NotImplementedError` ⇒ greedy
    for the zero value vector -/
def piInit (P : Problem α) (c : BatchCfg) (γ : α) (initPol : Option (List Nat)) : SState α :=
  let pol := match initPol with
    | some p => p
    | none => policy P c γ (List.replicate P.nS 0) 0
  { values := initValues P c 0, iter := 0, policy := some pol, gain := 0, hist := none, hidx := 0 }

def piSolve (P : Problem α) (c : BatchCfg) (γ thr : α) (t : ConvTest) (budget : Nat) (reset : Option (List α))
    (f k : Nat) (s : SState α) : Run (SState α) :=
  solveCall (piStep P c γ thr t budget reset) (·.iter) (fun _ s => s) f k s

end
end MdpaxV
