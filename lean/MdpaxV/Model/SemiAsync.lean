/-
Model of `SemiAsyncValueIteration._update_values` / `_calculate_updated_value_scan_state_batches`:
per device a `lax.scan` over batches whose carry is the value vector; after each batch the new values of
the batch are scattered to `state_to_index(row)`, padding rows writing back the carried value;
`unbatch`; with shuffling, `values[argsort(perm)]`.
Core Lean only.
-/
import MdpaxV.Model.Backup
namespace MdpaxV

/-- position written by `x.at[i].set(..)` for a length-`n` vector: negative indices wrap once, out-of-range
    updates are dropped -/
def scatterPos (n : Nat) (i : Int) : Option Nat :=
  let j : Int := if i < 0 then i + n else i
  if j < 0 then none else if j ≥ n then none else some j.toNat

section
variable {α : Type} [Add α] [Mul α] [Zero α] [Max α]

/-- target index of a slot: `state_to_index` of the row (the zero vector for padding) -/
def slotTarget (P : Problem α) : Option Nat → Int
  | some s => P.sidx s
  | none => P.zidx

/-- the scatter after one batch. Padding rows write the carried value back (so they can only *undo* a real
    update to the same position inside the same batch); which of several writes to one position survives is
    unspecified in JAX — `choose i = true` lets the real update win at position `i`. -/
def scatter (P : Problem α) (choose : Nat → Bool) (W : List α) (b : List (Option Nat)) (out : List α) : List α :=
  W.mapIdx fun i w =>
    let padHit := b.any (fun s => s.isNone && scatterPos W.length P.zidx == some i)
    match (b.zip out).find? (fun p => p.1.isSome && scatterPos W.length (slotTarget P p.1) == some i) with
    | none => w
    | some p => if padHit then (if choose i then p.2 else w) else p.2

/-- one device: scan over its batches carrying the value vector -/
def deviceRun (P : Problem α) (γ : α) (choose : Nat → Bool) (padv : α) : List α → List (List (Option Nat)) → List (List α)
  | _, [] => []
  | W, b :: bs =>
    let out := b.map (onSlot (backup P γ (look W)) padv)
    out :: deviceRun P γ choose padv (scatter P choose W b out) bs

/-- one semi-asynchronous sweep; `perm = none` is the fixed natural order -/
def semiSweep (P : Problem α) (c : BatchCfg) (γ : α) (V : List α) (perm : Option (List Nat))
    (choose : Nat → Bool) (padv : α) : List α :=
  let order := perm.getD (List.range P.nS)
  let lay := prepare c none (order.map some)
  let flat := unbatch c (lay.map (deviceRun P γ choose padv V))
  match perm with
  | none => flat
  | some p => (List.range P.nS).map fun j => flat.getD (p.idxOf j) 0

end
end MdpaxV
