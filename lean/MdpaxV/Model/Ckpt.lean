/-
What a checkpoint holds and what `restore()` / `load_checkpoint()` put back (checkpointing.py,
`solver_state` and `_restore_state_from_checkpoint` of each solver).
The snapshot is the whole `SState`.  Restoring reads it into the template of a *fresh* solver: for the
value-iteration family that template's policy is `None`, so the stored policy is not restored; policy iteration's
template holds a policy array, so its policy is restored.
-/
import MdpaxV.Model.Solvers
import MdpaxV.Model.Store
namespace MdpaxV

/-- does the fresh solver's template hold a policy array (policy iteration) or `None` (all others) -/
def restoredState {α : Type} (templateHasPolicy : Bool) (snap : SState α) : SState α :=
  if templateHasPolicy then snap else { snap with policy := none }

end MdpaxV
