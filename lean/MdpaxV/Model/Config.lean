/-
Model of the configuration validators (`__post_init__` of the five solver configs and the four problem configs), in the
order of their `if`s, and of the construction / solve outcome of a valid configuration.
Core Lean only; numeric fields are rationals (Python floats / ints sent exactly).
-/
namespace MdpaxV

inductive CfgErr where
  | typeError | valueError
deriving Repr, DecidableEq

inductive SolverKind where
  | vi | pi | rvi | periodic | semi
deriving Repr, DecidableEq

structure SolverCfg where
  problemOk : Bool        -- `problem is None or isinstance(problem, ProblemConfig)`
  gamma : Rat
  eps : Rat
  maxbs : Int
  f : Int                 -- checkpoint_frequency
  m : Int                 -- max_checkpoints
  verbose : Int
  testOk : Bool           -- convergence_test in ["span", "max_diff"]
  period : Int
  budget : Int            -- max_eval_iter

/-- `if cond: raise err` -/
def raiseIf (p : Prop) [Decidable p] (e : CfgErr) : Except CfgErr Unit := if p then .error e else .ok ()

def checkCommon (c : SolverCfg) : Except CfgErr Unit := do
  raiseIf (c.eps ≤ 0) .valueError
  raiseIf (c.maxbs ≤ 0) .valueError
  raiseIf (c.f < 0) .valueError
  raiseIf (c.m < 0) .valueError
  raiseIf (¬ (0 ≤ c.verbose ∧ c.verbose ≤ 4)) .valueError

def validateSolver (k : SolverKind) (c : SolverCfg) : Except CfgErr Unit := do
  raiseIf (c.problemOk = false) .typeError
  match k with
  | .vi | .semi =>
    raiseIf (¬ (0 ≤ c.gamma ∧ c.gamma ≤ 1)) .valueError
    checkCommon c
    raiseIf (c.testOk = false) .valueError
  | .pi =>
    raiseIf (¬ (0 ≤ c.gamma ∧ c.gamma ≤ 1)) .valueError
    checkCommon c
    raiseIf (c.budget ≤ 0) .valueError
    raiseIf (c.testOk = false) .valueError
  | .rvi =>
    raiseIf (c.gamma ≠ 1) .valueError
    checkCommon c
  | .periodic =>
    raiseIf (c.period ≤ 0) .valueError
    raiseIf (c.gamma = 1 ∧ c.period < 2) .valueError
    raiseIf (¬ (0 ≤ c.gamma ∧ c.gamma ≤ 1)) .valueError
    checkCommon c

/-- the documented domain -/
def SolverValid (k : SolverKind) (c : SolverCfg) : Prop :=
  c.problemOk = true ∧ 0 < c.eps ∧ 0 < c.maxbs ∧ 0 ≤ c.f ∧ 0 ≤ c.m ∧ 0 ≤ c.verbose ∧ c.verbose ≤ 4 ∧
  match k with
  | .vi | .semi => 0 ≤ c.gamma ∧ c.gamma ≤ 1 ∧ c.testOk = true
  | .pi => 0 ≤ c.gamma ∧ c.gamma ≤ 1 ∧ c.testOk = true ∧ 0 < c.budget
  | .rvi => c.gamma = 1
  | .periodic => 0 ≤ c.gamma ∧ c.gamma ≤ 1 ∧ 1 ≤ c.period ∧ (c.gamma = 1 → 2 ≤ c.period)

/-! problem configurations -/
structure ForestCfgV where
  S : Int
  p : Rat

def validateForest (c : ForestCfgV) : Except CfgErr Unit := do
  raiseIf (c.S ≤ 0) .valueError
  raiseIf (¬ (0 ≤ c.p ∧ c.p ≤ 1)) .valueError

structure DeMoorCfgV where
  maxDemand : Int
  mean : Rat
  cov : Rat
  m : Int
  L : Int
  Q : Int
  issueOk : Bool

def validateDeMoor (c : DeMoorCfgV) : Except CfgErr Unit := do
  raiseIf (c.maxDemand ≤ 0) .valueError
  raiseIf (c.mean ≤ 0) .valueError
  raiseIf (c.cov ≤ 0) .valueError
  raiseIf (c.m < 1) .valueError
  raiseIf (c.L < 1) .valueError
  raiseIf (c.Q ≤ 0) .valueError
  raiseIf (c.issueOk = false) .valueError

structure HendrixCfgV where
  m : Int
  meanA : Rat
  meanB : Rat
  rho : Rat
  Qa : Int
  Qb : Int

def validateHendrix (c : HendrixCfgV) : Except CfgErr Unit := do
  raiseIf (c.m < 1) .valueError
  raiseIf (c.meanA ≤ 0) .valueError
  raiseIf (c.meanB ≤ 0) .valueError
  raiseIf (¬ (0 ≤ c.rho ∧ c.rho ≤ 1)) .valueError
  raiseIf (c.Qa ≤ 0) .valueError
  raiseIf (c.Qb ≤ 0) .valueError

structure MirjaliliCfgV where
  maxDemand : Int
  nLen : Nat
  nPos : Bool            -- all n > 0
  dLen : Nat
  dPos : Bool
  m : Int
  c0Len : Nat
  c1Len : Nat
  Q : Int

def validateMirjalili (c : MirjaliliCfgV) : Except CfgErr Unit := do
  raiseIf (c.maxDemand ≤ 0) .valueError
  raiseIf (c.nLen ≠ 7) .valueError
  raiseIf (c.nPos = false) .valueError
  raiseIf (c.dLen ≠ 7) .valueError
  raiseIf (c.dPos = false) .valueError
  raiseIf (c.m < 1) .valueError
  raiseIf ((c.c0Len : Int) ≠ c.m - 1) .valueError
  raiseIf ((c.c1Len : Int) ≠ c.m - 1) .valueError
  raiseIf (c.Q ≤ 0) .valueError

/-! construction and solve outcome of a *valid* solver configuration -/
inductive Route where
  | kwargs       -- problem instance + keyword arguments
  | configOnly   -- solver configuration embedding the problem configuration
  | yaml         -- reloaded from the saved config.yaml (Hydra instantiate)
deriving Repr, DecidableEq

/-- `conv_threshold`: ε(1−γ)/γ for 0 < γ < 1, else ε (γ = 1, and γ = 0 where one sweep is exact); RVI / periodic use ε -/
def thresholdOf (k : SolverKind) (c : SolverCfg) : Rat :=
  match k with
  | .rvi | .periodic => c.eps
  | _ => if 0 < c.gamma ∧ c.gamma < 1 then c.eps * (1 - c.gamma) / c.gamma else c.eps

/-- outcome of constructing by any route and calling `solve`: a valid configuration works by every route -/
def outcome (k : SolverKind) (c : SolverCfg) (_r : Route) : Except CfgErr Unit := validateSolver k c

/-- `utils.logging.get_convergence_format(threshold)`: the number of decimals of the progress format `.{d}f`, from
    ⌊log10 threshold⌋ (the logarithm is opaque; its floor is the input) and `max_decimals`:
    `d = max(0, min(-floor(log10 eps) + 1, max_decimals))`.  (Before the repair recorded in known_findings.json the outer
    `max(0, ·)` was missing and thresholds ≥ 100 gave a negative precision, an invalid format specifier.) -/
def decimalPlaces (floorLog10 : Int) (maxDecimals : Nat) : Int :=
  max 0 (min (-floorLog10 + 1) (maxDecimals : Int))

/-- the five loguru level names, as character lists (kernel-reducible, unlike `String` operations) -/
def levelName (v : Int) : List Char :=
  if v = 0 then ['E','R','R','O','R'] else if v = 1 then ['W','A','R','N','I','N','G'] else if v = 2 then ['I','N','F','O']
  else if v = 3 then ['D','E','B','U','G'] else ['T','R','A','C','E']

/-- `utils.logging.verbosity_to_loguru_level(verbose)`: `TypeError` for a non-integer, `ValueError` outside 0..4, else the
    level name (`isInt` = `isinstance(verbose, int)`) -/
def loguruLevel (isInt : Bool) (v : Int) : Except CfgErr (List Char) :=
  if !isInt then .error .typeError
  else if v < 0 ∨ v > 4 then .error .valueError
  else .ok (levelName v)

/-- the string branch of `Solver.set_verbosity`: upper-case the name (ASCII names), look it up, `ValueError` if unknown -/
def verbosityOfName (s : List Char) : Except CfgErr Int :=
  let u := s.map Char.toUpper
  if u = levelName 0 then .ok 0 else if u = levelName 1 then .ok 1 else if u = levelName 2 then .ok 2
  else if u = levelName 3 then .ok 3 else if u = levelName 4 then .ok 4 else .error .valueError

/-- `Solver.set_verbosity(level)`: the integer level stored in `solver.verbose` and the loguru level installed -/
def setVerbosity (level : List Char ⊕ Int) : Except CfgErr (Int × List Char) :=
  match level with
  | .inl name => do
      let v ← verbosityOfName name
      let l ← loguruLevel true v
      pure (v, l)
  | .inr v => do
      let l ← loguruLevel true v
      pure (v, l)

end MdpaxV
