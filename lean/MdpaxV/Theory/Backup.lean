/- Helper lemmas about `dot`, `maxL`, `argmaxList`, `qval`, `backup` over a linearly ordered field. -/
import MdpaxV.Model.Backup
import MdpaxV.Theory.Batch
import Mathlib.Algebra.Order.Field.Basic
import Mathlib.Algebra.BigOperators.Group.List.Basic
import Mathlib.Data.List.Forall2
import Mathlib.Tactic.Linarith
import Mathlib.Tactic.Ring

set_option linter.unusedSectionVars false
namespace MdpaxV
variable {α : Type} [Field α] [LinearOrder α] [IsStrictOrderedRing α]

/-! ### dot -/

theorem dot_mono_left {xs ys : List α} (ps : List α)
    (hp : ∀ p ∈ ps, 0 ≤ p) (h : List.Forall₂ (· ≤ ·) xs ys) : dot xs ps ≤ dot ys ps := by
  induction h generalizing ps with
  | nil => simp [dot]
  | cons hxy _ ih =>
    cases ps with
    | nil => simp [dot]
    | cons p ps =>
      simp only [dot]
      have hp0 : 0 ≤ p := hp p (by simp)
      have := ih ps (fun q hq => hp q (by simp [hq]))
      have := mul_le_mul_of_nonneg_right hxy hp0
      linarith

theorem dot_add_const (f : Nat → α) (g : Nat → α) (c : α) (l : List Nat) :
    dot (l.map fun e => f e + c) (l.map g) = dot (l.map f) (l.map g) + c * (l.map g).sum := by
  induction l with
  | nil => simp [dot]
  | cons e l ih => simp only [List.map_cons, dot, ih, List.sum_cons]; ring

/-- `dot` of two mapped ranges is the textbook sum Σ_e f e * g e -/
theorem dot_eq_sum (f g : Nat → α) (l : List Nat) :
    dot (l.map f) (l.map g) = (l.map fun e => f e * g e).sum := by
  induction l with
  | nil => simp [dot]
  | cons e l ih => simp only [List.map_cons, dot, ih, List.sum_cons]

theorem forall₂_map_of_mem {β γ : Type} (R : γ → γ → Prop) (f g : β → γ) (l : List β)
    (h : ∀ i ∈ l, R (f i) (g i)) : List.Forall₂ R (l.map f) (l.map g) := by
  rw [List.forall₂_map_left_iff, List.forall₂_map_right_iff]
  exact List.forall₂_same.mpr h

/-! ### maxL / maxList -/

omit [Field α] [IsStrictOrderedRing α] in
theorem maxL_mono {x y : α} {xs ys : List α} (hxy : x ≤ y)
    (h : List.Forall₂ (· ≤ ·) xs ys) : maxL x xs ≤ maxL y ys := by
  induction h generalizing x y with
  | nil => simpa [maxL]
  | cons hab _ ih => simp only [maxL]; exact ih (max_le_max hxy hab)

omit [Field α] [IsStrictOrderedRing α] in
theorem le_maxL_init (x : α) (xs : List α) : x ≤ maxL x xs := by
  induction xs generalizing x with
  | nil => simp [maxL]
  | cons y ys ih => simp only [maxL]; exact le_trans (le_max_left x y) (ih _)

omit [Field α] [IsStrictOrderedRing α] in
theorem le_maxL_of_mem (x : α) (xs : List α) (y : α) (hy : y ∈ xs) : y ≤ maxL x xs := by
  induction xs generalizing x with
  | nil => simp at hy
  | cons z zs ih =>
    simp only [maxL]
    rcases List.mem_cons.mp hy with rfl | h
    · exact le_trans (le_max_right x y) (le_maxL_init _ _)
    · exact ih _ h

omit [Field α] [IsStrictOrderedRing α] in
theorem maxL_mem (x : α) (xs : List α) : maxL x xs = x ∨ maxL x xs ∈ xs := by
  induction xs generalizing x with
  | nil => simp [maxL]
  | cons y ys ih =>
    simp only [maxL]
    rcases ih (max x y) with h | h
    · rcases max_choice x y with h' | h'
      · left; rw [h, h']
      · right; rw [h, h']; simp
    · right; simp [h]

omit [IsStrictOrderedRing α] in
theorem maxList_mono {xs ys : List α} (h : List.Forall₂ (· ≤ ·) xs ys) : maxList xs ≤ maxList ys := by
  cases h with
  | nil => simp [maxList]
  | cons hab ht => simp only [maxList]; exact maxL_mono hab ht

omit [IsStrictOrderedRing α] in
theorem le_maxList_of_mem (xs : List α) (y : α) (hy : y ∈ xs) : y ≤ maxList xs := by
  cases xs with
  | nil => simp at hy
  | cons x xs =>
    simp only [maxList]
    rcases List.mem_cons.mp hy with rfl | h
    · exact le_maxL_init _ _
    · exact le_maxL_of_mem _ _ _ h

omit [IsStrictOrderedRing α] in
theorem maxList_mem (xs : List α) (h : xs ≠ []) : maxList xs ∈ xs := by
  cases xs with
  | nil => exact absurd rfl h
  | cons x xs =>
    simp only [maxList]
    rcases maxL_mem x xs with h' | h'
    · rw [h']; simp
    · simp [h']

theorem maxL_add_const (x c : α) (f : Nat → α) (l : List Nat) :
    maxL (x + c) (l.map fun a => f a + c) = maxL x (l.map f) + c := by
  induction l generalizing x with
  | nil => simp [maxL]
  | cons a l ih => simp only [List.map_cons, maxL, max_add_add_right, ih]

theorem maxList_add_const (c : α) (f : Nat → α) (l : List Nat) (hl : l ≠ []) :
    maxList (l.map fun a => f a + c) = maxList (l.map f) + c := by
  cases l with
  | nil => exact absurd rfl hl
  | cons a l => simp only [List.map_cons, maxList, maxL_add_const]

/-! ### argmax = first maximiser -/

omit [Field α] [IsStrictOrderedRing α] in
theorem argmaxGo_spec (ys : List α) : ∀ (pre : List α) (best : α) (bi : Nat),
    pre[bi]? = some best → (∀ (j : Nat) v, pre[j]? = some v → v ≤ best) → (∀ (j : Nat) v, j < bi → pre[j]? = some v → v < best) →
    (pre ++ ys)[argmaxGo best bi pre.length ys]? = some (maxL best ys) ∧
    (∀ (j : Nat) v, (pre ++ ys)[j]? = some v → v ≤ maxL best ys) ∧
    (∀ (j : Nat) v, j < argmaxGo best bi pre.length ys → (pre ++ ys)[j]? = some v → v < maxL best ys) := by
  induction ys with
  | nil =>
    intro pre best bi hb hmax hfirst
    simp only [argmaxGo, maxL, List.append_nil]
    exact ⟨hb, hmax, hfirst⟩
  | cons y ys ih =>
    intro pre best bi hb hmax hfirst
    have hbi : bi < pre.length := by
      by_contra h
      rw [List.getElem?_eq_none (by omega)] at hb; simp at hb
    have happ : pre ++ y :: ys = (pre ++ [y]) ++ ys := by simp
    simp only [argmaxGo, maxL]
    by_cases hlt : best < y
    · rw [if_pos hlt, max_eq_right (le_of_lt hlt), happ]
      have hlen : (pre ++ [y]).length = pre.length + 1 := by simp
      rw [← hlen]
      apply ih (pre ++ [y]) y pre.length
      · simp
      · intro j v hj
        rcases Nat.lt_or_ge j pre.length with h | h
        · rw [List.getElem?_append_left h] at hj
          exact le_trans (hmax j v hj) (le_of_lt hlt)
        · rw [List.getElem?_append_right h] at hj
          rcases Nat.eq_zero_or_pos (j - pre.length) with h0 | h0
          · rw [h0] at hj; simp at hj; rw [← hj]
          · rw [List.getElem?_eq_none (by simp; omega)] at hj; simp at hj
      · intro j v hj hv
        rw [List.getElem?_append_left hj] at hv
        exact lt_of_le_of_lt (hmax j v hv) hlt
    · rw [if_neg hlt, max_eq_left (not_lt.mp hlt), happ]
      have hlen : (pre ++ [y]).length = pre.length + 1 := by simp
      rw [← hlen]
      apply ih (pre ++ [y]) best bi
      · rw [List.getElem?_append_left hbi]; exact hb
      · intro j v hj
        rcases Nat.lt_or_ge j pre.length with h | h
        · rw [List.getElem?_append_left h] at hj; exact hmax j v hj
        · rw [List.getElem?_append_right h] at hj
          rcases Nat.eq_zero_or_pos (j - pre.length) with h0 | h0
          · rw [h0] at hj; simp at hj; rw [← hj]; exact not_lt.mp hlt
          · rw [List.getElem?_eq_none (by simp; omega)] at hj; simp at hj
      · intro j v hj hv
        rw [List.getElem?_append_left (by omega)] at hv
        exact hfirst j v hj hv

omit [IsStrictOrderedRing α] in
/-- `argmaxList` returns an index holding the maximum, every entry is ≤ it, every earlier entry is < it -/
theorem argmaxList_spec (xs : List α) (h : xs ≠ []) :
    xs[argmaxList xs]? = some (maxList xs) ∧ (∀ (j : Nat) v, xs[j]? = some v → v ≤ maxList xs) ∧
    (∀ (j : Nat) v, j < argmaxList xs → xs[j]? = some v → v < maxList xs) := by
  cases xs with
  | nil => exact absurd rfl h
  | cons x xs =>
    simp only [argmaxList, maxList]
    have := argmaxGo_spec xs [x] x 0 (by simp) (by
      intro j v hj
      cases j with
      | zero => simp at hj; rw [← hj]
      | succ j => simp at hj) (by intro j v hj; omega)
    simpa using this

/-! ### qval / backup: monotone, shift -/

/-- stochasticity of the tabulated problem on its real states/actions -/
def Stoch (P : Problem α) : Prop :=
  (∀ s a e, s < P.nS → a < P.nA → e < P.nE → 0 ≤ P.prob s a e) ∧
  ∀ s a, s < P.nS → a < P.nA → ((List.range P.nE).map fun e => P.prob s a e).sum = 1

theorem qval_mono (P : Problem α) (γ : α) (hγ : 0 ≤ γ) (s a : Nat)
    (hp : ∀ e, e < P.nE → 0 ≤ P.prob s a e)
    (u v : Int → α) (huv : ∀ i, u i ≤ v i) : qval P γ u s a ≤ qval P γ v s a := by
  unfold qval
  apply dot_mono_left
  · intro p hp'
    simp only [List.mem_map, List.mem_range] at hp'
    obtain ⟨e, he, rfl⟩ := hp'; exact hp e he
  · apply forall₂_map_of_mem
    intro i _
    have := mul_le_mul_of_nonneg_left (huv (P.nxt s a i)) hγ
    linarith

theorem qval_shift (P : Problem α) (γ : α) (s a : Nat)
    (hsum : ((List.range P.nE).map fun e => P.prob s a e).sum = 1)
    (v : Int → α) (c : α) : qval P γ (fun j => v j + c) s a = qval P γ v s a + γ * c := by
  unfold qval
  have : (fun e => P.rew s a e + γ * (v (P.nxt s a e) + c)) = fun e => (P.rew s a e + γ * v (P.nxt s a e)) + γ * c := by
    funext e; ring
  rw [this, dot_add_const, hsum, mul_one]

/-- textbook form of the action value -/
theorem qval_eq_sum (P : Problem α) (γ : α) (v : Int → α) (s a : Nat) :
    qval P γ v s a = ((List.range P.nE).map fun e => (P.rew s a e + γ * v (P.nxt s a e)) * P.prob s a e).sum := by
  unfold qval; exact dot_eq_sum _ _ _

theorem backup_mono (P : Problem α) (γ : α) (hγ : 0 ≤ γ) (s : Nat)
    (hp : ∀ a e, a < P.nA → e < P.nE → 0 ≤ P.prob s a e)
    (u v : Int → α) (huv : ∀ i, u i ≤ v i) : backup P γ u s ≤ backup P γ v s := by
  unfold backup qrow
  apply maxList_mono
  apply forall₂_map_of_mem
  intro a ha
  exact qval_mono P γ hγ s a (fun e he => hp a e (List.mem_range.mp ha) he) u v huv

theorem backup_shift (P : Problem α) (γ : α) (s : Nat) (hA : 0 < P.nA)
    (hsum : ∀ a, a < P.nA → ((List.range P.nE).map fun e => P.prob s a e).sum = 1)
    (v : Int → α) (c : α) : backup P γ (fun j => v j + c) s = backup P γ v s + γ * c := by
  unfold backup qrow
  have : (List.range P.nA).map (qval P γ (fun j => v j + c) s) = (List.range P.nA).map (fun a => qval P γ v s a + γ * c) := by
    apply List.map_congr_left
    intro a ha
    exact qval_shift P γ s a (hsum a (List.mem_range.mp ha)) v c
  rw [this]
  exact maxList_add_const (γ * c) (qval P γ v s) (List.range P.nA) (by simp; omega)

end MdpaxV

namespace MdpaxV
variable {α : Type} [Field α] [LinearOrder α] [IsStrictOrderedRing α]

/-! ### `look`: JAX gather on a value list -/

theorem clampIdx_lt (n : Nat) (hn : 0 < n) (i : Int) : clampIdx n i < n := by
  unfold clampIdx
  simp only []
  split <;> split <;> (try split) <;> omega

omit [IsStrictOrderedRing α] in
theorem look_eq_getElem (V : List α) (hne : 0 < V.length) (i : Int) :
    look V i = V[clampIdx V.length i]'(clampIdx_lt _ hne i) := by
  unfold look
  rw [List.getElem?_eq_getElem (clampIdx_lt _ hne i)]; rfl

omit [IsStrictOrderedRing α] in
/-- a pointwise relation between two value lists transfers to every lookup -/
theorem look_forall₂ (R : α → α → Prop) (U V : List α) (h : List.Forall₂ R U V) (hne : 0 < U.length) (i : Int) :
    R (look U i) (look V i) := by
  have hlen := h.length_eq
  rw [look_eq_getElem U hne, look_eq_getElem V (by omega)]
  have := (List.forall₂_iff_get.mp h).2 (clampIdx U.length i) (clampIdx_lt _ hne i) (by rw [← hlen]; exact clampIdx_lt _ hne i)
  simp only [List.get_eq_getElem] at this
  convert this using 2
  all_goals rw [hlen]

omit [IsStrictOrderedRing α] in
theorem look_map_add (V : List α) (hne : 0 < V.length) (c : α) (i : Int) :
    look (V.map (· + c)) i = look V i + c := by
  rw [look_eq_getElem _ (by simpa using hne), look_eq_getElem V hne]
  simp

end MdpaxV
