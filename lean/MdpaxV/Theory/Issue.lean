/- Lemmas about the stock-issuing scans (C14, C15). -/
import MdpaxV.Model.Shipped
import Mathlib.Tactic.Linarith
import Mathlib.Tactic.Ring
import Mathlib.Algebra.Order.Group.Int
import Mathlib.Algebra.BigOperators.Group.List.Basic
import Mathlib.Algebra.Order.BigOperators.Group.List
namespace MdpaxV

theorem sumI_eq_sum (xs : List Int) : sumI xs = xs.sum := by
  unfold sumI; exact (List.sum_eq_foldl).symm

theorem issueFwd_length (d : Int) (xs : List Int) : (issueFwd d xs).length = xs.length := by
  induction xs generalizing d with
  | nil => rfl
  | cons x xs ih => simp [issueFwd, ih]

theorem issueRev_length (d : Int) (xs : List Int) : (issueRev d xs).length = xs.length := by
  simp [issueRev, issueFwd_length]

/-- closed form: slot i keeps max 0 (xᵢ − max 0 (d − Σ_{j<i} xⱼ)); needs d ≥ 0 and stock ≥ 0 -/
theorem issueFwd_getElem (d : Int) (hd : 0 ≤ d) (xs : List Int) (hx : ∀ x ∈ xs, 0 ≤ x) (i : Nat) (hi : i < xs.length) :
    (issueFwd d xs)[i]'(by rw [issueFwd_length]; exact hi) = max 0 (xs[i] - max 0 (d - (xs.take i).sum)) := by
  induction xs generalizing d i with
  | nil => simp at hi
  | cons x xs ih =>
    cases i with
    | zero =>
      simp only [issueFwd, List.getElem_cons_zero, List.take_zero, List.sum_nil, sub_zero]
      rw [max_eq_right hd, max_comm]
    | succ i =>
      simp only [issueFwd, List.getElem_cons_succ, List.take_succ_cons, List.sum_cons]
      rw [ih (max (d - x) 0) (le_max_right _ _) (fun y hy => hx y (by simp [hy])) i (by simpa using hi)]
      have hx0 := hx x (by simp)
      have hs : 0 ≤ (xs.take i).sum := List.sum_nonneg (fun y hy => hx y (by simp [List.mem_of_mem_take hy]))
      congr 2
      rcases le_total (d - x) 0 with h | h
      · rw [max_eq_right h]; rw [max_eq_left (by omega), max_eq_left (by omega)]
      · rw [max_eq_left h]; congr 1; ring

/-- every slot keeps between 0 and its opening stock -/
theorem issueFwd_bounds (d : Int) (hd : 0 ≤ d) (xs : List Int) (hx : ∀ x ∈ xs, 0 ≤ x) :
    List.Forall₂ (fun r x => 0 ≤ r ∧ r ≤ x) (issueFwd d xs) xs := by
  induction xs generalizing d with
  | nil => simp [issueFwd]
  | cons x xs ih =>
    simp only [issueFwd]
    have hx0 := hx x (by simp)
    exact List.Forall₂.cons ⟨le_max_right _ _, by omega⟩ (ih _ (le_max_right _ _) (fun y hy => hx y (by simp [hy])))

/-- units are conserved: opening stock = units issued (min of demand and stock) + remaining stock -/
theorem issueFwd_conservation (d : Int) (hd : 0 ≤ d) (xs : List Int) (hx : ∀ x ∈ xs, 0 ≤ x) :
    xs.sum = min d xs.sum + (issueFwd d xs).sum := by
  induction xs generalizing d with
  | nil => simp [issueFwd, hd]
  | cons x xs ih =>
    have hx0 := hx x (by simp)
    have hs : 0 ≤ xs.sum := List.sum_nonneg (fun y hy => hx y (by simp [hy]))
    have := ih (max (d - x) 0) (le_max_right _ _) (fun y hy => hx y (by simp [hy]))
    simp only [issueFwd, List.sum_cons]
    rcases le_total (d - x) 0 with h | h
    · rw [max_eq_right h] at this ⊢
      rw [max_eq_left (by omega)]
      rw [min_eq_left hs] at this
      rw [min_eq_left (by omega)]; omega
    · rw [max_eq_left h] at this ⊢
      rw [max_eq_right (by omega)]
      rcases le_total (d - x) xs.sum with h2 | h2
      · rw [min_eq_left h2] at this; rw [min_eq_left (by omega)]; omega
      · rw [min_eq_right h2] at this; rw [min_eq_right (by omega)]; omega

theorem issueRev_conservation (d : Int) (hd : 0 ≤ d) (xs : List Int) (hx : ∀ x ∈ xs, 0 ≤ x) :
    xs.sum = min d xs.sum + (issueRev d xs).sum := by
  have := issueFwd_conservation d hd xs.reverse (fun x h => hx x (by simpa using h))
  simpa [issueRev, List.sum_reverse] using this

theorem forall₂_reverse {β γ : Type} (R : β → γ → Prop) {l1 : List β} {l2 : List γ} (h : List.Forall₂ R l1 l2) :
    List.Forall₂ R l1.reverse l2.reverse := by
  induction h with
  | nil => simp
  | cons hab _ ih => simp only [List.reverse_cons]; exact List.rel_append ih (List.Forall₂.cons hab List.Forall₂.nil)

theorem issueRev_bounds (d : Int) (hd : 0 ≤ d) (xs : List Int) (hx : ∀ x ∈ xs, 0 ≤ x) :
    List.Forall₂ (fun r x => 0 ≤ r ∧ r ≤ x) (issueRev d xs) xs := by
  have := forall₂_reverse _ (issueFwd_bounds d hd xs.reverse (fun x h => hx x (by simpa using h)))
  simpa [issueRev] using this

end MdpaxV
