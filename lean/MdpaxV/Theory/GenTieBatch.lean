/- The tie by translation, batching: `BatchProcessor.__init__` as generated from /repo's Python source (MdpaxV/Gen/Batch.lean,
   rewritten by harness/translate.py on every run of C18) equals the hand-written model for ALL inputs of the documented domain. -/
import MdpaxV.Gen.Batch
import MdpaxV.Model.Batch
import Mathlib.Tactic.Ring
import Mathlib.Tactic.Linarith
import Mathlib.Tactic.NormNum
import Mathlib.Algebra.Order.Ring.Int

namespace MdpaxV.GenTie
open MdpaxV

theorem fdiv_natCast (a b : Nat) : Int.fdiv (a : Int) (b : Int) = ((a / b : Nat) : Int) := by
  rw [Int.fdiv_eq_ediv_of_nonneg _ (Int.natCast_nonneg b)]
  exact (Int.natCast_ediv a b).symm

/-- **`BatchProcessor.__init__` as written in /repo = the model** (`spd`, `bsz`, `nb`, `npad`), for every number of states,
    every maximum batch size and every device count ≥ 1 -/
theorem batchInit_eq_model (c : BatchCfg) (sd : Int) (hd : 1 ≤ c.dev) :
    Gen.batchInit c.n sd c.maxbs c.dev = ((c.dev : Int), (bsz c : Int), (nb c : Int), npad c) := by
  have hspd : Int.fdiv (((c.n : Int) + (c.dev : Int)) - 1) (c.dev : Int) = ((spd c : Nat) : Int) := by
    have : ((c.n : Int) + (c.dev : Int)) - 1 = ((c.n + c.dev - 1 : Nat) : Int) := by omega
    rw [this, fdiv_natCast]; rfl
  have hbsz : (if (c.dev : Int) = 1 then min (c.maxbs : Int) (c.n : Int) else min (c.maxbs : Int) (max 64 ((spd c : Nat) : Int)))
      = ((bsz c : Nat) : Int) := by
    unfold bsz
    by_cases h1 : c.dev = 1
    · have : (c.dev : Int) = 1 := by exact_mod_cast h1
      rw [if_pos this, if_pos h1]; push_cast; rfl
    · have : ¬ (c.dev : Int) = 1 := by exact_mod_cast h1
      rw [if_neg this, if_neg h1]; push_cast; rfl
  have hnb : (if ((spd c : Nat) : Int) ≤ ((bsz c : Nat) : Int) then (1 : Int)
      else Int.fdiv ((((spd c : Nat) : Int) + ((bsz c : Nat) : Int)) - 1) ((bsz c : Nat) : Int)) = ((nb c : Nat) : Int) := by
    unfold nb
    by_cases h1 : spd c ≤ bsz c
    · have : ((spd c : Nat) : Int) ≤ ((bsz c : Nat) : Int) := by exact_mod_cast h1
      rw [if_pos this, if_pos h1]; rfl
    · have hn : ¬ ((spd c : Nat) : Int) ≤ ((bsz c : Nat) : Int) := by exact_mod_cast h1
      rw [if_neg hn, if_neg h1]
      have : (((spd c : Nat) : Int) + ((bsz c : Nat) : Int)) - 1 = ((spd c + bsz c - 1 : Nat) : Int) := by omega
      rw [this, fdiv_natCast]
  simp only [Gen.batchInit]
  rw [hspd, hbsz, hnb]
  simp only [npad, slots]
  push_cast
  rfl

end MdpaxV.GenTie
