/- The model's policy-evaluation operator `Tpol` is affine, so every policy has a value (fixed point) in every ordered
   field; the model's optimality operator `Top` has a fixed point, which dominates every policy's value and is attained
   by a policy.  These discharge the existence hypotheses (`W`, `U`) of the C01 / C05 bound theorems. -/
import MdpaxV.Theory.Bridge
import MdpaxV.Theory.Existence

set_option linter.unusedSectionVars false
namespace MdpaxV
variable {α : Type} [Field α] [LinearOrder α] [IsStrictOrderedRing α]

theorem sum_affine_split (r x p : Nat → α) (γ : α) (l : List Nat) :
    (l.map fun e => (r e + γ * x e) * p e).sum - (l.map fun e => (r e + γ * 0) * p e).sum
      = γ * (l.map fun e => x e * p e).sum := by
  induction l with
  | nil => simp
  | cons e l ih =>
    simp only [List.map_cons, List.sum_cons]
    have : (r e + γ * x e) * p e + (l.map fun e => (r e + γ * x e) * p e).sum
        - ((r e + γ * 0) * p e + (l.map fun e => (r e + γ * 0) * p e).sum)
        = γ * (x e * p e) + ((l.map fun e => (r e + γ * x e) * p e).sum - (l.map fun e => (r e + γ * 0) * p e).sum) := by ring
    rw [this, ih]; ring

theorem sum_lin_add (x y p : Nat → α) (l : List Nat) :
    (l.map fun e => (x e + y e) * p e).sum = (l.map fun e => x e * p e).sum + (l.map fun e => y e * p e).sum := by
  induction l with
  | nil => simp
  | cons e l ih => simp only [List.map_cons, List.sum_cons, ih]; ring

theorem sum_lin_smul (a : α) (x p : Nat → α) (l : List Nat) :
    (l.map fun e => (a * x e) * p e).sum = a * (l.map fun e => x e * p e).sum := by
  induction l with
  | nil => simp
  | cons e l ih => simp only [List.map_cons, List.sum_cons, ih]; ring

/-- the action value minus the action value at the zero vector is γ · Σ_e v(next_e) · p_e -/
theorem qval_sub_zero (P : Problem α) (γ : α) (v : Int → α) (s a : Nat) :
    qval P γ v s a - qval P γ (fun _ => 0) s a
      = γ * ((List.range P.nE).map fun e => v (P.nxt s a e) * P.prob s a e).sum := by
  rw [qval_eq_sum, qval_eq_sum]
  exact sum_affine_split (fun e => P.rew s a e) (fun e => v (P.nxt s a e)) (fun e => P.prob s a e) γ _

theorem look_ofFn_zero (n : Nat) (hn : 0 < n) : look (List.ofFn (0 : Fin n → α)) = fun _ => 0 := by
  funext j; rw [look_ofFn n hn]; rfl

theorem Tpol_sub_zero (P : Problem α) (γ : α) (hS : 0 < P.nS) (pol : Fin P.nS → Nat) (v : Fin P.nS → α) (i : Fin P.nS) :
    Tpol P γ pol v i - Tpol P γ pol 0 i
      = γ * ((List.range P.nE).map fun e =>
          v ⟨clampIdx P.nS (P.nxt i.val (pol i) e), clampIdx_lt _ hS _⟩ * P.prob i.val (pol i) e).sum := by
  unfold Tpol
  rw [look_ofFn_zero P.nS hS, qval_sub_zero]
  congr 2
  apply List.map_congr_left
  intro e _
  rw [look_ofFn P.nS hS]

theorem Tpol_add (P : Problem α) (γ : α) (hS : 0 < P.nS) (pol : Fin P.nS → Nat) (u v : Fin P.nS → α) (i : Fin P.nS) :
    Tpol P γ pol (u + v) i - Tpol P γ pol 0 i
      = (Tpol P γ pol u i - Tpol P γ pol 0 i) + (Tpol P γ pol v i - Tpol P γ pol 0 i) := by
  rw [Tpol_sub_zero P γ hS, Tpol_sub_zero P γ hS, Tpol_sub_zero P γ hS, ← mul_add]
  congr 1
  simp only [Pi.add_apply]
  exact sum_lin_add _ _ _ _

theorem Tpol_smul (P : Problem α) (γ : α) (hS : 0 < P.nS) (pol : Fin P.nS → Nat) (a : α) (u : Fin P.nS → α) (i : Fin P.nS) :
    Tpol P γ pol (a • u) i - Tpol P γ pol 0 i = a * (Tpol P γ pol u i - Tpol P γ pol 0 i) := by
  rw [Tpol_sub_zero P γ hS, Tpol_sub_zero P γ hS]
  simp only [Pi.smul_apply, smul_eq_mul]
  rw [sum_lin_smul]; ring

/-- **every policy has a discounted value**: the evaluation operator of any policy with valid action indices has a
    fixed point, over any linearly ordered field -/
theorem policy_value_exists (P : Problem α) (γ : α) (hγ0 : 0 ≤ γ) (hγ : γ < 1) (hst : Stoch P) (hS : 0 < P.nS)
    (pol : Fin P.nS → Nat) (hpol : ∀ i, pol i < P.nA) : ∃ U, Tpol P γ pol U = U := by
  have : Nonempty (Fin P.nS) := ⟨⟨0, hS⟩⟩
  exact affine_fixed_exists (Tpol P γ pol) γ (Tpol_monoShift P γ hγ0 hst hS pol hpol) hγ0 hγ
    (Tpol_add P γ hS pol) (Tpol_smul P γ hS pol)

theorem policy_value_unique (P : Problem α) (γ : α) (hγ0 : 0 ≤ γ) (hγ : γ < 1) (hst : Stoch P) (hS : 0 < P.nS)
    (pol : Fin P.nS → Nat) (hpol : ∀ i, pol i < P.nA) (U U' : Fin P.nS → α)
    (hU : Tpol P γ pol U = U) (hU' : Tpol P γ pol U' = U') : U = U' := by
  have : Nonempty (Fin P.nS) := ⟨⟨0, hS⟩⟩
  exact fixed_unique _ γ (Tpol_monoShift P γ hγ0 hst hS pol hpol) hγ0 hγ U U' hU hU'

/-- **the optimal value function exists**: `Top` has a fixed point `W`; it is the value of some policy -/
theorem optimal_value_exists (P : Problem α) (γ : α) (hγ0 : 0 ≤ γ) (hγ : γ < 1) (hst : Stoch P) (hS : 0 < P.nS) (hA : 0 < P.nA) :
    ∃ W, Top P γ W = W ∧ ∃ pol : Fin P.nS → Nat, (∀ i, pol i < P.nA) ∧ Tpol P γ pol W = W := by
  have : Nonempty (Fin P.nS) := ⟨⟨0, hS⟩⟩
  have : Nonempty (Fin P.nA) := ⟨⟨0, hA⟩⟩
  obtain ⟨W, hW, k, hk⟩ := optimal_fixed_exists (κ := Fin P.nS → Fin P.nA) (Top P γ)
    (fun k => Tpol P γ (fun i => (k i).val)) γ
    (fun k => Tpol_monoShift P γ hγ0 hst hS _ (fun i => (k i).isLt)) hγ0 hγ
    (fun k u i => Tpol_le_Top P γ hA _ (fun i => (k i).isLt) u i)
    (fun u => ⟨fun i => ⟨greedyIdx P γ (look (List.ofFn u)) i.val, (C02.policy_attains P γ _ i.val hA).1⟩,
      Tpol_greedy P γ hA u _ (fun _ => rfl)⟩)
    (fun k => policy_value_exists P γ hγ0 hγ hst hS _ (fun i => (k i).isLt))
  exact ⟨W, hW, fun i => (k i).val, fun i => (k i).isLt, hk⟩

/-- a fixed point of `Top` dominates the value of every policy -/
theorem optimal_dominates (P : Problem α) (γ : α) (hγ0 : 0 ≤ γ) (hγ : γ < 1) (hst : Stoch P) (hS : 0 < P.nS) (hA : 0 < P.nA)
    (W : Fin P.nS → α) (hW : Top P γ W = W) (pol : Fin P.nS → Nat) (hpol : ∀ i, pol i < P.nA)
    (U : Fin P.nS → α) (hU : Tpol P γ pol U = U) (i : Fin P.nS) : U i ≤ W i := by
  have : Nonempty (Fin P.nS) := ⟨⟨0, hS⟩⟩
  exact le_fixed_of_le_T (Top P γ) γ (Top_monoShift P γ hγ0 hst hS hA) hγ0 hγ W hW U
    (fun j => by have := Tpol_le_Top P γ hA pol hpol U j; rw [hU] at this; exact this) i

theorem optimal_value_unique (P : Problem α) (γ : α) (hγ0 : 0 ≤ γ) (hγ : γ < 1) (hst : Stoch P) (hS : 0 < P.nS) (hA : 0 < P.nA)
    (W W' : Fin P.nS → α) (hW : Top P γ W = W) (hW' : Top P γ W' = W') : W = W' := by
  have : Nonempty (Fin P.nS) := ⟨⟨0, hS⟩⟩
  exact fixed_unique _ γ (Top_monoShift P γ hγ0 hst hS hA) hγ0 hγ W W' hW hW'

end MdpaxV
