/- Generic lemmas about the `solve(k)` loop (C08, C09, C12). Core Lean + omega. -/
import MdpaxV.Model.Loop
import Mathlib.Logic.Function.Iterate
namespace MdpaxV
variable {σ : Type}

/-- state after `j` iterations, ignoring the convergence test -/
def iterState (step : σ → σ × Bool) (j : Nat) (s : σ) : σ := (fun x => (step x).1)^[j] s

theorem iterState_succ (step : σ → σ × Bool) (j : Nat) (s : σ) :
    iterState step (j+1) s = iterState step j (step s).1 := by
  simp [iterState, Function.iterate_succ_apply]

theorem iterState_succ' (step : σ → σ × Bool) (j : Nat) (s : σ) :
    iterState step (j+1) s = (step (iterState step j s)).1 := by
  simp [iterState, Function.iterate_succ_apply']

/-- complete description of the loop result: with m = sweeps performed,
    state = m-th iterate; m ≤ k; every sweep before the last had its test not fire;
    converged ⇔ the last sweep's test fired; not converged ⇒ m = k -/
theorem loopBody_spec (step : σ → σ × Bool) (iter : σ → Nat) (f : Nat) (k : Nat) (s : σ) (n : Nat) (sv : List (Nat × σ)) :
    let r := loopBody step iter f k s n sv
    ∃ m, r.sweeps = n + m ∧ m ≤ k ∧ r.state = iterState step m s ∧
      (r.converged = true → 1 ≤ m ∧ (step (iterState step (m-1) s)).2 = true ∧ ∀ j, j + 1 < m → (step (iterState step j s)).2 = false) ∧
      (r.converged = false → m = k ∧ ∀ j, j < m → (step (iterState step j s)).2 = false) := by
  induction k generalizing s n sv with
  | zero =>
    refine ⟨0, ?_⟩
    simp [loopBody, iterState]
  | succ k ih =>
    simp only [loopBody]
    by_cases hd : (step s).2 = true
    · rw [if_pos hd]
      refine ⟨1, rfl, by omega, by simp [iterState], ?_, ?_⟩
      · intro _; refine ⟨Nat.le_refl _, by simpa [iterState] using hd, fun j hj => by omega⟩
      · intro h; simp at h
    · rw [if_neg hd]
      obtain ⟨m, h1, h2, h3, h4, h5⟩ := ih (step s).1 (n+1)
        (if f ≠ 0 ∧ iter (step s).1 % f = 0 then sv ++ [(iter (step s).1, (step s).1)] else sv)
      have hd' : (step s).2 = false := by simpa using hd
      refine ⟨m+1, by rw [h1]; omega, by omega, by rw [h3, iterState_succ], ?_, ?_⟩
      · intro hc
        obtain ⟨a, b, c⟩ := h4 hc
        refine ⟨by omega, ?_, ?_⟩
        · have : m + 1 - 1 = (m - 1) + 1 := by omega
          rw [this, iterState_succ]; exact b
        · intro j hj
          cases j with
          | zero => simpa [iterState] using hd'
          | succ j => rw [iterState_succ]; exact c j (by omega)
      · intro hc
        obtain ⟨a, b⟩ := h5 hc
        refine ⟨by omega, ?_⟩
        intro j hj
        cases j with
        | zero => simpa [iterState] using hd'
        | succ j => rw [iterState_succ]; exact b j (by omega)

/-- state/converged/sweeps do not depend on the save accumulator nor on the checkpoint frequency -/
theorem loopBody_state_indep (step : σ → σ × Bool) (iter : σ → Nat) (f f' k : Nat) (s : σ) (n n' : Nat) (sv sv' : List (Nat × σ)) :
    (loopBody step iter f k s n sv).state = (loopBody step iter f' k s n' sv').state ∧
    (loopBody step iter f k s n sv).converged = (loopBody step iter f' k s n' sv').converged ∧
    (loopBody step iter f k s n sv).sweeps + n' = (loopBody step iter f' k s n' sv').sweeps + n := by
  induction k generalizing s n n' sv sv' with
  | zero => simp [loopBody]; omega
  | succ k ih =>
    simp only [loopBody]
    split
    · simp; omega
    · have := ih (step s).1 (n+1) (n'+1)
        (if f ≠ 0 ∧ iter (step s).1 % f = 0 then sv ++ [(iter (step s).1, (step s).1)] else sv)
        (if f' ≠ 0 ∧ iter (step s).1 % f' = 0 then sv' ++ [(iter (step s).1, (step s).1)] else sv')
      refine ⟨this.1, this.2.1, ?_⟩
      have h3 := this.2.2
      omega

/-- composability of the loop: if the first call did not converge, k₁ then k₂ iterations = k₁+k₂ iterations -/
theorem loopBody_compose (step : σ → σ × Bool) (iter : σ → Nat) (f k1 k2 : Nat) (s : σ) (n : Nat) (sv : List (Nat × σ))
    (h : (loopBody step iter f k1 s n sv).converged = false) :
    (loopBody step iter f (k1 + k2) s n sv).state =
      (loopBody step iter f k2 (loopBody step iter f k1 s n sv).state 0 []).state ∧
    (loopBody step iter f (k1 + k2) s n sv).converged =
      (loopBody step iter f k2 (loopBody step iter f k1 s n sv).state 0 []).converged ∧
    (loopBody step iter f (k1 + k2) s n sv).sweeps =
      (loopBody step iter f k1 s n sv).sweeps + (loopBody step iter f k2 (loopBody step iter f k1 s n sv).state 0 []).sweeps := by
  induction k1 generalizing s n sv with
  | zero =>
    simp only [loopBody, Nat.zero_add]
    have := loopBody_state_indep step iter f f k2 s n 0 sv []
    refine ⟨this.1, this.2.1, ?_⟩
    have := this.2.2; omega
  | succ k1 ih =>
    have e : k1 + 1 + k2 = (k1 + k2) + 1 := by omega
    rw [e]
    simp only [loopBody] at h ⊢
    split
    · rename_i hd; rw [if_pos hd] at h; simp at h
    · rename_i hd; rw [if_neg hd] at h; exact ih _ _ _ h

/-- iteration counter after the loop = counter before + sweeps, when each step increments it by one -/
theorem loopBody_iter (step : σ → σ × Bool) (iter : σ → Nat) (hinc : ∀ s, iter (step s).1 = iter s + 1)
    (f k : Nat) (s : σ) (n : Nat) (sv : List (Nat × σ)) :
    iter (loopBody step iter f k s n sv).state + n = iter s + (loopBody step iter f k s n sv).sweeps := by
  induction k generalizing s n sv with
  | zero => simp [loopBody]
  | succ k ih =>
    simp only [loopBody]
    split
    · simp [hinc]; omega
    · have := ih (step s).1 (n+1)
        (if f ≠ 0 ∧ iter (step s).1 % f = 0 then sv ++ [(iter (step s).1, (step s).1)] else sv)
      have h2 := hinc s
      omega

end MdpaxV

namespace MdpaxV
variable {σ : Type}

/-- two runs from `R`-related states stay related, when `step` respects `R` -/
theorem loopBody_rel (R : σ → σ → Prop) (step : σ → σ × Bool) (iter : σ → Nat)
    (hstep : ∀ a b, R a b → R (step a).1 (step b).1 ∧ (step a).2 = (step b).2)
    (f f' k : Nat) (a b : σ) (hab : R a b) (n : Nat) (sv sv' : List (Nat × σ)) :
    R (loopBody step iter f k a n sv).state (loopBody step iter f' k b n sv').state ∧
    (loopBody step iter f k a n sv).converged = (loopBody step iter f' k b n sv').converged ∧
    (loopBody step iter f k a n sv).sweeps = (loopBody step iter f' k b n sv').sweeps := by
  induction k generalizing a b n sv sv' with
  | zero => simpa [loopBody] using hab
  | succ k ih =>
    obtain ⟨h1, h2⟩ := hstep a b hab
    simp only [loopBody]
    rw [h2]
    split
    · exact ⟨h1, rfl, rfl⟩
    · exact ih _ _ h1 _ _ _

/-- `solve(k₁)` (not converged) followed by `solve(k₂)` equals `solve(k₁+k₂)`, when the post-loop step
    `finish` only touches fields that `step` does not read (`R`) and recomputes them from the rest -/
theorem solveCall_compose (R : σ → σ → Prop) (step : σ → σ × Bool) (iter : σ → Nat) (finish : Bool → σ → σ)
    (hstep : ∀ a b, R a b → R (step a).1 (step b).1 ∧ (step a).2 = (step b).2)
    (hfinR : ∀ a, R (finish false a) a)
    (hfin : ∀ c a b, R a b → finish c a = finish c b)
    (f k1 k2 : Nat) (s : σ)
    (h : (solveCall step iter finish f k1 s).converged = false) :
    let r1 := solveCall step iter finish f k1 s
    let r2 := solveCall step iter finish f k2 r1.state
    let r := solveCall step iter finish f (k1 + k2) s
    r2.state = r.state ∧ r2.converged = r.converged ∧ r.sweeps = r1.sweeps + r2.sweeps := by
  simp only [solveCall, solveLoop] at h ⊢
  have hc := loopBody_compose step iter f k1 k2 s 0 [] h
  have hrel := loopBody_rel R step iter hstep f f k2
    (finish (loopBody step iter f k1 s 0 []).converged (loopBody step iter f k1 s 0 []).state)
    (loopBody step iter f k1 s 0 []).state (by rw [h]; exact hfinR _) 0 [] []
  refine ⟨?_, ?_, ?_⟩
  · rw [hc.1, hc.2.1, ← hrel.2.1]
    exact hfin _ _ _ hrel.1
  · rw [hc.2.1, hrel.2.1]
  · rw [hc.2.2, hrel.2.2]

end MdpaxV
