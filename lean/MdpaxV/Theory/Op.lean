/- Abstract theory of monotone + shift operators on `ι → α` (ι finite, non-empty; α a linearly ordered field):
   fixed-point brackets, span contraction, the VI ε-bound, greedy-policy loss, γ = 1 gain brackets. -/
import Mathlib.Algebra.Order.Field.Basic
import Mathlib.Order.Lattice
import Mathlib.Data.Fintype.Basic
import Mathlib.Data.Finset.Lattice.Fold
import Mathlib.Tactic.Linarith
import Mathlib.Tactic.FieldSimp
import Mathlib.Tactic.Ring
import Mathlib.Tactic.Positivity
import Mathlib.Logic.Function.Iterate
set_option linter.unusedSectionVars false

namespace MdpaxV
variable {ι : Type} [Fintype ι] [Nonempty ι]
variable {α : Type} [Field α] [LinearOrder α] [IsStrictOrderedRing α]

def vmax (f : ι → α) : α := Finset.univ.sup' Finset.univ_nonempty f
def vmin (f : ι → α) : α := Finset.univ.inf' Finset.univ_nonempty f
def sp (f : ι → α) : α := vmax f - vmin f

omit [Field α] [IsStrictOrderedRing α] in
theorem le_vmax (f : ι → α) (i : ι) : f i ≤ vmax f := Finset.le_sup' f (Finset.mem_univ i)
omit [Field α] [IsStrictOrderedRing α] in
theorem vmin_le (f : ι → α) (i : ι) : vmin f ≤ f i := Finset.inf'_le f (Finset.mem_univ i)
omit [Field α] [IsStrictOrderedRing α] in
theorem exists_eq_vmax (f : ι → α) : ∃ i, f i = vmax f := by
  obtain ⟨i, _, h⟩ := Finset.exists_mem_eq_sup' Finset.univ_nonempty f
  exact ⟨i, h.symm⟩
omit [Field α] [IsStrictOrderedRing α] in
theorem exists_eq_vmin (f : ι → α) : ∃ i, f i = vmin f := by
  obtain ⟨i, _, h⟩ := Finset.exists_mem_eq_inf' Finset.univ_nonempty f
  exact ⟨i, h.symm⟩
omit [Field α] [IsStrictOrderedRing α] in
theorem vmax_le {f : ι → α} {c : α} (h : ∀ i, f i ≤ c) : vmax f ≤ c :=
  Finset.sup'_le _ _ (fun i _ => h i)
omit [Field α] [IsStrictOrderedRing α] in
theorem le_vmin {f : ι → α} {c : α} (h : ∀ i, c ≤ f i) : c ≤ vmin f :=
  Finset.le_inf' _ _ (fun i _ => h i)

structure MonoShift (T : (ι → α) → (ι → α)) (γ : α) : Prop where
  mono : ∀ u w, (∀ i, u i ≤ w i) → ∀ i, T u i ≤ T w i
  shift : ∀ u (c : α) i, T (fun j => u j + c) i = T u i + γ * c

section
variable (T : (ι → α) → (ι → α)) (γ : α) (h : MonoShift T γ)
include h

/-- T u ≤ T w + γ max(u − w) -/
theorem T_le_add_max (hγ0 : 0 ≤ γ) (u w : ι → α) (i : ι) :
    T u i ≤ T w i + γ * vmax (fun j => u j - w j) := by
  have := h.mono u (fun j => w j + vmax (fun j => u j - w j))
    (fun j => by have := le_vmax (fun j => u j - w j) j; linarith) i
  rwa [h.shift] at this

theorem T_ge_add_min (hγ0 : 0 ≤ γ) (u w : ι → α) (i : ι) :
    T w i + γ * vmin (fun j => u j - w j) ≤ T u i := by
  have := h.mono (fun j => w j + vmin (fun j => u j - w j)) u
    (fun j => by have := vmin_le (fun j => u j - w j) j; linarith) i
  rwa [h.shift] at this

/-- span contraction -/
theorem sp_T_le (hγ0 : 0 ≤ γ) (u w : ι → α) :
    sp (fun i => T u i - T w i) ≤ γ * sp (fun j => u j - w j) := by
  unfold sp
  have h1 : vmax (fun i => T u i - T w i) ≤ γ * vmax (fun j => u j - w j) :=
    vmax_le (fun i => by have := T_le_add_max T γ h hγ0 u w i; linarith)
  have h2 : γ * vmin (fun j => u j - w j) ≤ vmin (fun i => T u i - T w i) :=
    le_vmin (fun i => by have := T_ge_add_min T γ h hγ0 u w i; linarith)
  nlinarith

/-- Upper bound on any fixed point: W ≤ V + max(TV − V)/(1−γ). -/
theorem fixed_le (hγ0 : 0 ≤ γ) (hγ : γ < 1)
    (W : ι → α) (hW : T W = W) (V : ι → α) (i : ι) :
    W i ≤ V i + vmax (fun j => T V j - V j) / (1 - γ) := by
  set d := vmax (fun j => W j - V j) with hd
  set m := vmax (fun j => T V j - V j) with hm
  have h1 : ∀ j, W j ≤ V j + d := fun j => by
    have := le_vmax (fun j => W j - V j) j; linarith
  have h3 : ∀ j, W j - V j ≤ m + γ * d := fun j => by
    have h' := le_vmax (fun j => T V j - V j) j
    have := T_le_add_max T γ h hγ0 W V j
    rw [hW] at this; linarith
  obtain ⟨k, hk⟩ := exists_eq_vmax (fun j => W j - V j)
  have h4 : d ≤ m + γ * d := by have := h3 k; rw [hk] at this; exact this
  have h5 : 0 < 1 - γ := by linarith
  have h6 : d ≤ m / (1 - γ) := by rw [le_div_iff₀ h5]; nlinarith
  have := h1 i; linarith

theorem fixed_ge (hγ0 : 0 ≤ γ) (hγ : γ < 1)
    (W : ι → α) (hW : T W = W) (V : ι → α) (i : ι) :
    V i + vmin (fun j => T V j - V j) / (1 - γ) ≤ W i := by
  set d := vmin (fun j => W j - V j) with hd
  set m := vmin (fun j => T V j - V j) with hm
  have h1 : ∀ j, V j + d ≤ W j := fun j => by
    have := vmin_le (fun j => W j - V j) j; linarith
  have h3 : ∀ j, m + γ * d ≤ W j - V j := fun j => by
    have h' := vmin_le (fun j => T V j - V j) j
    have := T_ge_add_min T γ h hγ0 W V j
    rw [hW] at this; linarith
  obtain ⟨k, hk⟩ := exists_eq_vmin (fun j => W j - V j)
  have h4 : m + γ * d ≤ d := by have := h3 k; rw [hk] at this; exact this
  have h5 : 0 < 1 - γ := by linarith
  have h6 : m / (1 - γ) ≤ d := by rw [div_le_iff₀ h5]; nlinarith
  have := h1 i; linarith
end

/-- VI with span test: V1 = T V0, sp(V1 − V0) < ε(1−γ)/γ, π greedy for V1 (Tπ V1 = T V1, Tπ ≤ T),
    W = T W, U = Tπ U  ⇒  0 ≤ W − U < ε. -/
theorem vi_span_bound (T Tπ : (ι → α) → (ι → α)) (γ ε : α)
    (hT : MonoShift T γ) (hπ : MonoShift Tπ γ) (hγ0 : 0 < γ) (hγ : γ < 1)
    (hdom : ∀ u i, Tπ u i ≤ T u i)
    (V0 V1 W U : ι → α) (hV1 : V1 = T V0) (hgreedy : Tπ V1 = T V1)
    (hW : T W = W) (hU : Tπ U = U)
    (htest : sp (fun i => V1 i - V0 i) < ε * (1 - γ) / γ) (i : ι) :
    0 ≤ W i - U i ∧ W i - U i < ε := by
  have h5 : 0 < 1 - γ := by linarith
  constructor
  · -- U = Tπ U ≤ T U, so min(TU − U) ≥ 0 ⇒ W ≥ U
    have hmin : 0 ≤ vmin (fun j => T U j - U j) := le_vmin (fun j => by
      have := hdom U j; rw [hU] at this; linarith)
    have := fixed_ge T γ hT hγ0.le hγ W hW U i
    have : 0 ≤ vmin (fun j => T U j - U j) / (1 - γ) := div_nonneg hmin h5.le
    linarith
  · have hup := fixed_le T γ hT hγ0.le hγ W hW V1 i
    have hlo := fixed_ge Tπ γ hπ hγ0.le hγ U hU V1 i
    rw [hgreedy] at hlo
    have hsp : sp (fun j => T V1 j - V1 j) ≤ γ * sp (fun j => V1 j - V0 j) := by
      have := sp_T_le T γ hT hγ0.le V1 V0
      rw [← hV1] at this; exact this
    have hgap : W i - U i ≤ sp (fun j => T V1 j - V1 j) / (1 - γ) := by
      unfold sp; rw [sub_div]; linarith
    have h1 : sp (fun j => T V1 j - V1 j) / (1 - γ) ≤ γ * sp (fun j => V1 j - V0 j) / (1 - γ) :=
      div_le_div_of_nonneg_right hsp h5.le
    have h2 : γ * sp (fun j => V1 j - V0 j) / (1 - γ) < ε := by
      rw [div_lt_iff₀ h5]
      have := mul_lt_mul_of_pos_left htest hγ0
      have e : γ * (ε * (1 - γ) / γ) = ε * (1 - γ) := by field_simp
      rw [e] at this; exact this
    linarith
end MdpaxV

namespace MdpaxV
variable {ι : Type} [Fintype ι] [Nonempty ι]
variable {α : Type} [Field α] [LinearOrder α] [IsStrictOrderedRing α]

/-- loss of the greedy policy for V1 when |V1 − W| ≤ δ pointwise: 0 ≤ W − U ≤ 2γδ/(1−γ). -/
theorem greedy_loss (T Tπ : (ι → α) → (ι → α)) (γ δ : α)
    (hT : MonoShift T γ) (hπ : MonoShift Tπ γ) (hγ0 : 0 ≤ γ) (hγ : γ < 1)
    (hdom : ∀ u i, Tπ u i ≤ T u i)
    (V1 W U : ι → α) (hgreedy : Tπ V1 = T V1) (hW : T W = W) (hU : Tπ U = U)
    (hδ : ∀ i, |V1 i - W i| ≤ δ) (i : ι) :
    0 ≤ W i - U i ∧ W i - U i ≤ 2 * γ * δ / (1 - γ) := by
  have h5 : 0 < 1 - γ := by linarith
  constructor
  · have hmin : 0 ≤ vmin (fun j => T U j - U j) := le_vmin (fun j => by
      have := hdom U j; rw [hU] at this; linarith)
    have := fixed_ge T γ hT hγ0 hγ W hW U i
    have : 0 ≤ vmin (fun j => T U j - U j) / (1 - γ) := div_nonneg hmin h5.le
    linarith
  · -- W = TW ≤ T V1 + γδ = Tπ V1 + γδ ≤ Tπ W + 2γδ
    have hA : ∀ j, W j ≤ T V1 j + γ * δ := fun j => by
      have := hT.mono W (fun k => V1 k + δ) (fun k => by have := abs_le.mp (hδ k); linarith) j
      rw [hT.shift, hW] at this; exact this
    have hB : ∀ j, Tπ V1 j ≤ Tπ W j + γ * δ := fun j => by
      have := hπ.mono V1 (fun k => W k + δ) (fun k => by have := abs_le.mp (hδ k); linarith) j
      rw [hπ.shift] at this; exact this
    have hmin : -(2 * γ * δ) ≤ vmin (fun j => Tπ W j - W j) := le_vmin (fun j => by
      have a := hA j; have b := hB j; rw [hgreedy] at b; linarith)
    have := fixed_ge Tπ γ hπ hγ0 hγ U hU W i
    have hdiv : -(2 * γ * δ) / (1 - γ) ≤ vmin (fun j => Tπ W j - W j) / (1 - γ) :=
      div_le_div_of_nonneg_right hmin h5.le
    have e : -(2 * γ * δ) / (1 - γ) = -(2 * γ * δ / (1 - γ)) := by ring
    linarith
end MdpaxV

namespace MdpaxV
variable {ι : Type} [Fintype ι] [Nonempty ι]
variable {α : Type} [Field α] [LinearOrder α] [IsStrictOrderedRing α]

/-- iterates of a MonoShift-1 operator are MonoShift-1 -/
theorem MonoShift.iterate {T : (ι → α) → (ι → α)} (h : MonoShift T 1) (p : Nat) : MonoShift (T^[p]) 1 := by
  induction p with
  | zero => exact ⟨fun u w huw i => huw i, fun u c i => by simp⟩
  | succ p ih =>
    refine ⟨fun u w huw i => ?_, fun u c i => ?_⟩
    · rw [Function.iterate_succ_apply', Function.iterate_succ_apply']
      exact h.mono _ _ (ih.mono u w huw) i
    · rw [Function.iterate_succ_apply', Function.iterate_succ_apply']
      have : (T^[p] fun j => u j + c) = fun j => T^[p] u j + c := by
        funext j; have := ih.shift u c j; simpa using this
      rw [this]; have := h.shift (T^[p] u) c i; simpa using this

/-- If S is MonoShift 1 and S h = h + q, then for every V: min(SV − V) ≤ q ≤ max(SV − V). -/
theorem bracket (S : (ι → α) → (ι → α)) (hS : MonoShift S 1) (hvec : ι → α) (q : α)
    (hq : ∀ i, S hvec i = hvec i + q) (V : ι → α) :
    vmin (fun i => S V i - V i) ≤ q ∧ q ≤ vmax (fun i => S V i - V i) := by
  constructor
  · -- at k = argmax (V − h): (SV − Sh)(k) ≤ max(V − h) = (V−h)(k)
    obtain ⟨k, hk⟩ := exists_eq_vmax (fun j => V j - hvec j)
    have h1 := T_le_add_max S 1 hS (by norm_num) V hvec k
    rw [hq k, ← hk] at h1
    have := vmin_le (fun i => S V i - V i) k
    linarith
  · obtain ⟨k, hk⟩ := exists_eq_vmin (fun j => V j - hvec j)
    have h1 := T_ge_add_min S 1 hS (by norm_num) V hvec k
    rw [hq k, ← hk] at h1
    have := le_vmax (fun i => S V i - V i) k
    linarith

/-- periodic VI: T h = h + g ⇒ T^p h = h + p g ⇒ min(T^p V − V) ≤ p g ≤ max(T^p V − V). -/
theorem periodic_bracket (T : (ι → α) → (ι → α)) (hT : MonoShift T 1) (hvec : ι → α) (g : α)
    (hg : ∀ i, T hvec i = hvec i + g) (p : Nat) (V : ι → α) :
    vmin (fun i => T^[p] V i - V i) ≤ p * g ∧ (p : α) * g ≤ vmax (fun i => T^[p] V i - V i) := by
  apply bracket (T^[p]) (hT.iterate p) hvec
  induction p with
  | zero => intro i; simp
  | succ p ih =>
    intro i
    rw [Function.iterate_succ_apply']
    have : T^[p] hvec = fun j => hvec j + p * g := funext ih
    rw [this, hT.shift, hg i]; push_cast; ring

/-- `T h = h + g` ⇒ `T^n h = h + n g` -/
theorem iterate_solution (T : (ι → α) → (ι → α)) (hT : MonoShift T 1) (hvec : ι → α) (g : α)
    (hg : ∀ i, T hvec i = hvec i + g) (n : Nat) (i : ι) : T^[n] hvec i = hvec i + n * g := by
  induction n generalizing i with
  | zero => simp
  | succ p ih =>
    rw [Function.iterate_succ_apply']
    have : T^[p] hvec = fun j => hvec j + p * g := funext ih
    rw [this, hT.shift, hg i]; push_cast; ring

/-- **what the gain means**: if `(g, h)` solves `T h = h + g`, the n-fold iterate of `T` from *any* vector `V` (for the
    optimality operator: the optimal expected total reward over n steps with terminal reward `V`) is `n·g + h` up to the
    fixed offsets `min(V − h)`, `max(V − h)` — so the n-step value per step tends to `g` at rate `sp(V − h)/n`. -/
theorem nstep_bracket (T : (ι → α) → (ι → α)) (hT : MonoShift T 1) (hvec : ι → α) (g : α)
    (hg : ∀ i, T hvec i = hvec i + g) (V : ι → α) (n : Nat) (i : ι) :
    hvec i + n * g + vmin (fun j => V j - hvec j) ≤ T^[n] V i ∧
    T^[n] V i ≤ hvec i + n * g + vmax (fun j => V j - hvec j) := by
  have hn := hT.iterate n
  constructor
  · have := hn.mono (fun j => hvec j + vmin (fun j => V j - hvec j)) V
      (fun j => by have := vmin_le (fun j => V j - hvec j) j; linarith) i
    rw [hn.shift, iterate_solution T hT hvec g hg n i] at this; linarith
  · have := hn.mono V (fun j => hvec j + vmax (fun j => V j - hvec j))
      (fun j => by have := le_vmax (fun j => V j - hvec j) j; linarith) i
    rw [hn.shift, iterate_solution T hT hvec g hg n i] at this; linarith
end MdpaxV

namespace MdpaxV
variable {ι : Type} [Fintype ι] [Nonempty ι]
variable {α : Type} [Field α] [LinearOrder α] [IsStrictOrderedRing α]

/-- sup-norm bound as a predicate: ‖f‖ ≤ δ -/
def normLe (f : ι → α) (δ : α) : Prop := ∀ i, |f i| ≤ δ
/-- strict sup-norm bound via max of absolute values -/
def vnorm (f : ι → α) : α := vmax (fun i => |f i|)

theorem abs_le_vnorm (f : ι → α) (i : ι) : |f i| ≤ vnorm f := le_vmax (fun i => |f i|) i

theorem vmax_le_vnorm (f : ι → α) : vmax f ≤ vnorm f :=
  vmax_le (fun i => le_trans (le_abs_self _) (abs_le_vnorm f i))

theorem neg_vnorm_le_vmin (f : ι → α) : -vnorm f ≤ vmin f :=
  le_vmin (fun i => by have := abs_le_vnorm f i; have := neg_abs_le (f i); linarith)

theorem sp_le_two_vnorm (f : ι → α) : sp f ≤ 2 * vnorm f := by
  unfold sp; have := vmax_le_vnorm f; have := neg_vnorm_le_vmin f; linarith

theorem vmin_le_vmax (f : ι → α) : vmin f ≤ vmax f := by
  obtain ⟨i⟩ := ‹Nonempty ι›
  exact le_trans (vmin_le f i) (le_vmax f i)

/-- VI, max_diff test: V1 = T V0, ‖V1 − V0‖ < ε(1−γ)/γ ⇒ ‖V1 − W‖ < ε for every fixed point W -/
theorem vi_maxdiff_values (T : (ι → α) → (ι → α)) (γ ε : α) (hT : MonoShift T γ) (hγ0 : 0 < γ) (hγ : γ < 1)
    (V0 V1 W : ι → α) (hV1 : V1 = T V0) (hW : T W = W)
    (htest : vnorm (fun i => V1 i - V0 i) < ε * (1 - γ) / γ) (i : ι) :
    |V1 i - W i| < ε := by
  have h5 : 0 < 1 - γ := by linarith
  set d := vnorm (fun i => V1 i - V0 i) with hd
  have hup := fixed_le T γ hT hγ0.le hγ W hW V1 i
  have hlo := fixed_ge T γ hT hγ0.le hγ W hW V1 i
  have hmax : vmax (fun j => T V1 j - V1 j) ≤ γ * d := by
    apply vmax_le; intro j
    have := T_le_add_max T γ hT hγ0.le V1 V0 j
    rw [← hV1] at this
    have h2 := vmax_le_vnorm (fun i => V1 i - V0 i)
    have := mul_le_mul_of_nonneg_left h2 hγ0.le
    linarith
  have hmin : -(γ * d) ≤ vmin (fun j => T V1 j - V1 j) := by
    apply le_vmin; intro j
    have := T_ge_add_min T γ hT hγ0.le V1 V0 j
    rw [← hV1] at this
    have h2 := neg_vnorm_le_vmin (fun i => V1 i - V0 i)
    have := mul_le_mul_of_nonneg_left h2 hγ0.le
    linarith
  have hkey : γ * d / (1 - γ) < ε := by
    rw [div_lt_iff₀ h5]
    have := mul_lt_mul_of_pos_left htest hγ0
    have e : γ * (ε * (1 - γ) / γ) = ε * (1 - γ) := by field_simp
    rw [e] at this; exact this
  have h1 : vmax (fun j => T V1 j - V1 j) / (1 - γ) ≤ γ * d / (1 - γ) := div_le_div_of_nonneg_right hmax h5.le
  have h2 : -(γ * d) / (1 - γ) ≤ vmin (fun j => T V1 j - V1 j) / (1 - γ) := div_le_div_of_nonneg_right hmin h5.le
  have e2 : -(γ * d) / (1 - γ) = -(γ * d / (1 - γ)) := by ring
  rw [abs_lt]; constructor <;> linarith

/-- VI, max_diff test, policy: 0 ≤ W − U < 2ε -/
theorem vi_maxdiff_policy (T Tπ : (ι → α) → (ι → α)) (γ ε : α)
    (hT : MonoShift T γ) (hπ : MonoShift Tπ γ) (hγ0 : 0 < γ) (hγ : γ < 1)
    (hdom : ∀ u i, Tπ u i ≤ T u i)
    (V0 V1 W U : ι → α) (hV1 : V1 = T V0) (hgreedy : Tπ V1 = T V1)
    (hW : T W = W) (hU : Tπ U = U)
    (htest : vnorm (fun i => V1 i - V0 i) < ε * (1 - γ) / γ) (i : ι) :
    0 ≤ W i - U i ∧ W i - U i < 2 * ε := by
  apply vi_span_bound T Tπ γ (2 * ε) hT hπ hγ0 hγ hdom V0 V1 W U hV1 hgreedy hW hU
  have := sp_le_two_vnorm (fun i => V1 i - V0 i)
  have e : 2 * ε * (1 - γ) / γ = 2 * (ε * (1 - γ) / γ) := by ring
  rw [e]; linarith

/-- policy iteration at a stable policy: π greedy for V (Tπ V = T V) and the evaluation test
    sp(Tπ V − V) < ε(1−γ)/γ met ⇒ 0 ≤ W − U < ε/γ -/
theorem pi_span_bound (T Tπ : (ι → α) → (ι → α)) (γ ε : α)
    (hT : MonoShift T γ) (hπ : MonoShift Tπ γ) (hγ0 : 0 < γ) (hγ : γ < 1)
    (hdom : ∀ u i, Tπ u i ≤ T u i)
    (V W U : ι → α) (hgreedy : Tπ V = T V) (hW : T W = W) (hU : Tπ U = U)
    (htest : sp (fun i => Tπ V i - V i) < ε * (1 - γ) / γ) (i : ι) :
    0 ≤ W i - U i ∧ W i - U i < ε / γ := by
  have h5 : 0 < 1 - γ := by linarith
  constructor
  · have hmin : 0 ≤ vmin (fun j => T U j - U j) := le_vmin (fun j => by
      have := hdom U j; rw [hU] at this; linarith)
    have := fixed_ge T γ hT hγ0.le hγ W hW U i
    have : 0 ≤ vmin (fun j => T U j - U j) / (1 - γ) := div_nonneg hmin h5.le
    linarith
  · have hup := fixed_le T γ hT hγ0.le hγ W hW V i
    have hlo := fixed_ge Tπ γ hπ hγ0.le hγ U hU V i
    rw [← hgreedy] at hup
    have hgap : W i - U i ≤ sp (fun j => Tπ V j - V j) / (1 - γ) := by
      unfold sp; rw [sub_div]; linarith
    have h2 : sp (fun j => Tπ V j - V j) / (1 - γ) < ε / γ := by
      rw [div_lt_iff₀ h5]
      have e : ε / γ * (1 - γ) = ε * (1 - γ) / γ := by ring
      rw [e]; exact htest
    linarith

/-- … under the max_diff test: < 2ε/γ -/
theorem pi_maxdiff_bound (T Tπ : (ι → α) → (ι → α)) (γ ε : α)
    (hT : MonoShift T γ) (hπ : MonoShift Tπ γ) (hγ0 : 0 < γ) (hγ : γ < 1)
    (hdom : ∀ u i, Tπ u i ≤ T u i)
    (V W U : ι → α) (hgreedy : Tπ V = T V) (hW : T W = W) (hU : Tπ U = U)
    (htest : vnorm (fun i => Tπ V i - V i) < ε * (1 - γ) / γ) (i : ι) :
    0 ≤ W i - U i ∧ W i - U i < 2 * ε / γ := by
  apply pi_span_bound T Tπ γ (2 * ε) hT hπ hγ0 hγ hdom V W U hgreedy hW hU
  have := sp_le_two_vnorm (fun i => Tπ V i - V i)
  have e : 2 * ε * (1 - γ) / γ = 2 * (ε * (1 - γ) / γ) := by ring
  rw [e]; linarith

/-- policy evaluation under max_diff: ‖Tπ V − V‖ < ε(1−γ)/γ ⇒ ‖V − U‖ < ε/γ for the policy's own value U -/
theorem eval_maxdiff_values (Tπ : (ι → α) → (ι → α)) (γ ε : α) (hπ : MonoShift Tπ γ) (hγ0 : 0 < γ) (hγ : γ < 1)
    (V U : ι → α) (hU : Tπ U = U)
    (htest : vnorm (fun i => Tπ V i - V i) < ε * (1 - γ) / γ) (i : ι) :
    |V i - U i| < ε / γ := by
  have h5 : 0 < 1 - γ := by linarith
  have hup := fixed_le Tπ γ hπ hγ0.le hγ U hU V i
  have hlo := fixed_ge Tπ γ hπ hγ0.le hγ U hU V i
  have h1 := vmax_le_vnorm (fun i => Tπ V i - V i)
  have h2 := neg_vnorm_le_vmin (fun i => Tπ V i - V i)
  have hkey : vnorm (fun i => Tπ V i - V i) / (1 - γ) < ε / γ := by
    rw [div_lt_iff₀ h5]
    have e : ε / γ * (1 - γ) = ε * (1 - γ) / γ := by ring
    rw [e]; exact htest
  have h3 := div_le_div_of_nonneg_right h1 h5.le
  have h4 := div_le_div_of_nonneg_right h2 h5.le
  have e2 : -vnorm (fun i => Tπ V i - V i) / (1 - γ) = -(vnorm (fun i => Tπ V i - V i) / (1 - γ)) := by ring
  rw [abs_lt]; constructor <;> linarith

end MdpaxV

namespace MdpaxV
variable {ι : Type} [Fintype ι] [Nonempty ι]
variable {α : Type} [Field α] [LinearOrder α] [IsStrictOrderedRing α]

/-! ### undiscounted (γ = 1) relative value iteration -/

theorem sp_add_const (f : ι → α) (c : α) : sp (fun i => f i + c) = sp f := by
  unfold sp
  have h1 : vmax (fun i => f i + c) = vmax f + c := by
    apply le_antisymm
    · exact vmax_le (fun i => by have := le_vmax f i; linarith)
    · obtain ⟨k, hk⟩ := exists_eq_vmax f
      have := le_vmax (fun i => f i + c) k; linarith
  have h2 : vmin (fun i => f i + c) = vmin f + c := by
    apply le_antisymm
    · obtain ⟨k, hk⟩ := exists_eq_vmin f
      have := vmin_le (fun i => f i + c) k; linarith
    · exact le_vmin (fun i => by have := vmin_le f i; linarith)
  rw [h1, h2]; ring

/-- successive differences stay inside the previous bracket: [min,max](T(TV) − TV) ⊆ [min,max](TV − V) -/
theorem diff_bracket_shrinks (T : (ι → α) → (ι → α)) (hT : MonoShift T 1) (V : ι → α) (i : ι) :
    vmin (fun j => T V j - V j) ≤ T (T V) i - T V i ∧ T (T V) i - T V i ≤ vmax (fun j => T V j - V j) := by
  have h1 := T_le_add_max T 1 hT (by norm_num) (T V) V i
  have h2 := T_ge_add_min T 1 hT (by norm_num) (T V) V i
  constructor <;> linarith

/-- gain of the greedy policy is bracketed from below by min(TV − V) and never exceeds the optimal gain -/
theorem greedy_gain_bracket (T Td : (ι → α) → (ι → α)) (hT : MonoShift T 1) (hd : MonoShift Td 1)
    (hdom : ∀ u i, Td u i ≤ T u i)
    (V : ι → α) (hgreedy : Td V = T V)
    (h : ι → α) (g : α) (hg : ∀ i, T h i = h i + g)
    (hdv : ι → α) (gd : α) (hgd : ∀ i, Td hdv i = hdv i + gd) :
    vmin (fun i => T V i - V i) ≤ gd ∧ gd ≤ g ∧ g ≤ vmax (fun i => T V i - V i) := by
  have b1 := bracket Td hd hdv gd hgd V
  rw [hgreedy] at b1
  have b2 := bracket T hT h g hg V
  have b3 := bracket T hT h g hg hdv
  refine ⟨b1.1, ?_, b2.2⟩
  have : gd ≤ vmin (fun i => T hdv i - hdv i) := le_vmin (fun i => by
    have := hdom hdv i; rw [hgd i] at this; linarith)
  linarith [b3.1]

/-- RVI at reported convergence.  `V` previous values with `gain = V last`, `V' = T V − gain`, `g' = V' last`,
    `sp(V' − V) < ε`.  Then for every solution (g, h) of the optimality equation `T h = h + g`:
    |g' − g| < ε; every component of `T V' − V'` is within ε of g' (optimality residual); and every
    gain `gd` of a policy greedy for `V'` satisfies 0 ≤ g − gd < ε. -/
theorem rvi_converged_bounds (T Td : (ι → α) → (ι → α)) (hT : MonoShift T 1) (hd : MonoShift Td 1)
    (hdom : ∀ u i, Td u i ≤ T u i) (ε : α)
    (V V' : ι → α) (gain : α) (last : ι) (hgain : gain = V last)
    (hV' : V' = fun i => T V i - gain)
    (htest : sp (fun i => V' i - V i) < ε)
    (hgreedy : Td V' = T V')
    (h : ι → α) (g : α) (hg : ∀ i, T h i = h i + g)
    (hdv : ι → α) (gd : α) (hgd : ∀ i, Td hdv i = hdv i + gd) :
    |V' last - g| < ε ∧ (∀ i, |T V' i - V' i - V' last| < ε) ∧ 0 ≤ g - gd ∧ g - gd < ε := by
  -- span of TV − V
  have hsp : sp (fun i => T V i - V i) < ε := by
    have : (fun i => V' i - V i) = fun i => (T V i - V i) + (-gain) := by funext i; rw [hV']; ring
    rw [this, sp_add_const] at htest; exact htest
  have hlast : V' last = T V last - V last := by rw [hV', hgain]
  have hlo := vmin_le (fun i => T V i - V i) last
  have hhi := le_vmax (fun i => T V i - V i) last
  have bg := bracket T hT h g hg V
  -- T V' − V' = T(TV) − TV
  have hTV' : ∀ i, T V' i - V' i = T (T V) i - T V i := by
    intro i
    have e : V' = fun j => T V j + (-gain) := by rw [hV']; funext j; ring
    have := hT.shift (T V) (-gain) i
    rw [e, this]; ring
  have hres : ∀ i, vmin (fun j => T V j - V j) ≤ T V' i - V' i ∧ T V' i - V' i ≤ vmax (fun j => T V j - V j) := by
    intro i; rw [hTV' i]; exact diff_bracket_shrinks T hT V i
  unfold sp at hsp
  refine ⟨?_, ?_, ?_, ?_⟩
  · rw [hlast, abs_lt]; constructor <;> linarith [bg.1, bg.2]
  · intro i
    have := hres i
    rw [hlast, abs_lt]; constructor <;> linarith
  · have := greedy_gain_bracket T Td hT hd hdom V' hgreedy h g hg hdv gd hgd
    linarith [this.2.1]
  · have b := greedy_gain_bracket T Td hT hd hdom V' hgreedy h g hg hdv gd hgd
    -- min(TV'−V') ≥ min(TV−V), max(TV'−V') ≤ max(TV−V)
    have h1 : vmin (fun j => T V j - V j) ≤ vmin (fun i => T V' i - V' i) := le_vmin (fun i => (hres i).1)
    have h2 : vmax (fun i => T V' i - V' i) ≤ vmax (fun j => T V j - V j) := vmax_le (fun i => (hres i).2)
    linarith [b.1, b.2.2]

/-- **relative value iteration stays bounded**: for any reference state `r`, the recursion `v_{n+1} = T v_n − v_n(r)` keeps
    every component within `sp(v_0 − h)` of `h − h(r) + g`, for every n (no growth with the number of iterations) -/
theorem rvi_bounded (T : (ι → α) → (ι → α)) (hT : MonoShift T 1) (h : ι → α) (g : α) (hg : ∀ i, T h i = h i + g) (r : ι)
    (v : Nat → ι → α) (hv : ∀ n i, v (n + 1) i = T (v n) i - v n r) (n : Nat) (i : ι) :
    |v (n + 1) i - (h i - h r + g)| ≤ sp (fun j => v 0 j - h j) := by
  have hsp : ∀ n, sp (fun j => v n j - h j) ≤ sp (fun j => v 0 j - h j) := by
    intro n
    induction n with
    | zero => exact le_refl _
    | succ n ih =>
      have e : (fun j => v (n + 1) j - h j) = fun j => (T (v n) j - T h j) + (g - v n r) := by
        funext j; rw [hv, hg]; ring
      rw [e, sp_add_const]
      have := sp_T_le T 1 hT (by norm_num) (v n) h
      rw [one_mul] at this
      exact le_trans this ih
  have hmax := T_le_add_max T 1 hT (by norm_num) (v n) h i
  have hmin := T_ge_add_min T 1 hT (by norm_num) (v n) h i
  rw [one_mul, hg] at hmax hmin
  have h1 := le_vmax (fun j => v n j - h j) r
  have h2 := vmin_le (fun j => v n j - h j) r
  have hs := hsp n
  unfold sp at hs ⊢
  rw [hv, abs_le]
  constructor <;> linarith

end MdpaxV
