/- Existence and uniqueness of the fixed points the C01 / C05 bounds quantify over, in *every* linearly ordered field
   (no completeness, no Banach): a policy's value solves a square linear system whose map is injective by the
   contraction argument, hence surjective (finite dimension); the optimal value is the value of a policy that
   maximises Σ_s V_π(s) over the finitely many deterministic policies (one Howard improvement step cannot
   increase it). -/
import MdpaxV.Theory.Op
import Mathlib.LinearAlgebra.FiniteDimensional.Basic
import Mathlib.LinearAlgebra.FiniteDimensional.Lemmas
import Mathlib.LinearAlgebra.Pi
import Mathlib.Algebra.BigOperators.Group.Finset.Basic
import Mathlib.Algebra.Order.BigOperators.Group.Finset

set_option linter.unusedSectionVars false
namespace MdpaxV
section
variable {ι : Type} [Fintype ι] [Nonempty ι]
variable {α : Type} [Field α] [LinearOrder α] [IsStrictOrderedRing α]

theorem vmax_const (c : α) : vmax (fun _ : ι => c) = c := by
  apply le_antisymm
  · exact vmax_le (fun _ => le_rfl)
  · exact le_vmax (fun _ : ι => c) (Classical.arbitrary ι)

theorem vmin_const (c : α) : vmin (fun _ : ι => c) = c := by
  apply le_antisymm
  · exact vmin_le (fun _ : ι => c) (Classical.arbitrary ι)
  · exact le_vmin (fun _ => le_rfl)

/-- a monotone γ-shift operator with γ < 1 has at most one fixed point -/
theorem fixed_unique (T : (ι → α) → (ι → α)) (γ : α) (h : MonoShift T γ) (hγ0 : 0 ≤ γ) (hγ : γ < 1)
    (W W' : ι → α) (hW : T W = W) (hW' : T W' = W') : W = W' := by
  funext i
  have h1 := fixed_le T γ h hγ0 hγ W hW W' i
  have h2 := fixed_ge T γ h hγ0 hγ W hW W' i
  rw [hW'] at h1 h2
  simp only [sub_self] at h1 h2
  rw [vmax_const, zero_div, add_zero] at h1
  rw [vmin_const, zero_div, add_zero] at h2
  exact le_antisymm h1 h2

/-- sub-solutions lie below the fixed point: `V ≤ T V` and `T W = W` give `V ≤ W` -/
theorem le_fixed_of_le_T (T : (ι → α) → (ι → α)) (γ : α) (h : MonoShift T γ) (hγ0 : 0 ≤ γ) (hγ : γ < 1)
    (W : ι → α) (hW : T W = W) (V : ι → α) (hV : ∀ j, V j ≤ T V j) (i : ι) : V i ≤ W i := by
  have h2 := fixed_ge T γ h hγ0 hγ W hW V i
  have hmin : 0 ≤ vmin (fun j => T V j - V j) := le_vmin (fun j => by have := hV j; linarith)
  have : 0 ≤ vmin (fun j => T V j - V j) / (1 - γ) := div_nonneg hmin (by linarith)
  linarith

/-- **existence for affine operators** (policy evaluation): if `v ↦ Tπ v − Tπ 0` is additive and homogeneous, the
    monotone γ-shift operator `Tπ` (γ < 1) has a fixed point — over any ordered field. -/
theorem affine_fixed_exists (Tπ : (ι → α) → (ι → α)) (γ : α) (h : MonoShift Tπ γ) (hγ0 : 0 ≤ γ) (hγ : γ < 1)
    (hadd : ∀ u v i, Tπ (u + v) i - Tπ 0 i = (Tπ u i - Tπ 0 i) + (Tπ v i - Tπ 0 i))
    (hsmul : ∀ (a : α) u i, Tπ (a • u) i - Tπ 0 i = a * (Tπ u i - Tπ 0 i)) : ∃ U, Tπ U = U := by
  classical
  -- the linear part, as an operator with the same monotone / shift structure
  let S : (ι → α) → (ι → α) := fun u i => Tπ u i - Tπ 0 i
  have hS : MonoShift S γ := by
    refine ⟨fun u w huw i => ?_, fun u c i => ?_⟩
    · have := h.mono u w huw i; simp only [S]; linarith
    · simp only [S]; rw [h.shift]; ring
  let L : (ι → α) →ₗ[α] (ι → α) :=
    { toFun := fun v => v - S v
      map_add' := fun u v => by
        funext i
        simp only [Pi.add_apply, Pi.sub_apply, S]
        rw [hadd u v i]; ring
      map_smul' := fun a v => by
        funext i
        simp only [Pi.smul_apply, Pi.sub_apply, smul_eq_mul, RingHom.id_apply, S]
        rw [hsmul a v i]; ring }
  have hinj : Function.Injective L := by
    rw [← LinearMap.ker_eq_bot, LinearMap.ker_eq_bot']
    intro v hv
    have hfix : S v = v := by
      funext i
      have := congrFun hv i
      simp only [L, LinearMap.coe_mk, AddHom.coe_mk, Pi.sub_apply, Pi.zero_apply] at this
      linarith
    have h0 : S 0 = 0 := by funext i; simp [S]
    exact fixed_unique S γ hS hγ0 hγ v 0 hfix h0
  have hsurj : Function.Surjective L := LinearMap.injective_iff_surjective.mp hinj
  obtain ⟨U, hU⟩ := hsurj (Tπ 0)
  refine ⟨U, ?_⟩
  funext i
  have := congrFun hU i
  simp only [L, LinearMap.coe_mk, AddHom.coe_mk, Pi.sub_apply, S] at this
  linarith

/-- **existence of the optimal fixed point** (Howard): `T` dominates finitely many operators `Tp k`, attains one of them
    at every vector, and each `Tp k` has a fixed point; then `T` has a fixed point, and it is the fixed point of one
    of the `Tp k`. -/
theorem optimal_fixed_exists {κ : Type} [Fintype κ] [Nonempty κ]
    (T : (ι → α) → (ι → α)) (Tp : κ → (ι → α) → (ι → α)) (γ : α)
    (hp : ∀ k, MonoShift (Tp k) γ) (hγ0 : 0 ≤ γ) (hγ : γ < 1)
    (hdom : ∀ k u i, Tp k u i ≤ T u i) (hgreedy : ∀ u, ∃ k, Tp k u = T u)
    (hex : ∀ k, ∃ U, Tp k U = U) : ∃ W, T W = W ∧ ∃ k, Tp k W = W := by
  classical
  choose U hU using hex
  obtain ⟨k, -, hk⟩ := Finset.exists_max_image (Finset.univ : Finset κ) (fun k => ∑ i, U k i) Finset.univ_nonempty
  obtain ⟨k', hk'⟩ := hgreedy (U k)
  -- improvement: U k ≤ T (U k) = Tp k' (U k), hence U k ≤ U k'
  have hle : ∀ i, U k i ≤ U k' i := fun i =>
    le_fixed_of_le_T (Tp k') γ (hp k') hγ0 hγ (U k') (hU k') (U k)
      (fun j => by rw [hk']; have := hdom k (U k) j; rw [hU k] at this; exact this) i
  have hsum : ∑ i, U k' i ≤ ∑ i, U k i := hk k' (Finset.mem_univ _)
  have heq : ∀ i, U k i = U k' i := by
    have := (Finset.sum_eq_sum_iff_of_le (s := Finset.univ) (fun i _ => hle i)).mp
      (le_antisymm (Finset.sum_le_sum (fun i _ => hle i)) hsum)
    exact fun i => this i (Finset.mem_univ i)
  have hUU : U k = U k' := funext heq
  refine ⟨U k, ?_, k, hU k⟩
  rw [← hk', hUU, hU k']

end
end MdpaxV
