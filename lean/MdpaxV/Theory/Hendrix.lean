/-
Helper lemmas for the Hendrix joint law (C13/C16): list sums as Finset sums, the triangle re-indexing of the convolution tables,
`pu` over the full range of unmet demand.  The property theorems are in Props/C13.lean and Props/C16.lean.
-/
import MdpaxV.Model.Probs
import Mathlib.Algebra.BigOperators.Group.List.Basic
import Mathlib.Data.Nat.Choose.Basic
import Mathlib.Algebra.BigOperators.Intervals
import Mathlib.Algebra.BigOperators.Ring.Finset
import Mathlib.Tactic.Ring
import Mathlib.Tactic.Linarith
set_option linter.unusedSectionVars false
namespace MdpaxV.Hendrix
open MdpaxV Finset
variable {α : Type} [Field α] [LinearOrder α] [IsStrictOrderedRing α]

theorem lsum_eq_sum (l : List α) : lsum l = l.sum := (List.sum_eq_foldl).symm

theorem choose_eq (n k : Nat) : MdpaxV.choose n k = Nat.choose n k := by
  induction n generalizing k with
  | zero => cases k <;> simp [MdpaxV.choose]
  | succ n ih => cases k <;> simp [MdpaxV.choose, Nat.choose, ih]

theorem lsum_range (g : Nat → α) (n : Nat) : lsum ((List.range n).map g) = ∑ i ∈ range n, g i := by
  rw [lsum_eq_sum]
  induction n with
  | zero => simp
  | succ n ih => rw [List.range_succ, List.map_append, List.sum_append, ih, Finset.sum_range_succ]; simp

/-- triangle sum: Σ_{z ≤ D} Σ_{k ≤ z} h k (z − k) = Σ_{u ≤ D} Σ_{a ≤ D − u} h a u -/
theorem tri_sum (h : Nat → Nat → α) (D : Nat) :
    ∑ z ∈ range (D + 1), ∑ k ∈ range (z + 1), h k (z - k) = ∑ u ∈ range (D + 1), ∑ a ∈ range (D - u + 1), h a u := by
  induction D with
  | zero => simp
  | succ D ih =>
    rw [Finset.sum_range_succ, ih, Finset.sum_range_succ (fun u => ∑ a ∈ range (D + 1 - u + 1), h a u)]
    have h1 : ∑ u ∈ range (D + 1), ∑ a ∈ range (D + 1 - u + 1), h a u
        = ∑ u ∈ range (D + 1), ∑ a ∈ range (D - u + 1), h a u + ∑ u ∈ range (D + 1), h (D + 1 - u) u := by
      rw [← Finset.sum_add_distrib]
      apply Finset.sum_congr rfl
      intro u hu
      have hu' : u ≤ D := by simp at hu; omega
      have : D + 1 - u + 1 = (D - u + 1) + 1 := by omega
      rw [this, Finset.sum_range_succ]
      congr 2; omega
    rw [h1]
    have h2 : ∑ k ∈ range (D + 1 + 1), h k (D + 1 - k) = ∑ u ∈ range (D + 1 + 1), h (D + 1 - u) u := by
      rw [← Finset.sum_range_reflect]
      apply Finset.sum_congr rfl
      intro j hj
      have hj' : j ≤ D + 1 := by simp at hj; omega
      have e1 : D + 1 + 1 - 1 - j = D + 1 - j := by omega
      have e2 : D + 1 - (D + 1 - j) = j := by omega
      rw [e1, e2]
    rw [h2, Finset.sum_range_succ (fun u => h (D + 1 - u) u)]
    simp only [Nat.sub_self, Finset.range_one, Finset.sum_singleton, zero_add]
    ring

theorem binomPmf_zero_of_lt (ρ : α) (n k : Nat) (h : n < k) : binomPmf ρ n k = 0 := by
  simp [binomPmf, choose_eq, Nat.choose_eq_zero_of_lt h]

/-- `pu` as a sum over the whole range of unmet demand (terms with fewer unmet units than `u` vanish) -/
theorem pu_full (t : HendrixTab α) (u y : Nat) :
    hendrixPu t u y = ∑ e ∈ range (t.D - y), t.pb (e + y) * binomPmf t.rho e u := by
  unfold hendrixPu
  split
  · rename_i hlt
    rw [lsum_range]
    have hN : t.D - y = u + (t.D - y - u) := by omega
    conv_rhs => rw [hN, Finset.sum_range_add]
    have : ∑ e ∈ range u, t.pb (e + y) * binomPmf t.rho e u = 0 := by
      apply Finset.sum_eq_zero
      intro e he
      rw [binomPmf_zero_of_lt _ _ _ (by simpa using he), mul_zero]
    rw [this, zero_add]
  · rename_i hge
    symm
    apply Finset.sum_eq_zero
    intro e he
    rw [binomPmf_zero_of_lt _ _ _ (by simp at he; omega), mul_zero]

/-- **re-indexing of the convolution tables**: any weighting of `pz[·, y]` over z ≤ D is the same weighting of the triple sum over
    unmet demand e, substitution demand u ≤ e and own demand d_A ≤ D − u -/
theorem pz_sum (t : HendrixTab α) (y : Nat) (f : Nat → α) :
    ∑ z ∈ range (t.D + 1), f z * hendrixPz t z y =
      ∑ e ∈ range (t.D - y), ∑ u ∈ range (e + 1), ∑ dA ∈ range (t.D - u + 1),
        f (dA + u) * (t.pa dA * t.pb (e + y) * binomPmf t.rho e u) := by
  set H : Nat → Nat → Nat → α := fun e k w => f (k + w) * (t.pa k * t.pb (e + y) * binomPmf t.rho e w) with hH
  have hL : ∑ z ∈ range (t.D + 1), f z * hendrixPz t z y
      = ∑ z ∈ range (t.D + 1), ∑ k ∈ range (z + 1), (fun k w => ∑ e ∈ range (t.D - y), H e k w) k (z - k) := by
    apply Finset.sum_congr rfl
    intro z _
    unfold hendrixPz
    rw [lsum_range, Finset.mul_sum]
    apply Finset.sum_congr rfl
    intro k hk
    have hkz : k ≤ z := by simp at hk; omega
    rw [pu_full, Finset.mul_sum, Finset.mul_sum]
    apply Finset.sum_congr rfl
    intro e _
    simp only [hH, Nat.add_sub_cancel' hkz]
    ring
  rw [hL, tri_sum (fun k w => ∑ e ∈ range (t.D - y), H e k w) t.D]
  show _ = ∑ e ∈ range (t.D - y), ∑ u ∈ range (e + 1), ∑ dA ∈ range (t.D - u + 1), H e dA u
  have hR : ∀ e ∈ range (t.D - y), ∑ u ∈ range (e + 1), ∑ dA ∈ range (t.D - u + 1), H e dA u
      = ∑ u ∈ range (t.D + 1), ∑ dA ∈ range (t.D - u + 1), H e dA u := by
    intro e he
    have heD : e + 1 ≤ t.D + 1 := by simp at he; omega
    obtain ⟨r, hr⟩ := Nat.exists_eq_add_of_le heD
    conv_rhs => rw [hr, Finset.sum_range_add]
    have : ∑ x ∈ range r, ∑ dA ∈ range (t.D - (e + 1 + x) + 1), H e dA (e + 1 + x) = 0 := by
      apply Finset.sum_eq_zero
      intro x _
      apply Finset.sum_eq_zero
      intro dA _
      simp only [hH]
      rw [binomPmf_zero_of_lt _ _ _ (by omega), mul_zero, mul_zero]
    rw [this, add_zero]
  rw [Finset.sum_congr rfl hR, Finset.sum_comm]
  apply Finset.sum_congr rfl
  intro u _
  rw [Finset.sum_comm]

theorem sum_range_ite_lt (g : Nat → α) (n x : Nat) (hx : x ≤ n) :
    ∑ i ∈ range n, (if i < x then g i else 0) = ∑ i ∈ range x, g i := by
  obtain ⟨r, rfl⟩ := Nat.exists_eq_add_of_le hx
  rw [Finset.sum_range_add]
  have h1 : ∑ i ∈ range x, (if i < x then g i else 0) = ∑ i ∈ range x, g i := by
    apply Finset.sum_congr rfl; intro i hi; simp at hi; simp [hi]
  have h2 : ∑ i ∈ range r, (if x + i < x then g (x + i) else 0) = 0 := by
    apply Finset.sum_eq_zero; intro i _; simp
  rw [h1, h2, add_zero]

theorem sum_range_ite_eq (v : α) (n x : Nat) (hx : x < n) :
    ∑ i ∈ range n, (if i = x then v else 0) = v := by
  rw [Finset.sum_eq_single x]
  · simp
  · intro b _ hb; simp [hb]
  · intro h; exfalso; apply h; simp [hx]


end MdpaxV.Hendrix
