/- The tie by translation, configuration: the definitions generated from /repo's Python source (MdpaxV/Gen/Config.lean, rewritten by
   harness/translate.py on every run of C20) equal the hand-written model for ALL inputs. -/
import MdpaxV.Gen.Config
import MdpaxV.Model.Config
import MdpaxV.Model.Solvers
import Mathlib.Tactic.Ring
import Mathlib.Tactic.IntervalCases
import Mathlib.Tactic.Linarith
import Mathlib.Tactic.NormNum
import Mathlib.Algebra.Order.Ring.Int
import Mathlib.Algebra.Order.Ring.Rat
import Mathlib.Algebra.Order.Field.Basic

namespace MdpaxV.GenTie
open MdpaxV

/-- **`get_convergence_format` as written in /repo = the model's `decimalPlaces`**, for every ⌊log10 ε⌋ and `max_decimals` -/
theorem decimalPlaces_eq_model (e : Int) (m : Nat) : Gen.decimalPlaces e (m : Int) = MdpaxV.decimalPlaces e m := by
  simp only [Gen.decimalPlaces, MdpaxV.decimalPlaces]

/-- **the five solver-configuration validators as written in /repo = the model's `validateSolver`**: same checks, same order,
    same exception classes, for every configuration -/
theorem validate_vi_eq (c : SolverCfg) : Gen.validate_vi c = validateSolver .vi c := by
  simp only [Gen.validate_vi, validateSolver, checkCommon, bind_assoc]
theorem validate_pi_eq (c : SolverCfg) : Gen.validate_pi c = validateSolver .pi c := by
  simp only [Gen.validate_pi, validateSolver, checkCommon, bind_assoc]
theorem validate_rvi_eq (c : SolverCfg) : Gen.validate_rvi c = validateSolver .rvi c := by
  simp only [Gen.validate_rvi, validateSolver, checkCommon, bind_assoc, ne_eq]
theorem validate_periodic_eq (c : SolverCfg) : Gen.validate_periodic c = validateSolver .periodic c := by
  simp only [Gen.validate_periodic, validateSolver, checkCommon, bind_assoc]
theorem validate_semi_eq (c : SolverCfg) : Gen.validate_semi c = validateSolver .semi c := by
  simp only [Gen.validate_semi, validateSolver, checkCommon, bind_assoc]

/-- **the four problem-configuration validators as written in /repo = the model's** -/
theorem pvalidate_forest_eq (c : ForestCfgV) : Gen.pvalidate_Forest c = validateForest c := rfl
theorem pvalidate_demoor_eq (c : DeMoorCfgV) : Gen.pvalidate_DeMoor c = validateDeMoor c := rfl
theorem pvalidate_hendrix_eq (c : HendrixCfgV) : Gen.pvalidate_Hendrix c = validateHendrix c := rfl
theorem pvalidate_mirjalili_eq (c : MirjaliliCfgV) : Gen.pvalidate_Mirjalili c = validateMirjalili c := rfl

/-- **`verbosity_to_loguru_level` as written in /repo = the model's `loguruLevel`**, for every argument -/
theorem loguruLevel_eq (isInt : Bool) (v : Int) : Gen.loguruLevel isInt v = MdpaxV.loguruLevel isInt v := by
  unfold Gen.loguruLevel MdpaxV.loguruLevel
  cases isInt
  · rfl
  · by_cases h : v < 0 ∨ v > 4
    · simp [h]
    · have h0 : 0 ≤ v := by omega
      have h4 : v ≤ 4 := by omega
      simp only [Bool.not_true, Bool.false_eq_true, if_false, if_neg h]
      interval_cases v <;> simp [levelName]

/-- **the convergence thresholds as written in /repo = the model's**: the span and the max_diff entry of
    `ValueIteration._setup_convergence_testing` (inherited unchanged by policy iteration and semi-asynchronous value iteration —
    the translator checks that neither overrides it) are the same function, and on 0 ≤ γ ≤ 1 it is the model loop's `threshold` -/
theorem threshold_code_eq (γ ε : Rat) (h0 : 0 ≤ γ) (h1 : γ ≤ 1) :
    threshold γ ε = some (Gen.thresholdSpan ε γ) ∧ Gen.thresholdMaxDiff ε γ = Gen.thresholdSpan ε γ := by
  refine ⟨?_, rfl⟩
  unfold threshold Gen.thresholdSpan
  by_cases e1 : γ = 1
  · subst e1; simp
  · by_cases e0 : γ = 0
    · subst e0; simp
    · have : 0 < γ ∧ γ < 1 := ⟨lt_of_le_of_ne h0 (Ne.symm e0), lt_of_le_of_ne h1 e1⟩
      simp [e1, e0, this]

/-- … and the configuration-level `thresholdOf` (all five solver classes) -/
theorem thresholdOf_code_eq (k : SolverKind) (c : SolverCfg) :
    thresholdOf k c = match k with
      | .vi | .pi | .semi => Gen.thresholdSpan c.eps c.gamma
      | .rvi => Gen.threshold_rvi c.eps c.gamma
      | .periodic => Gen.threshold_periodic c.eps c.gamma := by
  cases k <;> simp [thresholdOf, Gen.thresholdSpan, Gen.threshold_rvi, Gen.threshold_periodic]

end MdpaxV.GenTie
