/- Bridge between the executable list model and the abstract operator theory:
   the operators on `Fin nS → α` are *defined from* the executable `backup` / `qval`. -/
import MdpaxV.Theory.Backup
import MdpaxV.Theory.Op
import MdpaxV.Props.C02
import Mathlib.Data.List.OfFn
set_option linter.unusedSectionVars false
namespace MdpaxV
variable {α : Type} [Field α] [LinearOrder α] [IsStrictOrderedRing α]

/-- a value list read as a function on state numbers -/
def toFn (n : Nat) (l : List α) : Fin n → α := fun i => l.getD i.val 0

theorem ofFn_toFn (n : Nat) (l : List α) (h : l.length = n) : List.ofFn (toFn n l) = l := by
  apply List.ext_getElem
  · simp [h]
  · intro i h1 h2
    simp [toFn, List.getD_eq_getElem?_getD, List.getElem?_eq_getElem h2]

theorem toFn_ofFn (n : Nat) (v : Fin n → α) : toFn n (List.ofFn v) = v := by
  funext i
  simp [toFn, List.getD_eq_getElem?_getD]

theorem look_ofFn (n : Nat) (hn : 0 < n) (v : Fin n → α) (j : Int) :
    look (List.ofFn v) j = v ⟨clampIdx n j, clampIdx_lt n hn j⟩ := by
  rw [look_eq_getElem _ (by simpa using hn)]
  simp

/-- Bellman optimality operator on `Fin nS → α`, defined from the executable `backup` -/
def Top (P : Problem α) (γ : α) (v : Fin P.nS → α) : Fin P.nS → α :=
  fun i => backup P γ (look (List.ofFn v)) i.val

/-- evaluation operator of a policy (action index per state), defined from the executable `qval` -/
def Tpol (P : Problem α) (γ : α) (pol : Fin P.nS → Nat) (v : Fin P.nS → α) : Fin P.nS → α :=
  fun i => qval P γ (look (List.ofFn v)) i.val (pol i)

theorem map_range_eq_ofFn {β : Type} (n : Nat) (f : Nat → β) : (List.range n).map f = List.ofFn (fun i : Fin n => f i.val) := by
  apply List.ext_getElem
  · simp
  · intro i h1 h2; simp

/-- the model's sweep on a list *is* `Top` -/
theorem sweep_eq_Top (P : Problem α) (c : BatchCfg) (h : C02.Valid P c) (γ : α) (v : Fin P.nS → α) (padv : α) :
    sweep P c γ (List.ofFn v) padv = List.ofFn (Top P γ v) := by
  rw [C02.sweep_eq_map_backup P c h, map_range_eq_ofFn]; rfl

theorem sweep_list_eq_Top (P : Problem α) (c : BatchCfg) (h : C02.Valid P c) (γ : α) (V : List α) (hV : V.length = P.nS) (padv : α) :
    sweep P c γ V padv = List.ofFn (Top P γ (toFn P.nS V)) := by
  rw [← sweep_eq_Top P c h γ (toFn P.nS V) padv, ofFn_toFn _ _ hV]

theorem Top_monoShift (P : Problem α) (γ : α) (hγ : 0 ≤ γ) (hst : Stoch P) (hS : 0 < P.nS) (hA : 0 < P.nA) :
    MonoShift (Top P γ) γ := by
  refine ⟨fun u w huw i => ?_, fun u c i => ?_⟩
  · apply backup_mono P γ hγ i.val (fun a e ha he => hst.1 i.val a e i.isLt ha he)
    intro j; rw [look_ofFn _ hS, look_ofFn _ hS]; exact huw _
  · unfold Top
    have : look (List.ofFn fun j => u j + c) = fun j => look (List.ofFn u) j + c := by
      funext j; rw [look_ofFn _ hS, look_ofFn _ hS]
    rw [this]
    exact backup_shift P γ i.val hA (fun a ha => hst.2 i.val a i.isLt ha) _ c

theorem Tpol_monoShift (P : Problem α) (γ : α) (hγ : 0 ≤ γ) (hst : Stoch P) (hS : 0 < P.nS)
    (pol : Fin P.nS → Nat) (hpol : ∀ i, pol i < P.nA) : MonoShift (Tpol P γ pol) γ := by
  refine ⟨fun u w huw i => ?_, fun u c i => ?_⟩
  · apply qval_mono P γ hγ i.val (pol i) (fun e he => hst.1 i.val (pol i) e i.isLt (hpol i) he)
    intro j; rw [look_ofFn _ hS, look_ofFn _ hS]; exact huw _
  · unfold Tpol
    have : look (List.ofFn fun j => u j + c) = fun j => look (List.ofFn u) j + c := by
      funext j; rw [look_ofFn _ hS, look_ofFn _ hS]
    rw [this]
    exact qval_shift P γ i.val (pol i) (hst.2 i.val (pol i) i.isLt (hpol i)) _ c

theorem Tpol_le_Top (P : Problem α) (γ : α) (hA : 0 < P.nA) (pol : Fin P.nS → Nat) (hpol : ∀ i, pol i < P.nA)
    (u : Fin P.nS → α) (i : Fin P.nS) : Tpol P γ pol u i ≤ Top P γ u i :=
  (C02.backup_is_max P γ _ i.val hA).1 (pol i) (hpol i)

/-- a policy that is greedy for `V` (the first maximiser, as extracted by the model) attains `Top` at `V` -/
theorem Tpol_greedy (P : Problem α) (γ : α) (hA : 0 < P.nA) (V : Fin P.nS → α) (pol : Fin P.nS → Nat)
    (hg : ∀ i, pol i = greedyIdx P γ (look (List.ofFn V)) i.val) : Tpol P γ pol V = Top P γ V := by
  funext i
  unfold Tpol Top
  rw [hg i]
  exact (C02.policy_attains P γ _ i.val hA).2.1

/-! ### list measures = abstract measures -/

theorem maxList_eq_vmax (n : Nat) [Nonempty (Fin n)] (l : List α) (h : l.length = n) :
    maxList l = vmax (toFn n l) := by
  have hn : 0 < n := Fin.pos (Classical.arbitrary (Fin n))
  have hne : l ≠ [] := by intro e; rw [e] at h; simp at h; omega
  apply le_antisymm
  · obtain ⟨k, hk, he⟩ := List.getElem_of_mem (maxList_mem l hne)
    have := le_vmax (toFn n l) ⟨k, by omega⟩
    simpa [toFn, List.getD_eq_getElem?_getD, List.getElem?_eq_getElem hk, he] using this
  · apply vmax_le
    intro i
    have hi : i.val < l.length := by rw [h]; exact i.isLt
    have : toFn n l i = l[i.val] := by simp [toFn, List.getD_eq_getElem?_getD, List.getElem?_eq_getElem hi]
    rw [this]
    exact le_maxList_of_mem l _ (List.getElem_mem hi)

end MdpaxV

namespace MdpaxV
variable {α : Type} [Field α] [LinearOrder α] [IsStrictOrderedRing α]

theorem minL_le_init (x : α) (xs : List α) : minL x xs ≤ x := by
  induction xs generalizing x with
  | nil => simp [minL]
  | cons y ys ih => simp only [minL]; exact le_trans (ih _) (min_le_left x y)

theorem minL_le_of_mem (x : α) (xs : List α) (y : α) (hy : y ∈ xs) : minL x xs ≤ y := by
  induction xs generalizing x with
  | nil => simp at hy
  | cons z zs ih =>
    simp only [minL]
    rcases List.mem_cons.mp hy with rfl | h
    · exact le_trans (minL_le_init _ _) (min_le_right x y)
    · exact ih _ h

theorem minL_mem (x : α) (xs : List α) : minL x xs = x ∨ minL x xs ∈ xs := by
  induction xs generalizing x with
  | nil => simp [minL]
  | cons y ys ih =>
    simp only [minL]
    rcases ih (min x y) with h | h
    · rcases min_choice x y with h' | h'
      · left; rw [h, h']
      · right; rw [h, h']; simp
    · right; simp [h]

theorem minList_le_of_mem (xs : List α) (y : α) (hy : y ∈ xs) : minList xs ≤ y := by
  cases xs with
  | nil => simp at hy
  | cons x xs =>
    simp only [minList]
    rcases List.mem_cons.mp hy with rfl | h
    · exact minL_le_init _ _
    · exact minL_le_of_mem _ _ _ h

theorem minList_mem (xs : List α) (h : xs ≠ []) : minList xs ∈ xs := by
  cases xs with
  | nil => exact absurd rfl h
  | cons x xs =>
    simp only [minList]
    rcases minL_mem x xs with h' | h'
    · rw [h']; simp
    · simp [h']

theorem minList_eq_vmin (n : Nat) [Nonempty (Fin n)] (l : List α) (h : l.length = n) :
    minList l = vmin (toFn n l) := by
  have hn : 0 < n := Fin.pos (Classical.arbitrary (Fin n))
  have hne : l ≠ [] := by intro e; rw [e] at h; simp at h; omega
  apply le_antisymm
  · apply le_vmin
    intro i
    have hi : i.val < l.length := by rw [h]; exact i.isLt
    have : toFn n l i = l[i.val] := by simp [toFn, List.getD_eq_getElem?_getD, List.getElem?_eq_getElem hi]
    rw [this]
    exact minList_le_of_mem l _ (List.getElem_mem hi)
  · obtain ⟨k, hk, he⟩ := List.getElem_of_mem (minList_mem l hne)
    have := vmin_le (toFn n l) ⟨k, by omega⟩
    simpa [toFn, List.getD_eq_getElem?_getD, List.getElem?_eq_getElem hk, he] using this

theorem vsub_length (a b : List α) (h : a.length = b.length) : (vsub a b).length = a.length := by
  induction a generalizing b with
  | nil => cases b <;> simp [vsub]
  | cons x xs ih =>
    cases b with
    | nil => simp at h
    | cons y ys => simp [vsub, ih ys (by simpa using h)]

theorem vsub_getD (a b : List α) (h : a.length = b.length) (i : Nat) (hi : i < a.length) :
    (vsub a b).getD i 0 = a.getD i 0 - b.getD i 0 := by
  induction a generalizing b i with
  | nil => simp at hi
  | cons x xs ih =>
    cases b with
    | nil => simp at h
    | cons y ys =>
      cases i with
      | zero => simp [vsub]
      | succ i =>
        have := ih ys (by simpa using h) i (by simpa using hi)
        simpa [vsub] using this

theorem toFn_vsub (n : Nat) (a b : List α) (ha : a.length = n) (hb : b.length = n) :
    toFn n (vsub a b) = fun i => toFn n a i - toFn n b i := by
  funext i
  exact vsub_getD a b (by omega) i.val (by rw [ha]; exact i.isLt)

/-- `_get_span` on lists is the abstract span -/
theorem spanOf_eq_sp (n : Nat) [Nonempty (Fin n)] (a b : List α) (ha : a.length = n) (hb : b.length = n) :
    spanOf a b = sp (fun i => toFn n a i - toFn n b i) := by
  have hl : (vsub a b).length = n := by rw [vsub_length a b (by omega), ha]
  unfold spanOf sp
  rw [maxList_eq_vmax n _ hl, minList_eq_vmin n _ hl, toFn_vsub n a b ha hb]

theorem absv_eq_abs (x : α) : absv x = |x| := by
  unfold absv
  split
  · rw [abs_of_neg ‹_›]
  · rw [abs_of_nonneg (not_lt.mp ‹_›)]

/-- `_get_max_diff` on lists is the abstract sup norm -/
theorem maxDiff_eq_vnorm (n : Nat) [Nonempty (Fin n)] (a b : List α) (ha : a.length = n) (hb : b.length = n) :
    maxDiff a b = vnorm (fun i => toFn n a i - toFn n b i) := by
  have hl : (vsub a b).length = n := by rw [vsub_length a b (by omega), ha]
  unfold maxDiff vnorm
  rw [maxList_eq_vmax n _ (by simpa using hl)]
  congr 1
  funext i
  have := congrFun (toFn_vsub n a b ha hb) i
  simp only [toFn] at this ⊢
  rw [← this]
  have hi : i.val < (vsub a b).length := by rw [hl]; exact i.isLt
  simp [List.getD_eq_getElem?_getD, List.getElem?_eq_getElem hi, absv_eq_abs]

/-- well-formed state index: `state_to_index(state_i) = i` -/
def IdxWF (P : Problem α) : Prop := ∀ s, s < P.nS → P.sidx s = (s : Int)

theorem clampIdx_cast (n s : Nat) (h : s < n) : clampIdx n (s : Int) = s := by
  unfold clampIdx; simp only []
  split <;> split <;> (try split) <;> omega

end MdpaxV
