/- Theory of the semi-asynchronous sweep model (C06): padding collisions never matter; prepared layouts are PadTail. -/
import MdpaxV.Model.SemiAsync
import MdpaxV.Theory.Batch
import MdpaxV.Props.C18
set_option linter.unusedSectionVars false
namespace MdpaxV
variable {α : Type} [Add α] [Mul α] [Zero α] [Max α]

/-- specification carry update: real rows only — no padding semantics, no collision resolution -/
def specScatter (P : Problem α) (W : List α) (b : List (Option Nat)) (out : List α) : List α :=
  W.mapIdx fun i w =>
    match (b.zip out).find? (fun p => p.1.isSome && scatterPos W.length (slotTarget P p.1) == some i) with
    | none => w
    | some p => p.2

/-- specification device run (block Gauss–Seidel over the batches of one device) -/
def specRun (P : Problem α) (γ : α) (padv : α) : List α → List (List (Option Nat)) → List (List α)
  | _, [] => []
  | W, b :: bs =>
    let out := b.map (onSlot (backup P γ (look W)) padv)
    out :: specRun P γ padv (specScatter P W b out) bs

/-- real slots precede padding slots: once a batch contains padding, all later batches are all padding -/
def PadTail : List (List (Option Nat)) → Prop
  | [] => True
  | b :: bs => (none ∈ b → ∀ b' ∈ bs, ∀ s ∈ b', s = none) ∧ PadTail bs

theorem scatter_eq_spec_of_noPad (P : Problem α) (choose : Nat → Bool) (W : List α) (b : List (Option Nat)) (out : List α)
    (h : none ∉ b) : scatter P choose W b out = specScatter P W b out := by
  unfold scatter specScatter
  congr 1; funext i w
  have : b.any (fun s => s.isNone && scatterPos W.length P.zidx == some i) = false := by
    rw [List.any_eq_false]
    intro s hs
    cases s with
    | none => exact absurd hs h
    | some s => simp [Option.isNone]
  simp only [this]
  cases (b.zip out).find? (fun p => p.1.isSome && scatterPos W.length (slotTarget P p.1) == some i) with
  | none => rfl
  | some p => simp

theorem deviceRun_allPad (P : Problem α) (γ : α) (choose : Nat → Bool) (padv : α) (W : List α) (bs : List (List (Option Nat)))
    (h : ∀ b' ∈ bs, ∀ s ∈ b', s = none) : deviceRun P γ choose padv W bs = bs.map (fun b => b.map fun _ => padv) := by
  induction bs generalizing W with
  | nil => rfl
  | cons b bs ih =>
    simp only [deviceRun, List.map_cons]
    congr 1
    · apply List.map_congr_left
      intro s hs
      rw [h b (by simp) s hs]; rfl
    · exact ih _ (fun b' hb' => h b' (by simp [hb']))

theorem specRun_allPad (P : Problem α) (γ : α) (padv : α) (W : List α) (bs : List (List (Option Nat)))
    (h : ∀ b' ∈ bs, ∀ s ∈ b', s = none) : specRun P γ padv W bs = bs.map (fun b => b.map fun _ => padv) := by
  induction bs generalizing W with
  | nil => rfl
  | cons b bs ih =>
    simp only [specRun, List.map_cons]
    congr 1
    · apply List.map_congr_left
      intro s hs
      rw [h b (by simp) s hs]; rfl
    · exact ih _ (fun b' hb' => h b' (by simp [hb']))

/-- **padding collisions never matter**: on a PadTail layout the device scan equals the padding-free specification
    for every resolution `choose` of duplicate scatter targets (and wherever the zero vector's index points) -/
theorem deviceRun_eq_specRun (P : Problem α) (γ : α) (choose : Nat → Bool) (padv : α) (W : List α)
    (bs : List (List (Option Nat))) (hpt : PadTail bs) :
    deviceRun P γ choose padv W bs = specRun P γ padv W bs := by
  induction bs generalizing W with
  | nil => rfl
  | cons b bs ih =>
    obtain ⟨hb, htail⟩ := hpt
    simp only [deviceRun, specRun]
    congr 1
    by_cases hpad : none ∈ b
    · rw [deviceRun_allPad P γ choose padv _ bs (hb hpad), specRun_allPad P γ padv _ bs (hb hpad)]
    · rw [scatter_eq_spec_of_noPad P choose W b _ hpad]
      exact ih _ htail

/-! ### prepared layouts are PadTail -/

/-- padding only at the end -/
def NoneTail {β : Type} (l : List (Option β)) : Prop := ∀ l1 l2, l = l1 ++ l2 → none ∈ l1 → ∀ x ∈ l2, x = none

theorem noneTail_somes_nones {β : Type} (xs : List β) (k : Nat) : NoneTail (xs.map some ++ List.replicate k none) := by
  intro l1 l2 h hn x hx
  -- position argument via `List.append_eq_append_iff`
  rcases List.append_eq_append_iff.mp h with ⟨a, h1, h2⟩ | ⟨a, h1, h2⟩
  · -- l1 = xs.map some ++ a, replicate = a ++ l2
    have : x ∈ List.replicate k (none : Option β) := by rw [h2]; simp [hx]
    exact (List.mem_replicate.mp this).2
  · -- xs.map some = l1 ++ a : then none ∈ l1 ⊆ xs.map some, impossible
    have : (none : Option β) ∈ xs.map some := by rw [h1]; simp [hn]
    simp at this

theorem NoneTail.segment {β : Type} {A seg B : List (Option β)} (h : NoneTail (A ++ seg ++ B)) : NoneTail seg := by
  intro s1 s2 hs hn x hx
  apply h (A ++ s1) (s2 ++ B) (by rw [hs]; simp) (by simp [hn]) x (by simp [hx])

theorem padTail_of_noneTail (d : List (List (Option Nat))) (h : NoneTail d.flatten) : PadTail d := by
  induction d with
  | nil => trivial
  | cons b bs ih =>
    refine ⟨?_, ih ?_⟩
    · intro hn b' hb' s hs
      exact h b bs.flatten (by simp) hn s (List.mem_flatten.mpr ⟨b', hb', hs⟩)
    · have : NoneTail ([] ++ bs.flatten ++ []) → NoneTail bs.flatten := fun x => by simpa using x
      have h2 : (b :: bs).flatten = b ++ bs.flatten ++ [] := by simp
      rw [h2] at h
      exact NoneTail.segment h

/-- every device of a prepared layout (states in any order, padded with `none`) is PadTail -/
theorem prepare_padTail (c : BatchCfg) (hv : C18.Valid c) (order : List Nat) :
    ∀ d ∈ prepare c none (order.map some), PadTail d := by
  intro d hd
  apply padTail_of_noneTail
  have hflat := C18.prepare_layout c hv (none : Option Nat) (order.map some)
  obtain ⟨s, t, hst⟩ := List.append_of_mem hd
  have : (prepare c none (order.map some)).flatten.flatten = s.flatten.flatten ++ d.flatten ++ t.flatten.flatten := by
    rw [hst]; simp
  have hnt := noneTail_somes_nones order (npad c).toNat
  rw [← hflat, this] at hnt
  exact NoneTail.segment hnt

end MdpaxV
