/- Helper lemmas about the batching model (C18, reused by C02/C03/C05). -/
import MdpaxV.Model.Batch
import Mathlib.Tactic.Linarith
import Mathlib.Tactic.Ring

namespace MdpaxV

theorem ceil_mul_ge (a b : Nat) (hb : 0 < b) : a ≤ (a + b - 1) / b * b := by
  have h1 := Nat.div_add_mod (a + b - 1) b
  have h2 := Nat.mod_lt (a + b - 1) hb
  have : b * ((a + b - 1) / b) = (a + b - 1) / b * b := Nat.mul_comm _ _
  omega

theorem bsz_pos (c : BatchCfg) (hn : 0 < c.n) (hm : 0 < c.maxbs) : 0 < bsz c := by
  unfold bsz; split <;> omega

theorem bsz_le (c : BatchCfg) : bsz c ≤ c.maxbs := by
  unfold bsz; split <;> omega

theorem nb_pos (c : BatchCfg) (hn : 0 < c.n) (hm : 0 < c.maxbs) (hd : 0 < c.dev) : 0 < nb c := by
  have hb := bsz_pos c hn hm
  unfold nb; split
  · omega
  · rename_i h
    have : bsz c ≤ spd c + bsz c - 1 := by omega
    exact Nat.div_pos this hb

theorem slots_ge (c : BatchCfg) (hn : 0 < c.n) (hm : 0 < c.maxbs) (hd : 0 < c.dev) : c.n ≤ slots c := by
  have hb := bsz_pos c hn hm
  have h1 : c.n ≤ spd c * c.dev := ceil_mul_ge c.n c.dev hd
  have h2 : spd c ≤ nb c * bsz c := by
    unfold nb; split
    · simpa using ‹spd c ≤ bsz c›
    · exact ceil_mul_ge _ _ hb
  calc c.n ≤ spd c * c.dev := h1
    _ ≤ (nb c * bsz c) * c.dev := Nat.mul_le_mul_right _ h2
    _ = slots c := by unfold slots; ring

theorem npad_nonneg (c : BatchCfg) (hn : 0 < c.n) (hm : 0 < c.maxbs) (hd : 0 < c.dev) : 0 ≤ npad c := by
  have := slots_ge c hn hm hd; unfold npad; omega

theorem flatten_chunks {β : Type} (k : Nat) (hk : 0 < k) (xs : List β) : (chunks k xs).flatten = xs := by
  induction xs using chunks.induct k with
  | case1 xs h =>
    rw [chunks, dif_pos h]
    rcases h with h | h
    · omega
    · simp [h]
  | case2 xs h ih =>
    rw [chunks, dif_neg h]
    simp [ih]

/-- a list of length `m*k` splits into exactly `m` chunks, each of length `k` -/
theorem chunks_shape {β : Type} (k : Nat) (hk : 0 < k) (m : Nat) (xs : List β) (h : xs.length = m * k) :
    (chunks k xs).length = m ∧ ∀ b ∈ chunks k xs, b.length = k := by
  induction m generalizing xs with
  | zero =>
    have : xs = [] := by apply List.eq_nil_of_length_eq_zero; simpa using h
    subst this; rw [chunks, dif_pos (Or.inr rfl)]; simp
  | succ m ih =>
    have hne : ¬ (k = 0 ∨ xs = []) := by
      rintro (h0 | h0)
      · omega
      · subst h0; simp at h; rcases h with h | h <;> omega
    rw [chunks, dif_neg hne]
    have hlen : (xs.drop k).length = m * k := by
      simp only [List.length_drop, h]; rw [Nat.succ_mul]; omega
    obtain ⟨h1, h2⟩ := ih (xs.drop k) hlen
    refine ⟨by simp [h1], ?_⟩
    intro b hb
    simp only [List.mem_cons] at hb
    rcases hb with rfl | hb
    · simp only [List.length_take, h]; rw [Nat.succ_mul]; omega
    · exact h2 b hb

theorem flatten_map_map {β γ : Type} (f : β → γ) (r : List (List β)) :
    (r.map (List.map f)).flatten = r.flatten.map f := by
  induction r with
  | nil => rfl
  | cons x xs ih => simp only [List.map_cons, List.flatten_cons, List.map_append, ih]

theorem flatten_map3 {β γ : Type} (f : β → γ) (r : List (List (List β))) :
    (map3 f r).flatten.flatten = r.flatten.flatten.map f := by
  unfold map3
  rw [flatten_map_map (List.map f) r, flatten_map_map]

end MdpaxV
