/- Helper lemmas about the batching model (C18, reused by C02/C03/C05). -/
import MdpaxV.Model.Batch
import Mathlib.Tactic.Linarith
import Mathlib.Tactic.Ring

namespace MdpaxV

theorem ceil_mul_ge (a b : Nat) (hb : 0 < b) : a ≤ (a + b - 1) / b * b := by
  have h1 := Nat.div_add_mod (a + b - 1) b
  have h2 := Nat.mod_lt (a + b - 1) hb
  have : b * ((a + b - 1) / b) = (a + b - 1) / b * b := Nat.mul_comm _ _
  omega

theorem bsz_pos (c : BatchCfg) (hn : 0 < c.n) (hm : 0 < c.maxbs) : 0 < bsz c := by
  unfold bsz; split <;> omega

theorem bsz_le (c : BatchCfg) : bsz c ≤ c.maxbs := by
  unfold bsz; split <;> omega

theorem nb_pos (c : BatchCfg) (hn : 0 < c.n) (hm : 0 < c.maxbs) (hd : 0 < c.dev) : 0 < nb c := by
  have hb := bsz_pos c hn hm
  unfold nb; split
  · omega
  · rename_i h
    have : bsz c ≤ spd c + bsz c - 1 := by omega
    exact Nat.div_pos this hb

theorem slots_ge (c : BatchCfg) (hn : 0 < c.n) (hm : 0 < c.maxbs) (hd : 0 < c.dev) : c.n ≤ slots c := by
  have hb := bsz_pos c hn hm
  have h1 : c.n ≤ spd c * c.dev := ceil_mul_ge c.n c.dev hd
  have h2 : spd c ≤ nb c * bsz c := by
    unfold nb; split
    · simpa using ‹spd c ≤ bsz c›
    · exact ceil_mul_ge _ _ hb
  calc c.n ≤ spd c * c.dev := h1
    _ ≤ (nb c * bsz c) * c.dev := Nat.mul_le_mul_right _ h2
    _ = slots c := by unfold slots; ring

theorem npad_nonneg (c : BatchCfg) (hn : 0 < c.n) (hm : 0 < c.maxbs) (hd : 0 < c.dev) : 0 ≤ npad c := by
  have := slots_ge c hn hm hd; unfold npad; omega

theorem flatten_chunksAux {β : Type} (k : Nat) (hk : 0 < k) (fuel : Nat) (xs : List β) (h : xs.length ≤ fuel) :
    (chunksAux k fuel xs).flatten = xs := by
  induction fuel generalizing xs with
  | zero =>
    have : xs = [] := List.eq_nil_of_length_eq_zero (by omega)
    subst this; simp [chunksAux]
  | succ fuel ih =>
    simp only [chunksAux]
    split
    · rename_i h0
      rcases h0 with h0 | h0
      · omega
      · simp [List.isEmpty_iff.mp h0]
    · rename_i h0
      have hx : xs ≠ [] := fun e => h0 (Or.inr (by simp [e]))
      have : 0 < xs.length := List.length_pos_iff.mpr hx
      rw [List.flatten_cons, ih (xs.drop k) (by simp only [List.length_drop]; omega)]
      exact List.take_append_drop k xs

theorem flatten_chunks {β : Type} (k : Nat) (hk : 0 < k) (xs : List β) : (chunks k xs).flatten = xs :=
  flatten_chunksAux k hk _ xs (Nat.le_refl _)

theorem chunksAux_shape {β : Type} (k : Nat) (hk : 0 < k) (m : Nat) (fuel : Nat) (xs : List β)
    (h : xs.length = m * k) (hf : xs.length ≤ fuel) :
    (chunksAux k fuel xs).length = m ∧ ∀ b ∈ chunksAux k fuel xs, b.length = k := by
  induction m generalizing xs fuel with
  | zero =>
    have : xs = [] := by apply List.eq_nil_of_length_eq_zero; simpa using h
    subst this
    cases fuel <;> simp [chunksAux]
  | succ m ih =>
    have hpos : 0 < xs.length := by rw [h, Nat.succ_mul]; omega
    cases fuel with
    | zero => omega
    | succ fuel =>
      have hne : ¬ (k = 0 ∨ xs.isEmpty = true) := by
        rintro (h0 | h0)
        · omega
        · rw [List.isEmpty_iff.mp h0] at hpos; simp at hpos
      simp only [chunksAux, if_neg hne]
      have hlen : (xs.drop k).length = m * k := by
        simp only [List.length_drop, h]; rw [Nat.succ_mul]; omega
      obtain ⟨h1, h2⟩ := ih fuel (xs.drop k) hlen (by simp only [List.length_drop]; omega)
      refine ⟨by simp [h1], ?_⟩
      intro b hb
      simp only [List.mem_cons] at hb
      rcases hb with rfl | hb
      · simp only [List.length_take, h]; rw [Nat.succ_mul]; omega
      · exact h2 b hb

/-- a list of length `m*k` splits into exactly `m` chunks, each of length `k` -/
theorem chunks_shape {β : Type} (k : Nat) (hk : 0 < k) (m : Nat) (xs : List β) (h : xs.length = m * k) :
    (chunks k xs).length = m ∧ ∀ b ∈ chunks k xs, b.length = k :=
  chunksAux_shape k hk m _ xs h (Nat.le_refl _)

theorem flatten_map_map {β γ : Type} (f : β → γ) (r : List (List β)) :
    (r.map (List.map f)).flatten = r.flatten.map f := by
  induction r with
  | nil => rfl
  | cons x xs ih => simp only [List.map_cons, List.flatten_cons, List.map_append, ih]

theorem flatten_map3 {β γ : Type} (f : β → γ) (r : List (List (List β))) :
    (map3 f r).flatten.flatten = r.flatten.flatten.map f := by
  unfold map3
  rw [flatten_map_map (List.map f) r, flatten_map_map]

end MdpaxV
