/- Gauss–Seidel device run: contraction towards a fixed point and the converse fixed-point direction (C06, C01). -/
import MdpaxV.Theory.SemiAsync
import MdpaxV.Theory.Bridge
set_option linter.unusedSectionVars false
namespace MdpaxV
variable {α : Type} [Field α] [LinearOrder α] [IsStrictOrderedRing α]

/-- states named by real slots are real states with a consistent index -/
def SlotsOK' (P : Problem α) (n : Nat) (b : List (Option Nat)) : Prop := ∀ s, some s ∈ b → s < n ∧ P.sidx s = (s : Int)

theorem scatterPos_cast' (n s : Nat) (h : s < n) : scatterPos n (s : Int) = some s := by
  unfold scatterPos; simp only []
  split <;> split <;> (try split) <;> simp_all <;> omega

theorem specRun_length (P : Problem α) (γ padv : α) (W : List α) (bs : List (List (Option Nat))) :
    (specRun P γ padv W bs).flatten.length = bs.flatten.length := by
  induction bs generalizing W with
  | nil => rfl
  | cons b bs ih => simp [specRun, ih]

/-- entries of the carry after one batch: unchanged, or the output of a real slot whose state is that index -/
theorem specScatter_entry (P : Problem α) (W : List α) (b : List (Option Nat)) (f : Option Nat → α) (hb : SlotsOK' P W.length b)
    (i : Nat) (hi : i < W.length) :
    (specScatter P W b (b.map f)).getD i 0 = W.getD i 0 ∨ (some i ∈ b ∧ (specScatter P W b (b.map f)).getD i 0 = f (some i)) := by
  unfold specScatter
  rw [List.getD_eq_getElem?_getD, List.getElem?_eq_getElem (by simpa using hi), List.getElem_mapIdx]
  simp only [Option.getD_some]
  cases hf : (b.zip (b.map f)).find? (fun p => p.1.isSome && scatterPos W.length (slotTarget P p.1) == some i) with
  | none => left; simp [List.getD_eq_getElem?_getD, List.getElem?_eq_getElem hi]
  | some p =>
    right
    have hmem := List.mem_of_find?_eq_some hf
    have hprop := List.find?_some hf
    rw [List.zip_map_right] at hmem
    obtain ⟨q, hq, hqe⟩ := List.mem_map.mp hmem
    obtain ⟨q1, q2⟩ := q
    have hq12 := List.of_mem_zip hq
    have hzip : q1 = q2 := by
      obtain ⟨k, hk, hke⟩ := List.mem_iff_getElem.mp hq
      simp [List.getElem_zip] at hke
      rw [← hke.1, ← hke.2]
    subst hzip
    simp only [Prod.map_apply, id] at hqe
    rw [← hqe] at hprop ⊢
    cases q1 with
    | none => simp at hprop
    | some s =>
      obtain ⟨hs, hidx⟩ := hb s hq12.1
      simp only [slotTarget, hidx, scatterPos_cast' _ _ hs, Option.isSome_some, Bool.true_and, beq_iff_eq, Option.some.injEq] at hprop
      subst hprop
      exact ⟨hq12.1, rfl⟩

theorem specScatter_length (P : Problem α) (W : List α) (b : List (Option Nat)) (out : List α) : (specScatter P W b out).length = W.length := by
  simp [specScatter]

/-- **device-level contraction towards a fixed point**: if the carry is within δ of a fixed point `Wst` of the Bellman operator
    at every index, every real-slot output of the Gauss–Seidel run is within γ·δ of `Wst` at its state (0 ≤ γ ≤ 1) -/
theorem specRun_bound (P : Problem α) (γ padv : α) (hγ0 : 0 ≤ γ) (hγ1 : γ ≤ 1) (hst : Stoch P) (hA : 0 < P.nA)
    (Wst : List α) (hWl : Wst.length = P.nS) (hfix : ∀ s, s < P.nS → backup P γ (look Wst) s = Wst.getD s 0)
    (δ : α) (hδ : 0 ≤ δ)
    (bs : List (List (Option Nat))) (W : List α) (hW : W.length = P.nS) (hS : 0 < P.nS)
    (hb : ∀ b ∈ bs, SlotsOK' P P.nS b)
    (hclose : ∀ i, i < P.nS → |W.getD i 0 - Wst.getD i 0| ≤ δ) :
    ∀ p ∈ bs.flatten.zip (specRun P γ padv W bs).flatten, ∀ s, p.1 = some s → |p.2 - Wst.getD s 0| ≤ γ * δ := by
  induction bs generalizing W with
  | nil => intro p hp; simp [specRun] at hp
  | cons b bs ih =>
    -- every lookup of the carry is within δ of the same lookup of the fixed point
    have hlook : ∀ j : Int, |look W j - look Wst j| ≤ δ := by
      intro j
      unfold look
      rw [hW, hWl]
      have hc := clampIdx_lt P.nS hS j
      have := hclose _ hc
      simpa [List.getD_eq_getElem?_getD] using this
    have hout : ∀ s, s < P.nS → |backup P γ (look W) s - Wst.getD s 0| ≤ γ * δ := by
      intro s hs
      rw [← hfix s hs]
      have hp := fun a e ha he => hst.1 s a e hs ha he
      have hsum := fun a ha => hst.2 s a hs ha
      have h1 : backup P γ (look W) s ≤ backup P γ (look Wst) s + γ * δ := by
        rw [← backup_shift P γ s hA hsum (look Wst) δ]
        apply backup_mono P γ hγ0 s hp
        intro i; have := abs_le.mp (hlook i); linarith
      have h2 : backup P γ (look Wst) s ≤ backup P γ (look W) s + γ * δ := by
        rw [← backup_shift P γ s hA hsum (look W) δ]
        apply backup_mono P γ hγ0 s hp
        intro i; have := abs_le.mp (hlook i); linarith
      rw [abs_le]; constructor <;> linarith
    intro p hp s hps
    simp only [specRun, List.flatten_cons] at hp
    rw [List.zip_append (by simp)] at hp
    rcases List.mem_append.mp hp with h1 | h1
    · rw [List.zip_map_right] at h1
      obtain ⟨q, hq, rfl⟩ := List.mem_map.mp h1
      obtain ⟨q1, q2⟩ := q
      have hq12 := List.of_mem_zip hq
      have hzip : q1 = q2 := by
        obtain ⟨k, hk, hke⟩ := List.mem_iff_getElem.mp hq
        simp [List.getElem_zip] at hke
        rw [← hke.1, ← hke.2]
      subst hzip
      simp only [Prod.map_apply, id] at hps ⊢
      subst hps
      exact hout s ((hb b (by simp)) s hq12.1).1
    · apply ih (specScatter P W b (b.map (onSlot (backup P γ (look W)) padv))) (by rw [specScatter_length]; exact hW)
        (fun b' hb' => hb b' (by simp [hb'])) ?_ p h1 s hps
      intro i hi
      have hbOK : SlotsOK' P W.length b := by rw [hW]; exact hb b (by simp)
      rcases specScatter_entry P W b (onSlot (backup P γ (look W)) padv) hbOK i (by rw [hW]; exact hi) with h | ⟨hmem, h⟩
      · rw [h]; exact hclose i hi
      · rw [h]
        simp only [onSlot]
        have := hout i hi
        have hgd : γ * δ ≤ δ := by nlinarith
        linarith

/-- **converse fixed-point direction, device level**: if every real-slot output equals the carried vector `V` at its state,
    then the carry never changes and `backup V = V` at every state that occurs -/
theorem specRun_fixed_conv (P : Problem α) (γ padv : α) (V : List α) (hV : V.length = P.nS)
    (bs : List (List (Option Nat))) (hb : ∀ b ∈ bs, SlotsOK' P P.nS b)
    (hout : ∀ p ∈ bs.flatten.zip (specRun P γ padv V bs).flatten, ∀ s, p.1 = some s → p.2 = V.getD s 0) :
    ∀ b ∈ bs, ∀ s, some s ∈ b → backup P γ (look V) s = V.getD s 0 := by
  induction bs with
  | nil => intro b hb'; simp at hb'
  | cons b bs ih =>
    simp only [specRun, List.flatten_cons] at hout
    rw [List.zip_append (by simp)] at hout
    -- first batch: outputs are backup(look V) and equal V
    have hfirst : ∀ s, some s ∈ b → backup P γ (look V) s = V.getD s 0 := by
      intro s hs
      have hmem : (some s, onSlot (backup P γ (look V)) padv (some s)) ∈ b.zip (b.map (onSlot (backup P γ (look V)) padv)) := by
        rw [List.zip_map_right]
        obtain ⟨k, hk, hke⟩ := List.mem_iff_getElem.mp hs
        apply List.mem_map.mpr
        refine ⟨(some s, some s), ?_, rfl⟩
        apply List.mem_iff_getElem.mpr
        exact ⟨k, by simpa using hk, by simp [List.getElem_zip, hke]⟩
      have := hout _ (List.mem_append.mpr (Or.inl hmem)) s rfl
      simpa [onSlot] using this
    -- hence the carry is unchanged
    have hcarry : specScatter P V b (b.map (onSlot (backup P γ (look V)) padv)) = V := by
      apply List.ext_getElem
      · rw [specScatter_length]
      · intro i h1 h2
        have hbOK : SlotsOK' P V.length b := by rw [hV]; exact hb b (by simp)
        have := specScatter_entry P V b (onSlot (backup P γ (look V)) padv) hbOK i h2
        simp only [List.getD_eq_getElem?_getD, List.getElem?_eq_getElem h1, List.getElem?_eq_getElem h2, Option.getD_some] at this
        rcases this with h | ⟨hmem, h⟩
        · exact h
        · rw [h]; simp only [onSlot]
          rw [hfirst i hmem]; simp [List.getD_eq_getElem?_getD, List.getElem?_eq_getElem h2]
    intro b' hb' s hs
    rcases List.mem_cons.mp hb' with rfl | hb''
    · exact hfirst s hs
    · rw [hcarry] at hout
      exact ih (fun b0 h0 => hb b0 (by simp [h0])) (fun p hp => hout p (List.mem_append.mpr (Or.inr hp))) b' hb'' s hs

end MdpaxV

namespace MdpaxV
variable {α : Type} [Field α] [LinearOrder α] [IsStrictOrderedRing α]

/-- zipping the flattened slot layout with the flattened per-device outputs = concatenation of the per-device zips -/
theorem zip_flatten_devices (L : List (List (List (Option Nat)))) (F : List (List (Option Nat)) → List (List α))
    (hF : ∀ d ∈ L, (F d).flatten.length = d.flatten.length) :
    (L.flatten.flatten).zip ((L.map F).flatten.flatten) = L.flatMap (fun d => d.flatten.zip (F d).flatten) := by
  induction L with
  | nil => rfl
  | cons d L ih =>
    simp only [List.flatten_cons, List.map_cons, List.flatten_append, List.flatMap_cons]
    rw [List.zip_append (by rw [hF d (by simp)]), ih (fun d' hd' => hF d' (by simp [hd']))]

theorem flatten_outs_length (L : List (List (List (Option Nat)))) (F : List (List (Option Nat)) → List (List α))
    (hF : ∀ d ∈ L, (F d).flatten.length = d.flatten.length) :
    ((L.map F).flatten.flatten).length = (L.flatten.flatten).length := by
  induction L with
  | nil => rfl
  | cons d L ih =>
    simp only [List.flatten_cons, List.map_cons, List.flatten_append, List.length_append]
    rw [hF d (by simp), ih (fun d' hd' => hF d' (by simp [hd']))]

/-- the layout order of a sweep -/
def orderOf' (n : Nat) (perm : Option (List Nat)) : List Nat := perm.getD (List.range n)

/-- natural-order result of un-batching and un-permuting per-device outputs `F` -/
def assemble (c : BatchCfg) (n : Nat) (perm : Option (List Nat)) (L : List (List (List (Option Nat)))) (F : List (List (Option Nat)) → List (List α)) : List α :=
  let flat := unbatch c (L.map F)
  match perm with
  | none => flat
  | some p => (List.range n).map fun j => flat.getD (p.idxOf j) 0

/-- **plumbing**: the natural-order entry of state `s` is the output paired with the slot that holds `s`.
    Hence a property of all (slot, output) pairs holds of all natural-order entries, and — the order having no
    duplicates — conversely. -/
theorem assemble_entry (c : BatchCfg) (hv : C18.Valid c) (perm : Option (List Nat))
    (hperm : (orderOf' c.n perm).Perm (List.range c.n))
    (F : List (List (Option Nat)) → List (List α))
    (hF : ∀ d ∈ prepare c none ((orderOf' c.n perm).map some), (F d).flatten.length = d.flatten.length)
    (s : Nat) (hs : s < c.n) :
    let L := prepare c none ((orderOf' c.n perm).map some)
    (some s, (assemble c c.n perm L F).getD s 0) ∈ (L.flatten.flatten).zip ((L.map F).flatten.flatten) ∧
    ∀ p ∈ (L.flatten.flatten).zip ((L.map F).flatten.flatten), p.1 = some s → p.2 = (assemble c c.n perm L F).getD s 0 := by
  intro L
  set order := orderOf' c.n perm with hord
  have hlen : order.length = c.n := by rw [hperm.length_eq]; simp
  have hnd : order.Nodup := (hperm.nodup_iff).mpr List.nodup_range
  have hmem : s ∈ order := hperm.mem_iff.mpr (List.mem_range.mpr hs)
  have hflatL : L.flatten.flatten = order.map some ++ List.replicate (npad c).toNat none :=
    C18.prepare_layout c hv none (order.map some)
  have hlenOut := flatten_outs_length L F hF
  have hslots : (L.flatten.flatten).length = slots c := by
    rw [hflatL]; simp [hlen]
    have := C18.slots_eq c hv; unfold npad at this ⊢; omega
  have hub : unbatch c (L.map F) = ((L.map F).flatten.flatten).take c.n :=
    C18.unbatch_take c hv _ (by rw [hlenOut, hslots])
  set pos := order.idxOf s with hpos
  have hposlt : pos < order.length := List.idxOf_lt_length_iff.mpr hmem
  have hopos : order[pos] = s := List.getElem_idxOf hposlt
  have hposn : pos < c.n := by omega
  have hposOut : pos < ((L.map F).flatten.flatten).length := by rw [hlenOut, hslots]; have := slots_ge c hv.1 hv.2.1 hv.2.2; omega
  -- the natural-order entry is the flat output at `pos`
  have hentry : (assemble c c.n perm L F).getD s 0 = ((L.map F).flatten.flatten)[pos] := by
    unfold assemble
    simp only [hub]
    cases perm with
    | none =>
      have : pos = s := by
        have h1 : order = List.range c.n := by simp [hord, orderOf']
        have : order[pos] = pos := by simp [h1]
        omega
      simp only [List.getD_eq_getElem?_getD]
      rw [List.getElem?_take_of_lt (by omega), ← this, List.getElem?_eq_getElem hposOut]; rfl
    | some p =>
      have hp : order = p := by simp [hord, orderOf']
      simp only [List.getD_eq_getElem?_getD, List.getElem?_map, List.getElem?_range hs, Option.map_some, Option.getD_some]
      rw [← hp, ← hpos, List.getElem?_take_of_lt hposn, List.getElem?_eq_getElem hposOut]; rfl
  have hLpos : (L.flatten.flatten)[pos]'(by rw [hslots]; have := slots_ge c hv.1 hv.2.1 hv.2.2; omega) = some s := by
    simp only [hflatL]
    rw [List.getElem_append_left (by simpa using hposlt)]
    simp [hopos]
  constructor
  · rw [hentry]
    apply List.mem_iff_getElem.mpr
    have hposL : pos < (L.flatten.flatten).length := by rw [hslots]; have := slots_ge c hv.1 hv.2.1 hv.2.2; omega
    refine ⟨pos, by rw [List.length_zip]; exact Nat.lt_min.mpr ⟨hposL, hposOut⟩, ?_⟩
    simp [List.getElem_zip, hLpos]
  · intro p hp hp1
    obtain ⟨k, hk, hke⟩ := List.mem_iff_getElem.mp hp
    have hk' := hk
    rw [List.length_zip] at hk'
    have hk1 : k < (L.flatten.flatten).length := (Nat.lt_min.mp hk').1
    have hk2 : k < ((L.map F).flatten.flatten).length := (Nat.lt_min.mp hk').2
    rw [List.getElem_zip] at hke
    have hLk : (L.flatten.flatten)[k] = some s := by rw [← hp1, ← hke]
    -- position k is a real slot, so k < n and order[k] = s, hence k = pos
    have hkn : k < order.length := by
      by_contra hc
      simp only [hflatL] at hLk
      rw [List.getElem_append_right (by simpa using (not_lt.mp hc))] at hLk
      simp at hLk
    have hok : order[k] = s := by
      simp only [hflatL] at hLk
      rw [List.getElem_append_left (by simpa using hkn)] at hLk
      simpa using hLk
    have hkpos : k = pos := by
      have := (List.Nodup.getElem_inj_iff hnd (hi := hkn) (hj := hposlt)).mp (by rw [hok, hopos])
      exact this
    rw [hentry, ← hke]; simp [hkpos]

end MdpaxV

namespace MdpaxV
variable {α : Type} [Field α] [LinearOrder α] [IsStrictOrderedRing α]

/-- `semiSweep` in terms of the padding-free device recursion and `assemble` -/
theorem semiSweep_eq_assemble (P : Problem α) (c : BatchCfg) (hv : C18.Valid c) (hn : c.n = P.nS) (γ : α) (V : List α)
    (perm : Option (List Nat)) (choose : Nat → Bool) (padv : α) :
    semiSweep P c γ V perm choose padv =
      assemble c c.n perm (prepare c none ((orderOf' c.n perm).map some)) (specRun P γ padv V) := by
  unfold semiSweep assemble orderOf'
  rw [hn]
  have : (prepare c none ((perm.getD (List.range P.nS)).map some)).map (deviceRun P γ choose padv V) =
      (prepare c none ((perm.getD (List.range P.nS)).map some)).map (specRun P γ padv V) := by
    apply List.map_congr_left
    intro d hd
    exact deviceRun_eq_specRun P γ choose padv V d (prepare_padTail c hv _ d hd)
  simp only [this]
  rfl

/-- every real slot of a prepared layout names a real state with a consistent index -/
theorem layout_slotsOK (P : Problem α) (c : BatchCfg) (hv : C18.Valid c) (hn : c.n = P.nS) (hw : IdxWF P) (perm : Option (List Nat))
    (hperm : (orderOf' c.n perm).Perm (List.range c.n)) :
    ∀ d ∈ prepare c none ((orderOf' c.n perm).map some), ∀ b ∈ d, SlotsOK' P P.nS b := by
  intro d hd b hb s hs
  have hmem : some s ∈ (prepare c none ((orderOf' c.n perm).map some)).flatten.flatten :=
    List.mem_flatten.mpr ⟨b, List.mem_flatten.mpr ⟨d, hd, hb⟩, hs⟩
  rw [C18.prepare_layout c hv] at hmem
  have : s ∈ orderOf' c.n perm := by
    rcases List.mem_append.mp hmem with h | h
    · simpa using h
    · simp [List.mem_replicate] at h
  have hs' : s < P.nS := by rw [← hn]; exact List.mem_range.mp (hperm.mem_iff.mp this)
  exact ⟨hs', hw s hs'⟩

/-- **Gauss–Seidel contraction towards a fixed point, whole sweep**: for every partition, permutation and collision
    resolution, if `V` is within δ of a fixed point `Wst` of the Bellman operator, the sweep is within γ·δ of it -/
theorem semiSweep_contracts (P : Problem α) (c : BatchCfg) (hv : C18.Valid c) (hn : c.n = P.nS) (hw : IdxWF P)
    (γ : α) (hγ0 : 0 ≤ γ) (hγ1 : γ ≤ 1) (hst : Stoch P) (hA : 0 < P.nA)
    (Wst : List α) (hWl : Wst.length = P.nS) (hfix : ∀ s, s < P.nS → backup P γ (look Wst) s = Wst.getD s 0)
    (V : List α) (hV : V.length = P.nS) (δ : α) (hδ : 0 ≤ δ) (hclose : ∀ i, i < P.nS → |V.getD i 0 - Wst.getD i 0| ≤ δ)
    (perm : Option (List Nat)) (hperm : (orderOf' c.n perm).Perm (List.range c.n)) (choose : Nat → Bool) (padv : α)
    (s : Nat) (hs : s < P.nS) :
    |(semiSweep P c γ V perm choose padv).getD s 0 - Wst.getD s 0| ≤ γ * δ := by
  rw [semiSweep_eq_assemble P c hv hn]
  have hS : 0 < P.nS := by rw [← hn]; exact hv.1
  have hF : ∀ d ∈ prepare c none ((orderOf' c.n perm).map some), (specRun P γ padv V d).flatten.length = d.flatten.length :=
    fun d _ => specRun_length P γ padv V d
  obtain ⟨hmem, _⟩ := assemble_entry c hv perm hperm (specRun P γ padv V) hF s (by rw [hn]; exact hs)
  rw [zip_flatten_devices _ _ hF] at hmem
  obtain ⟨d, hd, hp⟩ := List.mem_flatMap.mp hmem
  exact specRun_bound P γ padv hγ0 hγ1 hst hA Wst hWl hfix δ hδ d V hV hS
    (layout_slotsOK P c hv hn hw perm hperm d hd) hclose _ hp s rfl

/-- **converse fixed-point direction, whole sweep**: a vector left unchanged by a semi-asynchronous sweep (any schedule) is a
    fixed point of the Bellman operator -/
theorem semiSweep_fixed_conv (P : Problem α) (c : BatchCfg) (hv : C18.Valid c) (hn : c.n = P.nS) (hw : IdxWF P)
    (γ : α) (V : List α) (hV : V.length = P.nS)
    (perm : Option (List Nat)) (hperm : (orderOf' c.n perm).Perm (List.range c.n)) (choose : Nat → Bool) (padv : α)
    (hsw : semiSweep P c γ V perm choose padv = V) :
    ∀ s, s < P.nS → backup P γ (look V) s = V.getD s 0 := by
  rw [semiSweep_eq_assemble P c hv hn] at hsw
  have hF : ∀ d ∈ prepare c none ((orderOf' c.n perm).map some), (specRun P γ padv V d).flatten.length = d.flatten.length :=
    fun d _ => specRun_length P γ padv V d
  intro s hs
  -- the slot holding s lives in some device d
  obtain ⟨hmem, _⟩ := assemble_entry c hv perm hperm (specRun P γ padv V) hF s (by rw [hn]; exact hs)
  rw [zip_flatten_devices _ _ hF] at hmem
  obtain ⟨d, hd, hp⟩ := List.mem_flatMap.mp hmem
  -- in that device every real-slot output equals V at its state
  have hout : ∀ p ∈ d.flatten.zip (specRun P γ padv V d).flatten, ∀ t, p.1 = some t → p.2 = V.getD t 0 := by
    intro p hp' t ht
    have htn : t < P.nS := by
      have hb : ∃ b ∈ d, some t ∈ b := by
        have := (List.of_mem_zip hp').1
        rw [ht] at this
        obtain ⟨b, hb, hbt⟩ := List.mem_flatten.mp this
        exact ⟨b, hb, hbt⟩
      obtain ⟨b, hb, hbt⟩ := hb
      exact (layout_slotsOK P c hv hn hw perm hperm d hd b hb t hbt).1
    obtain ⟨_, hall⟩ := assemble_entry c hv perm hperm (specRun P γ padv V) hF t (by rw [hn]; exact htn)
    have hglob : p ∈ ((prepare c none ((orderOf' c.n perm).map some)).flatten.flatten).zip
        (((prepare c none ((orderOf' c.n perm).map some)).map (specRun P γ padv V)).flatten.flatten) := by
      rw [zip_flatten_devices _ _ hF]
      exact List.mem_flatMap.mpr ⟨d, hd, hp'⟩
    rw [hall p hglob ht, hsw]
  have hconv := specRun_fixed_conv P γ padv V hV d (layout_slotsOK P c hv hn hw perm hperm d hd) hout
  obtain ⟨b, hb, hbs⟩ := List.mem_flatten.mp ((List.of_mem_zip hp).1)
  exact hconv b hb s hbs

end MdpaxV
