/- The tie by translation: the definitions generated from /repo's Python source (MdpaxV/Gen/Code.lean, rewritten by
   harness/translate.py on every run) equal the hand-written model for ALL inputs of the documented domain.
   If the source changes semantically these proofs stop building. -/
import MdpaxV.Gen.Code
import MdpaxV.Model.Batch
import MdpaxV.Model.Config
import Mathlib.Tactic.Ring
import Mathlib.Tactic.IntervalCases
import Mathlib.Tactic.Linarith
import Mathlib.Tactic.NormNum
import Mathlib.Algebra.Order.Ring.Int


namespace MdpaxV.GenTie
open MdpaxV

theorem fdiv_natCast (a b : Nat) : Int.fdiv (a : Int) (b : Int) = ((a / b : Nat) : Int) := by
  rw [Int.fdiv_eq_ediv_of_nonneg _ (Int.natCast_nonneg b)]
  exact (Int.natCast_ediv a b).symm

/-- **`BatchProcessor.__init__` as written in /repo = the model** (`spd`, `bsz`, `nb`, `npad`), for every number of states,
    every maximum batch size and every device count ≥ 1 -/
theorem batchInit_eq_model (c : BatchCfg) (sd : Int) (hd : 1 ≤ c.dev) :
    Gen.batchInit c.n sd c.maxbs c.dev = ((c.dev : Int), (bsz c : Int), (nb c : Int), npad c) := by
  have hspd : Int.fdiv (((c.n : Int) + (c.dev : Int)) - 1) (c.dev : Int) = ((spd c : Nat) : Int) := by
    have : ((c.n : Int) + (c.dev : Int)) - 1 = ((c.n + c.dev - 1 : Nat) : Int) := by omega
    rw [this, fdiv_natCast]; rfl
  have hbsz : (if (c.dev : Int) = 1 then min (c.maxbs : Int) (c.n : Int) else min (c.maxbs : Int) (max 64 ((spd c : Nat) : Int)))
      = ((bsz c : Nat) : Int) := by
    unfold bsz
    by_cases h1 : c.dev = 1
    · have : (c.dev : Int) = 1 := by exact_mod_cast h1
      rw [if_pos this, if_pos h1]; push_cast; rfl
    · have : ¬ (c.dev : Int) = 1 := by exact_mod_cast h1
      rw [if_neg this, if_neg h1]; push_cast; rfl
  have hnb : (if ((spd c : Nat) : Int) ≤ ((bsz c : Nat) : Int) then (1 : Int)
      else Int.fdiv ((((spd c : Nat) : Int) + ((bsz c : Nat) : Int)) - 1) ((bsz c : Nat) : Int)) = ((nb c : Nat) : Int) := by
    unfold nb
    by_cases h1 : spd c ≤ bsz c
    · have : ((spd c : Nat) : Int) ≤ ((bsz c : Nat) : Int) := by exact_mod_cast h1
      rw [if_pos this, if_pos h1]; rfl
    · have hn : ¬ ((spd c : Nat) : Int) ≤ ((bsz c : Nat) : Int) := by exact_mod_cast h1
      rw [if_neg hn, if_neg h1]
      have : (((spd c : Nat) : Int) + ((bsz c : Nat) : Int)) - 1 = ((spd c + bsz c - 1 : Nat) : Int) := by omega
      rw [this, fdiv_natCast]
  simp only [Gen.batchInit]
  rw [hspd, hbsz, hnb]
  simp only [npad, slots]
  push_cast
  rfl

/-- **`get_convergence_format` as written in /repo = the model's `decimalPlaces`**, for every ⌊log10 ε⌋ and `max_decimals` -/
theorem decimalPlaces_eq_model (e : Int) (m : Nat) : Gen.decimalPlaces e (m : Int) = MdpaxV.decimalPlaces e m := by
  simp only [Gen.decimalPlaces, MdpaxV.decimalPlaces]

/-- **the five solver-configuration validators as written in /repo = the model's `validateSolver`**: same checks, same order,
    same exception classes, for every configuration -/
theorem validate_vi_eq (c : SolverCfg) : Gen.validate_vi c = validateSolver .vi c := by
  simp only [Gen.validate_vi, validateSolver, checkCommon, bind_assoc]
theorem validate_pi_eq (c : SolverCfg) : Gen.validate_pi c = validateSolver .pi c := by
  simp only [Gen.validate_pi, validateSolver, checkCommon, bind_assoc]
theorem validate_rvi_eq (c : SolverCfg) : Gen.validate_rvi c = validateSolver .rvi c := by
  simp only [Gen.validate_rvi, validateSolver, checkCommon, bind_assoc, ne_eq]
theorem validate_periodic_eq (c : SolverCfg) : Gen.validate_periodic c = validateSolver .periodic c := by
  simp only [Gen.validate_periodic, validateSolver, checkCommon, bind_assoc]
theorem validate_semi_eq (c : SolverCfg) : Gen.validate_semi c = validateSolver .semi c := by
  simp only [Gen.validate_semi, validateSolver, checkCommon, bind_assoc]

/-- **the four problem-configuration validators as written in /repo = the model's** -/
theorem pvalidate_forest_eq (c : ForestCfgV) : Gen.pvalidate_Forest c = validateForest c := rfl
theorem pvalidate_demoor_eq (c : DeMoorCfgV) : Gen.pvalidate_DeMoor c = validateDeMoor c := rfl
theorem pvalidate_hendrix_eq (c : HendrixCfgV) : Gen.pvalidate_Hendrix c = validateHendrix c := rfl
theorem pvalidate_mirjalili_eq (c : MirjaliliCfgV) : Gen.pvalidate_Mirjalili c = validateMirjalili c := rfl

/-- **`verbosity_to_loguru_level` as written in /repo = the model's `loguruLevel`**, for every argument -/
theorem loguruLevel_eq (isInt : Bool) (v : Int) : Gen.loguruLevel isInt v = MdpaxV.loguruLevel isInt v := by
  unfold Gen.loguruLevel MdpaxV.loguruLevel
  cases isInt
  · rfl
  · by_cases h : v < 0 ∨ v > 4
    · simp [h]
    · have h0 : 0 ≤ v := by omega
      have h4 : v ≤ 4 := by omega
      simp only [Bool.not_true, Bool.false_eq_true, if_false, if_neg h]
      interval_cases v <;> simp [levelName]

end MdpaxV.GenTie
