/-
Line-protocol driver: executes the model at `Rat`.
  lake env lean --run Driver.lean < ops.txt
One request per line, one canonical response line per request.
Tokens are separated by single spaces; `key=value`; lists are comma separated; nested lists use ';'.
-/
import MdpaxV.Model.Batch
import MdpaxV.Model.Backup
import MdpaxV.Model.Loop
import MdpaxV.Model.Solvers
import MdpaxV.Model.SemiAsync
import MdpaxV.Model.Spaces
import MdpaxV.Model.Matrices
import MdpaxV.Model.Shipped
import MdpaxV.Model.Probs
import MdpaxV.Model.Store
import MdpaxV.Model.Ckpt
import MdpaxV.Model.Crash
import MdpaxV.Model.Config
open MdpaxV

/-! parsing / printing -/
def pInt (s : String) : Except String Int :=
  match s.toInt? with | some i => pure i | none => throw s!"bad int '{s}'"
def pNat (s : String) : Except String Nat :=
  match s.toNat? with | some i => pure i | none => throw s!"bad nat '{s}'"
def pRat (s : String) : Except String Rat :=
  match s.splitOn "/" with
  | [a] => do let n ← pInt a; pure (n : Rat)
  | [a, b] => do
      let n ← pInt a; let d ← pNat b
      if d = 0 then throw "zero denominator" else pure ((n : Rat) / (d : Rat))
  | _ => throw s!"bad rat '{s}'"
def pList {β} (p : String → Except String β) (s : String) : Except String (List β) :=
  if s = "" || s = "-" then pure [] else (s.splitOn ",").mapM p
def pList2 {β} (p : String → Except String β) (s : String) : Except String (List (List β)) :=
  if s = "" then pure [] else (s.splitOn ";").mapM (pList p)

def fRat (r : Rat) : String := if r.den = 1 then toString r.num else s!"{r.num}/{r.den}"
def fList {β} (f : β → String) (l : List β) : String := if l.isEmpty then "-" else ",".intercalate (l.map f)
def fList2 {β} (f : β → String) (l : List (List β)) : String := ";".intercalate (l.map (fList f))
def fOptNat : Option Nat → String | some n => toString n | none => "_"

abbrev Args := List (String × String)
def parseArgs (toks : List String) : Args :=
  toks.filterMap fun t => match t.splitOn "=" with
    | [k, v] => some (k, v)
    | _ => none
def arg (a : Args) (k : String) : Except String String :=
  match a.lookup k with | some v => pure v | none => throw s!"missing arg {k}"
def argD (a : Args) (k : String) (d : String) : String := (a.lookup k).getD d

/-! driver state -/
structure TabP where
  P : Problem Rat
  initPol : Option (List Nat)

inductive Kind | vi | rvi | periodic | pi | semi
deriving DecidableEq

structure Solver where
  kind : Kind
  pid : String
  c : BatchCfg
  γ : Rat
  ε : Rat
  thr : Rat
  test : ConvTest
  period : Nat
  clear : Bool
  budget : Nat
  reset : Option (List Rat)
  f : Nat
  st : SState Rat
  perms : List (Nat × Option (List Nat)) := []   -- semi-async: permutation used for iteration k
  chooseReal : Bool := false                      -- semi-async: does the real update win against padding
  dir : Option String := none                     -- checkpoint directory id (none = checkpointing disabled)
  maxKeep : Nat := 1
  fullCfg : Bool := false

structure DState where
  probs : List (String × TabP) := []
  solvers : List (String × Solver) := []
  dirs : List (String × Store (SState Rat)) := []
  dirCfg : List (String × Solver) := []           -- the configuration saved in config.yaml of a directory

def mkProblem (a : Args) : Except String TabP := do
  let nS ← pNat (← arg a "S"); let nA ← pNat (← arg a "A"); let nE ← pNat (← arg a "E")
  let nxt := (← pList pInt (← arg a "nxt")).toArray
  let rew := (← pList pRat (← arg a "rew")).toArray
  let prob := (← pList pRat (← arg a "prob")).toArray
  let sidx := (← pList pInt (← arg a "sidx")).toArray
  let zidx ← pInt (← arg a "zidx")
  let init := (← pList pRat (← arg a "init")).toArray
  if nxt.size ≠ nS*nA*nE || rew.size ≠ nS*nA*nE || prob.size ≠ nS*nA*nE || sidx.size ≠ nS || init.size ≠ nS then
    throw "table size mismatch"
  let ix := fun s a e => (s*nA + a)*nE + e
  let ip ← match a.lookup "initpol" with
    | none => pure none
    | some v => do pure (some (← pList pNat v))
  pure { P := { nS, nA, nE, nxt := fun s a e => nxt.getD (ix s a e) 0, rew := fun s a e => rew.getD (ix s a e) 0,
                prob := fun s a e => prob.getD (ix s a e) 0, sidx := fun s => sidx.getD s 0, zidx,
                initVal := fun s => init.getD s 0 },
         initPol := ip }

def getP (d : DState) (pid : String) : Except String TabP :=
  match d.probs.lookup pid with | some p => pure p | none => throw s!"unknown problem {pid}"

def pCfg (a : Args) : Except String BatchCfg := do
  pure { n := ← pNat (← arg a "n"), maxbs := ← pNat (← arg a "maxbs"), dev := ← pNat (← arg a "dev") }

def fSlot : Option Nat → String | some n => toString n | none => "_"

def fState (s : SState Rat) (conv : Bool) (sweeps : Nat) (saves : List (Nat × SState Rat)) : String :=
  let hist := match s.hist with | none => "_" | some h => fList2 fRat h
  s!"iter={s.iter} conv={conv} sweeps={sweeps} values={fList fRat s.values} policy={match s.policy with | none => "_" | some p => fList toString p} gain={fRat s.gain} hidx={s.hidx} hist={hist} saves={fList toString (saves.map (·.1))} savevals={fList2 fRat (saves.map (·.2.values))}"

def rabs (x : Rat) : Rat := if x < 0 then -x else x

/-- min over the sweeps of one solve call of |measure − threshold| (decision margin; diagnostics only) -/
def minMargin (measure : SState Rat → Option Rat) (step : SState Rat → SState Rat × Bool) (thr : Rat) :
    Nat → SState Rat → Option Rat → Option Rat
  | 0, _, acc => acc
  | k+1, s, acc =>
    let acc' := match measure s with
      | none => acc
      | some m => match acc with
        | none => some (rabs (m - thr))
        | some a => some (min a (rabs (m - thr)))
    let r := step s
    if r.2 then acc' else minMargin measure step thr k r.1 acc'

def fOptRat : Option Rat → String | some r => fRat r | none => "_"

/-- full tables of a shipped problem: spaces, index of every state, and for every (s,a,e) the successor vector,
    its index and the reward -/
def shippedTable (states actions events : List (List Int)) (idx : List Int → Int)
    (trans : List Int → List Int → List Int → List Int × Rat) : String :=
  let triples := states.flatMap fun s => actions.flatMap fun a => events.map fun e => trans s a e
  s!"states={fList2 toString states} actions={fList2 toString actions} events={fList2 toString events} sidx={fList toString (states.map idx)} nxtvec={fList2 toString (triples.map (·.1))} nxt={fList toString (triples.map fun t => idx t.1)} rew={fList fRat (triples.map (·.2))}"

def getDir (d : DState) (k : String) : Store (SState Rat) := (d.dirs.lookup k).getD {}
def setDir (d : DState) (k : String) (st : Store (SState Rat)) : DState := { d with dirs := (k, st) :: d.dirs.filter (·.1 ≠ k) }

def fStore (st : Store (SState Rat)) : String :=
  s!"created={st.created} config={st.hasConfig} steps={fList toString st.labels} stepvals={fList2 fRat (st.steps.map (·.2.values))} stepiters={fList toString (st.steps.map (·.2.iter))}"

/-- `Model/Ckpt.lean`: only policy iteration's fresh template holds a policy array -/
def restoredStateK (kind : Kind) (snap : SState Rat) : SState Rat := restoredState (decide (kind = Kind.pi)) snap

def fErr : RestoreErr → String
  | .fileNotFound => "error=FileNotFoundError"
  | .noCheckpoint => "error=ValueError"
  | .missingStep => "error=missing-step"

def pEvent (t : String) : Except String FsEvent :=
  match t.splitOn ":" with
  | ["mk", k] => do pure (.mkTmp (← pNat k))
  | ["commit", k] => do pure (.commit (← pNat k))
  | ["delstart", k] => do pure (.delStart (← pNat k))
  | ["deldone", k] => do pure (.delDone (← pNat k))
  | _ => throw s!"bad event {t}"

def fEvent : FsEvent → String
  | .mkTmp k => s!"mk:{k}" | .commit k => s!"commit:{k}" | .delStart k => s!"delstart:{k}" | .delDone k => s!"deldone:{k}"

def handle (d : DState) (line : String) : Except String (DState × String) := do
  let toks := (line.trimAscii.toString.splitOn " ").filter (· ≠ "")
  match toks with
  | [] => pure (d, "")
  | cmd :: rest =>
    let a := parseArgs rest
    match cmd with
    | "batch" => do
        let c ← pCfg a
        pure (d, s!"dev={c.dev} nb={nb c} bsz={bsz c} npad={npad c}")
    | "prepare" => do
        let c ← pCfg a
        let r := prepare c none (stateSlots c.n)
        pure (d, ("|".intercalate (r.map fun dv => fList2 fSlot dv)))
    | "unbatch" => do
        -- unbatch of the array whose flat content is 0,1,…,slots-1
        let c ← pCfg a
        let flat := List.range (slots c)
        let r := chunks (nb c) (chunks (bsz c) flat)
        pure (d, fList toString (unbatch c r))
    | "problem" => do
        let pid ← arg a "id"
        let p ← mkProblem a
        pure ({ d with probs := (pid, p) :: d.probs.filter (·.1 ≠ pid) }, "ok")
    | "sweep" => do
        let p ← getP d (← arg a "id"); let c ← pCfg a
        let γ ← pRat (← arg a "gamma"); let V ← pList pRat (← arg a "V")
        let nv := sweep p.P c γ V 0
        let pol := policy p.P c γ V 0
        pure (d, s!"values={fList fRat nv} policy={fList toString pol} span={fRat (spanOf nv V)} maxdiff={fRat (maxDiff nv V)}")
    | "semisweep" => do
        let p ← getP d (← arg a "id"); let c ← pCfg a
        let γ ← pRat (← arg a "gamma"); let V ← pList pRat (← arg a "V")
        let perm ← match argD a "perm" "_" with
          | "_" => pure none
          | v => do pure (some (← pList pNat v))
        let ch := argD a "choose" "pad" = "real"
        pure (d, s!"values={fList fRat (semiSweep p.P c γ V perm (fun _ => ch) 0)}")
    | "cert" => do
        -- verify certificates with the model's own operators, then report exact gaps
        let p ← getP d (← arg a "id")
        let γ ← pRat (← arg a "gamma")
        let W ← pList pRat (← arg a "W"); let U ← pList pRat (← arg a "U")
        let pol ← pList pNat (← arg a "pol"); let V ← pList pRat (← arg a "V")
        let n := p.P.nS
        let TW := (List.range n).map (backup p.P γ (look W))
        let TU := (List.range n).map fun s => qval p.P γ (look U) s (pol.getD s 0)
        let wfix := decide (TW = W) && W.length == n
        let ufix := decide (TU = U) && U.length == n && pol.length == n && pol.all (· < p.P.nA)
        let gaps := vsub W U
        let vw := (vsub V W).map rabs
        let vu := (vsub V U).map rabs
        pure (d, s!"wfix={wfix} ufix={ufix} gapmin={fRat (minList gaps)} gapmax={fRat (maxList gaps)} vwmax={fRat (maxList vw)} vumax={fRat (maxList vu)}")
    | "certavg" => do
        -- average-reward certificates: g + h = T h (optimality), gd + hd = T_d hd (returned policy), gamma = 1
        let p ← getP d (← arg a "id")
        let g ← pRat (← arg a "g"); let h ← pList pRat (← arg a "h")
        let gd ← pRat (← arg a "gd"); let hd ← pList pRat (← arg a "hd")
        let pol ← pList pNat (← arg a "pol"); let V ← pList pRat (← arg a "V"); let gain ← pRat (← arg a "gain")
        let n := p.P.nS
        let Th := (List.range n).map (backup p.P 1 (look h))
        let Thd := (List.range n).map fun s => qval p.P 1 (look hd) s (pol.getD s 0)
        let optOk := decide (Th = h.map (· + g)) && h.length == n
        let polOk := decide (Thd = hd.map (· + gd)) && hd.length == n && pol.length == n && pol.all (· < p.P.nA)
        let TV := (List.range n).map (backup p.P 1 (look V))
        let resid := (vsub TV V).map fun x => rabs (x - gain)
        pure (d, s!"optok={optOk} polok={polOk} gainerr={fRat (rabs (gain - g))} polgap={fRat (g - gd)} resid={fRat (maxList resid)}")
    | "space" => do
        let mins ← pList pInt (← arg a "mins"); let maxs ← pList pInt (← arg a "maxs")
        let sp := rangeSpace mins maxs
        let ext := rangeSpace (mins.map (· - 2)) (maxs.map (· + 2))
        pure (d, s!"space={fList2 toString sp} idx={fList toString (ext.map (indexFn mins maxs))}")
    | "matrices" => do
        let p ← getP d (← arg a "id"); let tol ← pRat (← arg a "tol")
        match buildMatrices p.P tol with
        | .error s a r => pure (d, s!"error=ValueError state={s} action={a} rowsum={fRat r}")
        | .ok Pm Rm => pure (d, s!"P={fList2 fRat (Pm.flatten)} R={fList2 fRat Rm}")
    | "shippedtab" => do
        match (← arg a "kind") with
        | "forest" => do
            let c : ForestCfg Rat := { S := ← pNat (← arg a "S"), r1 := ← pRat (← arg a "r1"), r2 := ← pRat (← arg a "r2"), p := ← pRat (← arg a "p") }
            pure (d, shippedTable (forestStates c) forestActions forestEvents forestIdx (forestTrans c))
        | "demoor" => do
            let issueS ← arg a "issue"
            let issueFifo : Bool := issueS == "fifo"
            let c : DeMoorCfg Rat := { maxDemand := ← pNat (← arg a "D"), m := ← pNat (← arg a "m"), L := ← pNat (← arg a "L"), Q := ← pNat (← arg a "Q"), cv := ← pRat (← arg a "cv"), cs := ← pRat (← arg a "cs"), cw := ← pRat (← arg a "cw"), ch := ← pRat (← arg a "ch"), fifo := issueFifo }
            pure (d, shippedTable (deMoorStates c) (deMoorActions c) (deMoorEvents c) (deMoorIdx c) (deMoorTrans c))
        | "hendrix" => do
            let c : HendrixCfg Rat := { m := ← pNat (← arg a "m"), Qa := ← pNat (← arg a "Qa"), Qb := ← pNat (← arg a "Qb"), costA := ← pRat (← arg a "ca"), costB := ← pRat (← arg a "cb"), priceA := ← pRat (← arg a "pa"), priceB := ← pRat (← arg a "pb") }
            pure (d, shippedTable (hendrixStates c) (hendrixActions c) (hendrixEvents c) (hendrixIdx c) (hendrixTrans c))
        | "mirjalili" => do
            let c : MirjaliliCfg Rat := { maxDemand := ← pNat (← arg a "D"), m := ← pNat (← arg a "m"), Q := ← pNat (← arg a "Q"), cv := ← pRat (← arg a "cv"), cf := ← pRat (← arg a "cf"), cs := ← pRat (← arg a "cs"), cw := ← pRat (← arg a "cw"), ch := ← pRat (← arg a "ch") }
            pure (d, shippedTable (mirjaliliStates c) (mirjaliliActions c) (mirjaliliEvents c) (mirjaliliIdx c) (mirjaliliTrans c))
        | k => throw s!"unknown kind {k}"
    | "demoorprobs" => do
        let cdf ← pList pRat (← arg a "cdf")
        pure (d, s!"probs={fList fRat (deMoorProbs cdf)}")
    | "censored" => do
        let l ← pList pRat (← arg a "l")
        pure (d, s!"probs={fList fRat (censored l)}")
    | "mirjprobs" => do
        -- event probabilities of one (weekday, order) row in the order of `mirjaliliEvents`
        let nbt := (← pList pRat (← arg a "nb")).toArray
        let cat ← pList pRat (← arg a "cat")
        let order ← pNat (← arg a "order")
        let c : MirjaliliCfg Rat := { maxDemand := ← pNat (← arg a "D"), m := ← pNat (← arg a "m"), Q := ← pNat (← arg a "Q"), cv := 0, cf := 0, cs := 0, cw := 0, ch := 0 }
        let dp := (censored nbt.toList).toArray
        let probs := mirjaliliRow c (fun d => dp.getD d 0) (fun _ => cat) order
        pure (d, s!"probs={fList fRat probs} sum={fRat (lsum probs)}")
    | "fmt" => do
        -- precision of the progress format for a threshold with floor(log10 thr) = e
        let e ← pInt (← arg a "e"); let m ← pNat (← arg a "m")
        pure (d, s!"decimals={decimalPlaces e m}")
    | "hendrixprobs" => do
        -- one row of Hendrix event probabilities for stock totals (x, y) from the primitive tables; also the specification row
        let pa := (← pList pRat (← arg a "pa")).toArray
        let pb := (← pList pRat (← arg a "pb")).toArray
        let tail := (← pList pRat (← arg a "tail")).toArray
        let t : HendrixTab Rat := { D := ← pNat (← arg a "D"), maxA := ← pNat (← arg a "maxA"), maxB := ← pNat (← arg a "maxB"),
                                    pa := fun n => pa.getD n 0, pb := fun n => pb.getD n 0, tailA := fun x => tail.getD x 0, rho := ← pRat (← arg a "rho") }
        let x ← pNat (← arg a "x"); let y ← pNat (← arg a "y")
        let row := hendrixRow t x y
        let spec := (List.range (t.maxA + 1)).flatMap fun ia => (List.range (t.maxB + 1)).map fun ib => hendrixSpecCell t x y ia ib
        pure (d, s!"probs={fList fRat row} sum={fRat (lsum row)} spec_equal={decide (row = spec)}")
    | "ls" => do
        pure (d, fStore (getDir d (← arg a "dir")))
    | "cpdir" => do
        -- copying a checkpoint directory copies its committed steps and its config.yaml (whose recorded checkpoint_dir still names the source)
        let src ← arg a "src"; let dst ← arg a "dst"
        let d1 := setDir d dst (getDir d src)
        let d2 := match d1.dirCfg.lookup src with
          | some cfg => { d1 with dirCfg := (dst, cfg) :: d1.dirCfg.filter (·.1 ≠ dst) }
          | none => d1
        pure (d2, "ok")
    | "rmdir" => do
        let k ← arg a "dir"
        pure ({ d with dirs := d.dirs.filter (·.1 ≠ k), dirCfg := d.dirCfg.filter (·.1 ≠ k) }, "ok")
    | "restore" => do
        -- Solver.restore(dir, step, new_checkpoint_dir, checkpoint_frequency, max_checkpoints)
        let sid ← arg a "sid"; let dirId ← arg a "dir"
        let step ← match a.lookup "step" with | none => pure none | some v => do pure (some (← pNat v))
        let st := getDir d dirId
        -- order of effects in the code: config.yaml check; instantiate(config) (which sets up the target directory);
        -- only then is the step resolved and restored
        if !st.hasConfig then pure (d, fErr .fileNotFound) else
        match d.dirCfg.lookup dirId with
        | none => pure (d, "error=FileNotFoundError")
        | some cfg =>
          let f ← match a.lookup "f" with | none => pure cfg.f | some v => pNat v
          let mk ← match a.lookup "m" with | none => pure cfg.maxKeep | some v => pNat v
          -- without `new_checkpoint_dir` the rebuilt solver keeps saving where its configuration file says (the directory the run
          -- started in), which differs from `dirId` when the directory was copied or moved
          let newDir := (a.lookup "newdir").getD (cfg.dir.getD dirId)
          let sv0 : Solver := { cfg with f, maxKeep := mk, dir := if f = 0 then none else some newDir, perms := [] }
          let d := if f = 0 then d else
            let d1 := setDir d newDir ((getDir d newDir).setup f true)
            if (d1.dirCfg.lookup newDir).isNone then { d1 with dirCfg := (newDir, sv0) :: d1.dirCfg } else d1
          match st.restore step with
          | .error e => pure (d, fErr e)
          | .ok (_, snap) =>
            let sv : Solver := { sv0 with st := restoredStateK cfg.kind snap }
            pure ({ d with solvers := (sid, sv) :: d.solvers.filter (·.1 ≠ sid) }, "ok " ++ fState sv.st false 0 [])
    | "load" => do
        let sid ← arg a "sid"; let dirId ← arg a "dir"
        let step ← match a.lookup "step" with | none => pure none | some v => do pure (some (← pNat v))
        match d.solvers.lookup sid with
        | none => throw "unknown solver"
        | some sv =>
          match (getDir d dirId).load step with
          | .error e => pure (d, fErr e)
          | .ok (_, snap) =>
            let sv' := { sv with st := restoredStateK sv.kind snap }
            pure ({ d with solvers := (sid, sv') :: d.solvers.filter (·.1 ≠ sid) }, "ok " ++ fState sv'.st false 0 [])
    | "accepts" => do
        -- conformance of an observed operation log with the store protocol; also the state after every prefix
        let evs ← pList pEvent (← arg a "evs")
        let ok := accepts {} evs
        let lat := (List.range (evs.length + 1)).map fun n => match (({} : Fs).run (evs.take n)).latest with | some l => toString l | none => "_"
        pure (d, s!"accepts={ok} latest_after_prefix={",".intercalate lat}")
    | "fstrace" => do
        let m ← pNat (← arg a "m"); let saves ← pList pNat (← arg a "saves")
        pure (d, s!"events={fList fEvent (protoTrace m [] saves)}")
    | "validate" => do
        let fE : Except CfgErr Unit → String := fun r => match r with
          | .ok _ => "ok" | .error .typeError => "error=TypeError" | .error .valueError => "error=ValueError"
        let b : String → Bool := fun k => argD a k "1" = "1"
        let i : String → String → Except String Int := fun k dflt => pInt (argD a k dflt)
        let q : String → String → Except String Rat := fun k dflt => pRat (argD a k dflt)
        match (← arg a "kind") with
        | "forest" => do pure (d, fE (validateForest { S := ← i "S" "3", p := ← q "p" "1/10" }))
        | "demoor" => do pure (d, fE (validateDeMoor { maxDemand := ← i "D" "5", mean := ← q "mean" "4", cov := ← q "cov" "1/2", m := ← i "m" "2", L := ← i "L" "1", Q := ← i "Q" "3", issueOk := b "issueok" }))
        | "hendrix" => do pure (d, fE (validateHendrix { m := ← i "m" "2", meanA := ← q "meana" "5", meanB := ← q "meanb" "5", rho := ← q "rho" "1/2", Qa := ← i "Qa" "3", Qb := ← i "Qb" "3" }))
        | "mirjalili" => do
            let nLen ← pNat (argD a "nlen" "7"); let dLen ← pNat (argD a "dlen" "7"); let c0 ← pNat (argD a "c0len" "2"); let c1 ← pNat (argD a "c1len" "2")
            pure (d, fE (validateMirjalili { maxDemand := ← i "D" "5", nLen, nPos := b "npos", dLen, dPos := b "dpos", m := ← i "m" "3", c0Len := c0, c1Len := c1, Q := ← i "Q" "3" }))
        | ks => do
            let k ← match ks with
              | "vi" => pure SolverKind.vi | "pi" => pure SolverKind.pi | "rvi" => pure SolverKind.rvi
              | "periodic" => pure SolverKind.periodic | "semi" => pure SolverKind.semi | _ => throw s!"unknown kind {ks}"
            let c : SolverCfg := { problemOk := b "problemok", gamma := ← q "gamma" "1/2", eps := ← q "eps" "1/1000", maxbs := ← i "maxbs" "64", f := ← i "f" "0", m := ← i "m" "1", verbose := ← i "verbose" "0", testOk := b "testok", period := ← i "period" "2", budget := ← i "budget" "100" }
            pure (d, fE (outcome k c Route.kwargs) ++ s!" thr={fRat (thresholdOf k c)}")
    | "verbosity" => do
        -- `verbosity_to_loguru_level` (int=…, or nonint=1) and `Solver.set_verbosity` (set=int:<n> | set=name:<s>)
        let fN : List Char → String := fun l => String.ofList l
        match a.find? (fun kv => kv.1 = "set") with
        | some (_, v) =>
          let lvl : Except String (List Char ⊕ Int) :=
            if v.startsWith "int:" then (pInt (v.drop 4).toString).map Sum.inr else pure (Sum.inl (v.drop 5).toString.toList)
          match setVerbosity (← lvl) with
          | .ok (n, nm) => pure (d, s!"ok verbose={n} level={fN nm}")
          | .error .typeError => pure (d, "error=TypeError")
          | .error .valueError => pure (d, "error=ValueError")
        | none =>
          let isInt := argD a "nonint" "0" ≠ "1"
          match loguruLevel isInt (← pInt (argD a "int" "0")) with
          | .ok nm => pure (d, s!"ok level={fN nm}")
          | .error .typeError => pure (d, "error=TypeError")
          | .error .valueError => pure (d, "error=ValueError")
    | "qrow" => do
        let p ← getP d (← arg a "id")
        let γ ← pRat (← arg a "gamma"); let V ← pList pRat (← arg a "V"); let s ← pNat (← arg a "s")
        pure (d, fList fRat (qrow p.P γ (look V) s))
    | "evalsweep" => do
        let p ← getP d (← arg a "id"); let c ← pCfg a
        let γ ← pRat (← arg a "gamma"); let V ← pList pRat (← arg a "V"); let pol ← pList pNat (← arg a "pol")
        pure (d, s!"values={fList fRat (evalSweep p.P c γ pol V 0)}")
    | "evaluate" => do
        let p ← getP d (← arg a "id"); let c ← pCfg a
        let γ ← pRat (← arg a "gamma"); let ε ← pRat (← arg a "eps")
        let V ← pList pRat (← arg a "V"); let pol ← pList pNat (← arg a "pol")
        let budget ← pNat (← arg a "budget")
        let test := if argD a "test" "span" = "max_diff" then ConvTest.maxDiff else ConvTest.span
        match threshold γ ε with
        | none => pure (d, "error=OverflowError")
        | some thr =>
          let out := evaluate p.P c γ thr test pol budget V
          let m := convMeasure test (evalSweep p.P c γ pol out 0) out
          pure (d, s!"values={fList fRat out} converged={decide (m < thr)} margin={fRat (rabs (m - thr))}")
    | "initvalues" => do
        let p ← getP d (← arg a "id"); let c ← pCfg a
        pure (d, s!"values={fList fRat (initValues p.P c 0)}")
    | "new" => do
        let sid ← arg a "sid"; let pid ← arg a "id"; let p ← getP d pid; let c ← pCfg a
        let γ ← pRat (← arg a "gamma"); let ε ← pRat (← arg a "eps")
        let test := if argD a "test" "span" = "max_diff" then ConvTest.maxDiff else ConvTest.span
        let f ← pNat (argD a "f" "0")
        let period ← pNat (argD a "period" "1")
        let budget ← pNat (argD a "budget" "100")
        let clear := argD a "clear" "1" = "1"
        let kind ← match (← arg a "solver") with
          | "vi" => pure Kind.vi | "rvi" => pure Kind.rvi | "periodic" => pure Kind.periodic
          | "pi" => pure Kind.pi | "semi" => pure Kind.semi | s => throw s!"unknown solver {s}"
        let thrO : Option Rat := if kind = Kind.rvi || kind = Kind.periodic then some ε else threshold γ ε
        match thrO with
        | none => pure (d, "error=OverflowError")
        | some thr =>
          let st := match kind with
            | Kind.periodic => periodicInit p.P c period
            | Kind.pi => piInit p.P c γ p.initPol
            | Kind.rvi => rviInit p.P c
            | _ => initState p.P c
          let reset := if argD a "reset" "0" = "1" then some st.values else none
          let dirId := if f = 0 then none else a.lookup "dir"
          let maxKeep ← pNat (argD a "m" "1")
          let fullCfg := argD a "cfg" "0" = "1"
          let sv : Solver := { kind, pid, c, γ, ε, thr, test, period, clear, budget, reset, f, st, dir := dirId, maxKeep, fullCfg }
          let d := match dirId with
            | none => d
            | some k =>
              let d1 := setDir d k ((getDir d k).setup f fullCfg)
              if fullCfg && (d1.dirCfg.lookup k).isNone then { d1 with dirCfg := (k, sv) :: d1.dirCfg } else d1
          pure ({ d with solvers := (sid, sv) :: d.solvers.filter (·.1 ≠ sid) }, s!"ok thr={fRat thr} " ++ fState st false 0 [])
    | "setpolicy" => do
        let sid ← arg a "sid"
        match d.solvers.lookup sid with
        | none => throw "unknown solver"
        | some sv =>
          let pol ← pList pNat (← arg a "pol")
          let sv' := { sv with st := { sv.st with policy := some pol } }
          pure ({ d with solvers := (sid, sv') :: d.solvers.filter (·.1 ≠ sid) }, "ok")
    | "setvalues" => do
        let sid ← arg a "sid"
        match d.solvers.lookup sid with
        | none => throw "unknown solver"
        | some sv =>
          let V ← pList pRat (← arg a "V")
          let sv' := { sv with st := { sv.st with values := V } }
          pure ({ d with solvers := (sid, sv') :: d.solvers.filter (·.1 ≠ sid) }, "ok")
    | "solve" => do
        let sid ← arg a "sid"; let k ← pNat (← arg a "k")
        match d.solvers.lookup sid with
        | none => throw "unknown solver"
        | some sv =>
          let p ← getP d sv.pid
          if k = 0 then pure (d, "error=UnboundLocalError") else
          if sv.kind = Kind.periodic && sv.st.hist.isNone then pure (d, "error=TypeError") else
          -- semi-async: permutations of this call, for iterations iter+1, iter+2, …
          let newPerms ← match a.lookup "perms" with
            | none => pure []
            | some v => do
                let ps ← (v.splitOn ";").mapM fun t => if t = "_" then pure none else do pure (some (← pList pNat t))
                pure (ps.zipIdx.map fun (q, i) => (sv.st.iter + 1 + i, q))
          let sv := { sv with perms := newPerms ++ sv.perms,
                              chooseReal := (argD a "choose" (if sv.chooseReal then "real" else "pad")) = "real" }
          let permFn : Nat → Option (List Nat) := fun k => (sv.perms.lookup k).getD none
          let chooseFn : Nat → Bool := fun _ => sv.chooseReal
          let r : Run (SState Rat) := match sv.kind with
            | Kind.vi => viSolve p.P sv.c sv.γ sv.thr sv.test sv.f k sv.st
            | Kind.rvi => rviSolve p.P sv.c sv.γ sv.ε sv.f k sv.st
            | Kind.periodic => periodicSolve p.P sv.c sv.γ sv.ε sv.period sv.clear sv.f k sv.st
            | Kind.pi => piSolve p.P sv.c sv.γ sv.thr sv.test sv.budget sv.reset sv.f k sv.st
            | Kind.semi => semiSolve p.P sv.c sv.γ sv.thr sv.test permFn chooseFn sv.f k sv.st
          let mm := match sv.kind with
            | Kind.vi => minMargin (fun s => some (viMeasure p.P sv.c sv.γ sv.test s)) (viStep p.P sv.c sv.γ sv.thr sv.test) sv.thr k sv.st none
            | Kind.rvi => minMargin (fun s => some (rviMeasure p.P sv.c sv.γ s)) (rviStep p.P sv.c sv.γ sv.ε) sv.ε k sv.st none
            | Kind.periodic => minMargin (periodicMeasureNext p.P sv.c sv.γ sv.period) (periodicStep p.P sv.c sv.γ sv.ε sv.period) sv.ε k sv.st none
            | Kind.semi => minMargin (fun s => some (semiMeasure p.P sv.c sv.γ sv.test permFn chooseFn s)) (semiStep p.P sv.c sv.γ sv.thr sv.test permFn chooseFn) sv.thr k sv.st none
            | Kind.pi => none
          -- the documented convergence measure of the last sweep this call performed (compared with the measure the solver logs)
          let before (step : SState Rat → SState Rat × Bool) : SState Rat := (List.range (r.sweeps - 1)).foldl (fun s _ => (step s).1) sv.st
          let lastM : Option Rat := if r.sweeps = 0 then none else match sv.kind with
            | Kind.vi => some (viMeasure p.P sv.c sv.γ sv.test (before (viStep p.P sv.c sv.γ sv.thr sv.test)))
            | Kind.rvi => some (rviMeasure p.P sv.c sv.γ (before (rviStep p.P sv.c sv.γ sv.ε)))
            | Kind.periodic => periodicMeasureNext p.P sv.c sv.γ sv.period (before (periodicStep p.P sv.c sv.γ sv.ε sv.period))
            | Kind.semi => some (semiMeasure p.P sv.c sv.γ sv.test permFn chooseFn (before (semiStep p.P sv.c sv.γ sv.thr sv.test permFn chooseFn)))
            | Kind.pi => none
          let sv' := { sv with st := r.state }
          let d := match sv.dir with
            | none => d
            | some k => setDir d k ((getDir d k).applySaves sv.maxKeep r.saves)
          pure ({ d with solvers := (sid, sv') :: d.solvers.filter (·.1 ≠ sid) },
                fState r.state r.converged r.sweeps r.saves ++ s!" minmargin={fOptRat mm} modelmeasure={fOptRat lastM}")
    | _ => throw s!"unknown command {cmd}"

partial def loop (h : IO.FS.Stream) (out : IO.FS.Stream) (d : DState) : IO Unit := do
  let line ← h.getLine
  if line.isEmpty then return ()
  match handle d line with
  | .ok (d', resp) => out.putStrLn resp; loop h out d'
  | .error e => out.putStrLn s!"driver-error {e}"; loop h out d

def main : IO Unit := do
  let out ← IO.getStdout
  loop (← IO.getStdin) out {}
  out.flush
