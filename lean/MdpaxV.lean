import MdpaxV.Model.Batch
import MdpaxV.Model.Backup
import MdpaxV.Model.Loop
import MdpaxV.Model.SemiAsync
import MdpaxV.Model.Solvers
