-- root of the library: every executable model module (core Lean only; this is what Driver.lean imports and what
-- MANIFEST.setup_cmd builds).  Theory/ and Props/ are built per property by the checks.
import MdpaxV.Model.Batch
import MdpaxV.Model.Backup
import MdpaxV.Model.Loop
import MdpaxV.Model.SemiAsync
import MdpaxV.Model.Solvers
import MdpaxV.Model.Spaces
import MdpaxV.Model.Matrices
import MdpaxV.Model.Shipped
import MdpaxV.Model.Probs
import MdpaxV.Model.Store
import MdpaxV.Model.Ckpt
import MdpaxV.Model.Crash
import MdpaxV.Model.Config
